----------------------------- MODULE Activation -----------------------------
(* C08.  Subscription tables and the two paths that write to a connection, at the    *)
(* granularity of the code (frappy/protocol/dispatcher.py, frappy/modulebase.py):    *)
(*   updater : announceUpdate under the module's updateLock: store, build message,    *)
(*             compute listeners (broadcast_event), send to each listener             *)
(*   req(c)  : handle_request under the dispatcher lock: activate / deactivate /      *)
(*             *IDN? ; the reply itself is sent by the interface after the lock       *)
(* One module m1 with parameters Params.  Scopes: "." (node), "m1", "m1:p".           *)
(* Switches select the design the property demands vs. the pinned code:               *)
(*   SnapLock TRUE: the activate snapshot of a module is built and sent under that    *)
(*            module's updateLock (as-implemented: FALSE -> stale snapshot)           *)
(*   SubLock  TRUE: after removing subscriptions (deactivate, *IDN?, disconnect) the    *)
(*            request passes once through the update lock of the modules concerned,   *)
(*            i.e. waits for broadcasts in flight (as-implemented: FALSE -> an update  *)
(*            whose listeners were computed before is delivered after the reply)      *)
EXTENDS Naturals, Sequences, FiniteSets, TLC

CONSTANTS Conns, Params, Updaters, NChanges,
          Scripts,      \* [Conns -> set of request sequences]; a request is [kind, scope]
          SnapLock, SubLock

Scopes == {"."} \cup {"m1"} \cup Params           \* parameter scopes are named like the parameter
InScope(p, s) == s = "." \/ s = "m1" \/ s = p

(* --algorithm Activation {
variables
  cache = [p \in Params |-> 0],
  nodeAct = {},                                  \* _active_connections
  subs = [s \in Scopes \ {"."} |-> {}],          \* _subscriptions
  out = [c \in Conns |-> <<>>],                  \* what each connection has been sent
  dlock = "free", ulock = "free", slock = "free",
  \* ghosts
  ent = [c \in Conns |-> [s \in Scopes |-> "off"]],   \* off / activating / active, as told to the client
  late = FALSE, snapOK = TRUE,
  chg = <<>>;

define {
  Listeners(p) == subs[p] \cup subs["m1"] \cup nodeAct
  Entitled(c, p) == \E s \in Scopes : InScope(p, s) /\ ent[c][s] \in {"activating", "active"}
  Active(c, p) == \E s \in Scopes : InScope(p, s) /\ ent[c][s] = "active"
  Upd(p, v) == [k |-> "upd", p |-> p, v |-> v]
}

macro Deliver(c, p, v) {
  out[c] := Append(out[c], Upd(p, v));
  late := late \/ ~Entitled(c, p);
}

fair process (updater \in Updaters)
variables k = 0, up = "", uv = 0, ls = {};
{
u_loop: while (k < NChanges) {
u_lock:    await ulock = "free"; ulock := self;
           with (p \in Params) { up := p };
u_store:   cache[up] := cache[up] + 1; uv := cache[up];
           chg := Append(chg, [p |-> up, v |-> uv, to |-> {c \in Conns : Active(c, up)}]);
u_listen:  ls := Listeners(up);
u_send:    while (ls # {}) {
              with (c \in ls) { Deliver(c, up, uv); ls := ls \ {c} }
           };
u_unlock:  ulock := "free"; k := k + 1;
        }
}

fair process (req \in Conns)
variables script = <<>>, i = 1, rq = [kind |-> "", scope |-> ""], todo = {}, sp = "", sv = 0, start = 0;
{
q_init: with (sc \in Scripts[self]) { script := sc };
q_loop: while (i <= Len(script)) {
q_begin:   await dlock = "free"; dlock := self;
           rq := script[i]; start := Len(out[self]);
q_tab:     if (rq.kind = "activate") {
              ent[self][rq.scope] := "activating";
              if (rq.scope = ".") { nodeAct := nodeAct \cup {self} }
              else { subs[rq.scope] := subs[rq.scope] \cup {self} };
              todo := {p \in Params : InScope(p, rq.scope)};
           } else if (rq.kind = "deactivate") {
              if (rq.scope = ".") { nodeAct := nodeAct \ {self} }
              else if (rq.scope = "m1") { subs := [s \in DOMAIN subs |-> subs[s] \ {self}] }
              else { subs[rq.scope] := subs[rq.scope] \ {self} };
              todo := {};
           } else {   \* ident
              nodeAct := nodeAct \ {self};
              subs := [s \in DOMAIN subs |-> subs[s] \ {self}];
              todo := {};
           };
q_bar:     if (SubLock /\ rq.kind # "activate") {
              \* repaired design: pass through the module's update lock once, so that every broadcast
              \* that computed its listeners before the table changed has been sent completely
              await ulock = "free"
           };
q_snap:    while (todo # {}) {
              if (SnapLock) { await ulock = "free"; ulock := self };
q_build:      with (p \in todo) { sp := p; sv := cache[p]; todo := todo \ {p} };
q_send:       Deliver(self, sp, sv);
              if (SnapLock) { ulock := "free" };
           };
q_unlock:  dlock := "free";
q_reply:   out[self] := Append(out[self], [k |-> "reply", p |-> rq.kind, v |-> 0]);
           if (rq.kind = "activate") {
              snapOK := snapOK /\ \A p \in Params : InScope(p, rq.scope) =>
                           \E n \in (start + 1) .. Len(out[self]) : out[self][n].k = "upd" /\ out[self][n].p = p;
              ent[self][rq.scope] := "active";
           } else if (rq.kind = "deactivate") {
              ent[self] := [s \in Scopes |-> IF s = rq.scope \/ (rq.scope = "m1" /\ s \in Params)
                                             THEN "off" ELSE ent[self][s]];
           } else {
              ent[self] := [s \in Scopes |-> "off"];
           };
           i := i + 1;
        }
}
} *)
\* BEGIN TRANSLATION
VARIABLES pc, cache, nodeAct, subs, out, dlock, ulock, slock, ent, late, 
          snapOK, chg

(* define statement *)
Listeners(p) == subs[p] \cup subs["m1"] \cup nodeAct
Entitled(c, p) == \E s \in Scopes : InScope(p, s) /\ ent[c][s] \in {"activating", "active"}
Active(c, p) == \E s \in Scopes : InScope(p, s) /\ ent[c][s] = "active"
Upd(p, v) == [k |-> "upd", p |-> p, v |-> v]

VARIABLES k, up, uv, ls, script, i, rq, todo, sp, sv, start

vars == << pc, cache, nodeAct, subs, out, dlock, ulock, slock, ent, late, 
           snapOK, chg, k, up, uv, ls, script, i, rq, todo, sp, sv, start >>

ProcSet == (Updaters) \cup (Conns)

Init == (* Global variables *)
        /\ cache = [p \in Params |-> 0]
        /\ nodeAct = {}
        /\ subs = [s \in Scopes \ {"."} |-> {}]
        /\ out = [c \in Conns |-> <<>>]
        /\ dlock = "free"
        /\ ulock = "free"
        /\ slock = "free"
        /\ ent = [c \in Conns |-> [s \in Scopes |-> "off"]]
        /\ late = FALSE
        /\ snapOK = TRUE
        /\ chg = <<>>
        (* Process updater *)
        /\ k = [self \in Updaters |-> 0]
        /\ up = [self \in Updaters |-> ""]
        /\ uv = [self \in Updaters |-> 0]
        /\ ls = [self \in Updaters |-> {}]
        (* Process req *)
        /\ script = [self \in Conns |-> <<>>]
        /\ i = [self \in Conns |-> 1]
        /\ rq = [self \in Conns |-> [kind |-> "", scope |-> ""]]
        /\ todo = [self \in Conns |-> {}]
        /\ sp = [self \in Conns |-> ""]
        /\ sv = [self \in Conns |-> 0]
        /\ start = [self \in Conns |-> 0]
        /\ pc = [self \in ProcSet |-> CASE self \in Updaters -> "u_loop"
                                        [] self \in Conns -> "q_init"]

u_loop(self) == /\ pc[self] = "u_loop"
                /\ IF k[self] < NChanges
                      THEN /\ pc' = [pc EXCEPT ![self] = "u_lock"]
                      ELSE /\ pc' = [pc EXCEPT ![self] = "Done"]
                /\ UNCHANGED << cache, nodeAct, subs, out, dlock, ulock, slock, 
                                ent, late, snapOK, chg, k, up, uv, ls, script, 
                                i, rq, todo, sp, sv, start >>

u_lock(self) == /\ pc[self] = "u_lock"
                /\ ulock = "free"
                /\ ulock' = self
                /\ \E p \in Params:
                     up' = [up EXCEPT ![self] = p]
                /\ pc' = [pc EXCEPT ![self] = "u_store"]
                /\ UNCHANGED << cache, nodeAct, subs, out, dlock, slock, ent, 
                                late, snapOK, chg, k, uv, ls, script, i, rq, 
                                todo, sp, sv, start >>

u_store(self) == /\ pc[self] = "u_store"
                 /\ cache' = [cache EXCEPT ![up[self]] = cache[up[self]] + 1]
                 /\ uv' = [uv EXCEPT ![self] = cache'[up[self]]]
                 /\ chg' = Append(chg, [p |-> up[self], v |-> uv'[self], to |-> {c \in Conns : Active(c, up[self])}])
                 /\ pc' = [pc EXCEPT ![self] = "u_listen"]
                 /\ UNCHANGED << nodeAct, subs, out, dlock, ulock, slock, ent, 
                                 late, snapOK, k, up, ls, script, i, rq, todo, 
                                 sp, sv, start >>

u_listen(self) == /\ pc[self] = "u_listen"
                  /\ ls' = [ls EXCEPT ![self] = Listeners(up[self])]
                  /\ pc' = [pc EXCEPT ![self] = "u_send"]
                  /\ UNCHANGED << cache, nodeAct, subs, out, dlock, ulock, 
                                  slock, ent, late, snapOK, chg, k, up, uv, 
                                  script, i, rq, todo, sp, sv, start >>

u_send(self) == /\ pc[self] = "u_send"
                /\ IF ls[self] # {}
                      THEN /\ \E c \in ls[self]:
                                /\ out' = [out EXCEPT ![c] = Append(out[c], Upd(up[self], uv[self]))]
                                /\ late' = (late \/ ~Entitled(c, up[self]))
                                /\ ls' = [ls EXCEPT ![self] = ls[self] \ {c}]
                           /\ pc' = [pc EXCEPT ![self] = "u_send"]
                      ELSE /\ pc' = [pc EXCEPT ![self] = "u_unlock"]
                           /\ UNCHANGED << out, late, ls >>
                /\ UNCHANGED << cache, nodeAct, subs, dlock, ulock, slock, ent, 
                                snapOK, chg, k, up, uv, script, i, rq, todo, 
                                sp, sv, start >>

u_unlock(self) == /\ pc[self] = "u_unlock"
                  /\ ulock' = "free"
                  /\ k' = [k EXCEPT ![self] = k[self] + 1]
                  /\ pc' = [pc EXCEPT ![self] = "u_loop"]
                  /\ UNCHANGED << cache, nodeAct, subs, out, dlock, slock, ent, 
                                  late, snapOK, chg, up, uv, ls, script, i, rq, 
                                  todo, sp, sv, start >>

updater(self) == u_loop(self) \/ u_lock(self) \/ u_store(self)
                    \/ u_listen(self) \/ u_send(self) \/ u_unlock(self)

q_init(self) == /\ pc[self] = "q_init"
                /\ \E sc \in Scripts[self]:
                     script' = [script EXCEPT ![self] = sc]
                /\ pc' = [pc EXCEPT ![self] = "q_loop"]
                /\ UNCHANGED << cache, nodeAct, subs, out, dlock, ulock, slock, 
                                ent, late, snapOK, chg, k, up, uv, ls, i, rq, 
                                todo, sp, sv, start >>

q_loop(self) == /\ pc[self] = "q_loop"
                /\ IF i[self] <= Len(script[self])
                      THEN /\ pc' = [pc EXCEPT ![self] = "q_begin"]
                      ELSE /\ pc' = [pc EXCEPT ![self] = "Done"]
                /\ UNCHANGED << cache, nodeAct, subs, out, dlock, ulock, slock, 
                                ent, late, snapOK, chg, k, up, uv, ls, script, 
                                i, rq, todo, sp, sv, start >>

q_begin(self) == /\ pc[self] = "q_begin"
                 /\ dlock = "free"
                 /\ dlock' = self
                 /\ rq' = [rq EXCEPT ![self] = script[self][i[self]]]
                 /\ start' = [start EXCEPT ![self] = Len(out[self])]
                 /\ pc' = [pc EXCEPT ![self] = "q_tab"]
                 /\ UNCHANGED << cache, nodeAct, subs, out, ulock, slock, ent, 
                                 late, snapOK, chg, k, up, uv, ls, script, i, 
                                 todo, sp, sv >>

q_tab(self) == /\ pc[self] = "q_tab"
               /\ IF rq[self].kind = "activate"
                     THEN /\ ent' = [ent EXCEPT ![self][rq[self].scope] = "activating"]
                          /\ IF rq[self].scope = "."
                                THEN /\ nodeAct' = (nodeAct \cup {self})
                                     /\ subs' = subs
                                ELSE /\ subs' = [subs EXCEPT ![rq[self].scope] = subs[rq[self].scope] \cup {self}]
                                     /\ UNCHANGED nodeAct
                          /\ todo' = [todo EXCEPT ![self] = {p \in Params : InScope(p, rq[self].scope)}]
                     ELSE /\ IF rq[self].kind = "deactivate"
                                THEN /\ IF rq[self].scope = "."
                                           THEN /\ nodeAct' = nodeAct \ {self}
                                                /\ subs' = subs
                                           ELSE /\ IF rq[self].scope = "m1"
                                                      THEN /\ subs' = [s \in DOMAIN subs |-> subs[s] \ {self}]
                                                      ELSE /\ subs' = [subs EXCEPT ![rq[self].scope] = subs[rq[self].scope] \ {self}]
                                                /\ UNCHANGED nodeAct
                                     /\ todo' = [todo EXCEPT ![self] = {}]
                                ELSE /\ nodeAct' = nodeAct \ {self}
                                     /\ subs' = [s \in DOMAIN subs |-> subs[s] \ {self}]
                                     /\ todo' = [todo EXCEPT ![self] = {}]
                          /\ ent' = ent
               /\ pc' = [pc EXCEPT ![self] = "q_bar"]
               /\ UNCHANGED << cache, out, dlock, ulock, slock, late, snapOK, 
                               chg, k, up, uv, ls, script, i, rq, sp, sv, 
                               start >>

q_bar(self) == /\ pc[self] = "q_bar"
               /\ IF SubLock /\ rq[self].kind # "activate"
                     THEN /\ ulock = "free"
                     ELSE /\ TRUE
               /\ pc' = [pc EXCEPT ![self] = "q_snap"]
               /\ UNCHANGED << cache, nodeAct, subs, out, dlock, ulock, slock, 
                               ent, late, snapOK, chg, k, up, uv, ls, script, 
                               i, rq, todo, sp, sv, start >>

q_snap(self) == /\ pc[self] = "q_snap"
                /\ IF todo[self] # {}
                      THEN /\ IF SnapLock
                                 THEN /\ ulock = "free"
                                      /\ ulock' = self
                                 ELSE /\ TRUE
                                      /\ ulock' = ulock
                           /\ pc' = [pc EXCEPT ![self] = "q_build"]
                      ELSE /\ pc' = [pc EXCEPT ![self] = "q_unlock"]
                           /\ ulock' = ulock
                /\ UNCHANGED << cache, nodeAct, subs, out, dlock, slock, ent, 
                                late, snapOK, chg, k, up, uv, ls, script, i, 
                                rq, todo, sp, sv, start >>

q_build(self) == /\ pc[self] = "q_build"
                 /\ \E p \in todo[self]:
                      /\ sp' = [sp EXCEPT ![self] = p]
                      /\ sv' = [sv EXCEPT ![self] = cache[p]]
                      /\ todo' = [todo EXCEPT ![self] = todo[self] \ {p}]
                 /\ pc' = [pc EXCEPT ![self] = "q_send"]
                 /\ UNCHANGED << cache, nodeAct, subs, out, dlock, ulock, 
                                 slock, ent, late, snapOK, chg, k, up, uv, ls, 
                                 script, i, rq, start >>

q_send(self) == /\ pc[self] = "q_send"
                /\ out' = [out EXCEPT ![self] = Append(out[self], Upd(sp[self], sv[self]))]
                /\ late' = (late \/ ~Entitled(self, sp[self]))
                /\ IF SnapLock
                      THEN /\ ulock' = "free"
                      ELSE /\ TRUE
                           /\ ulock' = ulock
                /\ pc' = [pc EXCEPT ![self] = "q_snap"]
                /\ UNCHANGED << cache, nodeAct, subs, dlock, slock, ent, 
                                snapOK, chg, k, up, uv, ls, script, i, rq, 
                                todo, sp, sv, start >>

q_unlock(self) == /\ pc[self] = "q_unlock"
                  /\ dlock' = "free"
                  /\ pc' = [pc EXCEPT ![self] = "q_reply"]
                  /\ UNCHANGED << cache, nodeAct, subs, out, ulock, slock, ent, 
                                  late, snapOK, chg, k, up, uv, ls, script, i, 
                                  rq, todo, sp, sv, start >>

q_reply(self) == /\ pc[self] = "q_reply"
                 /\ out' = [out EXCEPT ![self] = Append(out[self], [k |-> "reply", p |-> rq[self].kind, v |-> 0])]
                 /\ IF rq[self].kind = "activate"
                       THEN /\ snapOK' = (snapOK /\ \A p \in Params : InScope(p, rq[self].scope) =>
                                             \E n \in (start[self] + 1) .. Len(out'[self]) : out'[self][n].k = "upd" /\ out'[self][n].p = p)
                            /\ ent' = [ent EXCEPT ![self][rq[self].scope] = "active"]
                       ELSE /\ IF rq[self].kind = "deactivate"
                                  THEN /\ ent' = [ent EXCEPT ![self] = [s \in Scopes |-> IF s = rq[self].scope \/ (rq[self].scope = "m1" /\ s \in Params)
                                                                                         THEN "off" ELSE ent[self][s]]]
                                  ELSE /\ ent' = [ent EXCEPT ![self] = [s \in Scopes |-> "off"]]
                            /\ UNCHANGED snapOK
                 /\ i' = [i EXCEPT ![self] = i[self] + 1]
                 /\ pc' = [pc EXCEPT ![self] = "q_loop"]
                 /\ UNCHANGED << cache, nodeAct, subs, dlock, ulock, slock, 
                                 late, chg, k, up, uv, ls, script, rq, todo, 
                                 sp, sv, start >>

req(self) == q_init(self) \/ q_loop(self) \/ q_begin(self) \/ q_tab(self)
                \/ q_bar(self) \/ q_snap(self) \/ q_build(self)
                \/ q_send(self) \/ q_unlock(self) \/ q_reply(self)

(* Allow infinite stuttering to prevent deadlock on termination. *)
Terminating == /\ \A self \in ProcSet: pc[self] = "Done"
               /\ UNCHANGED vars

Next == (\E self \in Updaters: updater(self))
           \/ (\E self \in Conns: req(self))
           \/ Terminating

Spec == /\ Init /\ [][Next]_vars
        /\ \A self \in Updaters : WF_vars(updater(self))
        /\ \A self \in Conns : WF_vars(req(self))

Termination == <>(\A self \in ProcSet: pc[self] = "Done")

\* END TRANSLATION

Rq(kd, sco) == [kind |-> kd, scope |-> sco]
(* c1 activates / deactivates / re-identifies in some scope, c2 is a bystander that activated the node *)
ScriptsA == [c \in Conns |-> IF c = "c1"
               THEN {<<Rq("activate", s), Rq("deactivate", s)>> : s \in Scopes}
                    \cup {<<Rq("activate", s), Rq("ident", ".")>> : s \in {".", "p1"}}
                    \cup {<<Rq("activate", "m1"), Rq("deactivate", "p1")>>, <<Rq("activate", "."), Rq("activate", "p1"), Rq("deactivate", ".")>>}
               ELSE {<<Rq("activate", ".")>>, <<>>}]
ScriptsQ == [c \in Conns |-> IF c = "c1"
               THEN {<<Rq("activate", "."), Rq("deactivate", ".")>>, <<Rq("activate", "p1"), Rq("deactivate", "p1")>>,
                     <<Rq("activate", "m1"), Rq("ident", ".")>>}
               ELSE {<<Rq("activate", ".")>>}]
ScriptsB == [c \in Conns |-> {<<Rq("activate", s), Rq("deactivate", s)>> : s \in {".", "m1", "p1"}}]
(* --------------------------------- properties --------------------------------- *)
AllDone == \A x \in Updaters \cup Conns : pc[x] = "Done"
LastFor(c, p) == LET idx == {n \in 1 .. Len(out[c]) : out[c][n].k = "upd" /\ out[c][n].p = p}
                 IN IF idx = {} THEN 0 - 1 ELSE out[c][CHOOSE n \in idx : \A m \in idx : m <= n].v

(* before 'active' one current update for every exported parameter in scope *)
SnapshotBeforeActive == snapOK
(* no update of a scope after the reply that ended it (deactivate, ident) *)
NoLate == ~late
(* once things are quiet, the last message held for a parameter equals the cache *)
Converges == AllDone => \A c \in Conns, p \in Params : Active(c, p) => LastFor(c, p) = cache[p]
(* every change made while the connection was (and stays) active has been delivered *)
NoMiss == AllDone => \A n \in 1 .. Len(chg) : \A c \in chg[n].to :
             Active(c, chg[n].p) => \E m \in 1 .. Len(out[c]) : out[c][m] = Upd(chg[n].p, chg[n].v)
(* per parameter the stream never goes backwards *)
Ordered == \A c \in Conns, p \in Params :
             \A a, b \in 1 .. Len(out[c]) :
                (a < b /\ out[c][a].k = "upd" /\ out[c][b].k = "upd" /\ out[c][a].p = p /\ out[c][b].p = p)
                    => out[c][a].v <= out[c][b].v
(* a request of one connection never changes another connection's subscriptions *)
Isolation == [][\A c \in Conns : (pc[c] = "q_tab" /\ pc'[c] # "q_tab") =>
                   \A d \in Conns \ {c} : /\ (d \in nodeAct') = (d \in nodeAct)
                                          /\ \A s \in DOMAIN subs : (d \in subs'[s]) = (d \in subs[s])]_vars
=============================================================================
