------------------------------- MODULE Logging -------------------------------
(* C20.  Remote logging: per-module / per-connection level table, emit filter,  *)
(* reset on identification and on disconnect (frappy/logging.py RemoteLogHandler,*)
(* frappy/protocol/dispatcher.py handle_logging / reset_connection,             *)
(* frappy/modulebase.py setRemoteLogging), and log file rotation                *)
(* (frappy/logging.py LogfileHandler.doRollover).                               *)
(*                                                                              *)
(* Local sinks of a record (frappy/logging.py MainLogger.init, LogfileHandler   *)
(* .emit / .getChild, HasComlog, ComLogfileHandler; frappy/server.py:99-105):   *)
(*   console        every record with level >= console level                    *)
(*   "main"         <logdir>/<root>/<root>-<date>.log: records of the main      *)
(*                  logger itself with level >= logfile_level, never COMLOG     *)
(*   "node"         <logdir>/<root>/<node>/<node>-<date>.log (child handler of  *)
(*                  the node's logger, same level and retention as the main     *)
(*                  one): records of the module loggers, same filter            *)
(*   m (in ComMods) <logdir>/<root>/comlog/<node>/<m>/<m>-<date>.log: one line  *)
(*                  per comLog() of communicator m iff the module property      *)
(*                  comlog, generalConfig.comlog and generalConfig.initialized  *)
(* One record has three independent outcomes: remote receivers, log file,       *)
(* comlog file.  Files are dated; the first line a file handler writes on a     *)
(* later day than its previous one (or than its creation) creates the file of   *)
(* that day and keeps only the newest N files of that sink (N = logfile_days /  *)
(* comlog_days, 0 = keep all); nothing is removed at any other time.            *)
EXTENDS Naturals, Sequences, FiniteSets, TLC

CONSTANTS Conns,     \* connection ids (strings)
          Mods,      \* module names (strings)
          Used,      \* level names explored (subset of LevelNames)
          ComMods,   \* modules that are communicators (HasComlog), subset of Mods
          Configs,   \* explored configurations (see CfgOne ... below)
          MaxDay     \* horizon of the day counter

LevelVal == [debug |-> 10, comlog |-> 15, info |-> 20, warning |-> 30, error |-> 40, off |-> 99]
LevelNames == DOMAIN LevelVal
Off == 99
ReqLevels == Used \cup {"bogus"}       \* what a client may send as level
EmitLevels == Used \ {"off"}           \* what a module may log at
Targets == Mods \cup {"."}                    \* logging request specifier ("." = all modules)

ASSUME ComMods \subseteq Mods /\ Mods \cap {"main", "node", "console", "."} = {}

(* ---- configuration alphabet ---- *)
(* file: logfile_level or "nodir" (no logdir: no log file at all); con: console level;                  *)
(* gcomlog / ginit: generalConfig.comlog / generalConfig.initialized; mcomlog: module property comlog;  *)
(* fdays / cdays: logfile_days / comlog_days (0 = unlimited)                                            *)
Cfg(f, c, g, i, m, fd, cd) ==
    [file |-> f, con |-> c, gcomlog |-> g, ginit |-> i, mcomlog |-> m, fdays |-> fd, cdays |-> cd]
CfgProduct(F, C, G, I, M, FD, CD) ==
    {Cfg(f, c, g, i, m, fd, cd) : f \in F, c \in C, g \in G, i \in I, m \in M, fd \in FD, cd \in CD}
CfgOne == {Cfg("info", "info", TRUE, TRUE, TRUE, 0, 7)}
\* without a log directory there is no place for comlog files either: generalConfig.init() makes logdir
\* mandatory, "nodir" is explored with the comlog switch off only
NoDirNoComlog(S) == {c \in S : c.file = "nodir" => ~c.gcomlog}
CfgSwitchesQuick == NoDirNoComlog(CfgProduct({"nodir", "debug", "info", "error"}, {"debug", "info", "error"},
                                             BOOLEAN, BOOLEAN, BOOLEAN, {0}, {7}))
CfgSwitchesFull == NoDirNoComlog(CfgProduct({"nodir", "debug", "comlog", "info", "warning", "error", "off"},
                                            {"debug", "comlog", "info", "warning", "error"},
                                            BOOLEAN, BOOLEAN, BOOLEAN, {0}, {7}))
CfgMixed == CfgProduct({"info"}, {"debug"}, {TRUE}, {TRUE}, BOOLEAN, {1}, {1})
CfgDaysQuick == {Cfg("info", "error", TRUE, TRUE, TRUE, 0, 1), Cfg("info", "error", TRUE, TRUE, TRUE, 1, 2),
                 Cfg("info", "error", TRUE, TRUE, TRUE, 2, 7)}
\* everything a recorded execution may have been configured with (membership only, never enumerated)
CfgAll == [file : {"nodir", "debug", "comlog", "info", "warning", "error", "off"},
           con : {"debug", "comlog", "info", "warning", "error"},
           gcomlog : BOOLEAN, ginit : BOOLEAN, mcomlog : BOOLEAN, fdays : 0 .. 7, cdays : 0 .. 7]
CfgDaysFull == CfgProduct({"info"}, {"error"}, {TRUE}, {TRUE}, {TRUE}, {0, 1, 2, 3}, {1, 2, 7})

VARIABLES level,   \* [Mods \X Conns -> Nat] chosen threshold, Off when not enabled
          alive,   \* connections not yet disconnected
          last,    \* observable outcome of the last operation
          cfg,     \* the configuration the node was started with (never changes)
          day,     \* current day (1 = day of the start)
          dated,   \* [Files -> SUBSET Days]: days for which the sink has a dated file
          hday     \* [Files -> Days]: day of the file the sink's handler has open (day of its creation at first)

rvars == <<level, alive, last, cfg, day, dated, hday>>

None == [kind |-> "none"]

Files == {"main", "node"} \cup ComMods        \* the comlog file of communicator m is named m
Sinks == {"console"} \cup Files
Days == 1 .. MaxDay

RInit == /\ level = [mc \in Mods \X Conns |-> Off]
         /\ alive = Conns
         /\ last = None
         /\ cfg \in Configs
         /\ day = 1
         /\ dated = [f \in Files |-> {}]
         /\ hday = [f \in Files |-> 1]

lvars == <<cfg, day, dated, hday>>

(* logging <target> <lvl>: set the threshold of one module or of all modules *)
LoggingReq(c, target, lvl) ==
    /\ c \in alive
    /\ IF lvl \in LevelNames
       THEN /\ level' = [mc \in Mods \X Conns |->
                           IF mc[2] = c /\ (target = "." \/ mc[1] = target)
                           THEN LevelVal[lvl] ELSE level[mc]]
            /\ last' = [kind |-> "reply", ok |-> TRUE]
       ELSE \* an invalid level name changes nothing and yields an error reply
            /\ UNCHANGED level
            /\ last' = [kind |-> "reply", ok |-> FALSE]
    /\ UNCHANGED <<alive, lvars>>

(* a module logs a record: delivered exactly to connections whose threshold is reached *)
Receivers(m, lvl) == {c \in alive : level[<<m, c>>] # Off /\ LevelVal[lvl] >= level[<<m, c>>]}

(* ---- local sinks ---- *)
DropComlog == TRUE      \* LogfileHandler.emit drops COMLOG records ("must fail" configurations switch this off)
Never == FALSE
FileOn == cfg.file # "nodir"
ToConsole(lvl) == LevelVal[lvl] >= LevelVal[cfg.con]
ToFile(lvl) == /\ FileOn
               /\ LevelVal[lvl] >= LevelVal[cfg.file]
               /\ (DropComlog => lvl # "comlog")
ComOn(m) == m \in ComMods /\ cfg.mcomlog /\ cfg.gcomlog /\ cfg.ginit
Retention(f) == IF f \in ComMods THEN cfg.cdays ELSE cfg.fdays

Console(lvl) == IF ToConsole(lvl) THEN {"console"} ELSE {}
ModSinks(lvl) == Console(lvl) \cup (IF ToFile(lvl) THEN {"node"} ELSE {})
MainSinks(lvl) == Console(lvl) \cup (IF ToFile(lvl) THEN {"main"} ELSE {})
ComSinks(m) == ModSinks("comlog") \cup (IF ComOn(m) THEN {m} ELSE {})

(* the n newest members of S (all of them when n = 0) *)
Newest(S, n) == IF n = 0 THEN S ELSE {d \in S : Cardinality({e \in S : e > d}) < n}
(* every file sink reached gets its line in today's file; the first line on a new day (rollover of that    *)
(* handler) keeps the newest N files of that sink                                                          *)
Write(sinks) ==
    /\ dated' = [f \in Files |-> IF f \notin sinks THEN dated[f]
                                  ELSE IF hday[f] < day THEN Newest(dated[f] \cup {day}, Retention(f))
                                  ELSE dated[f] \cup {day}]
    /\ hday' = [f \in Files |-> IF f \in sinks THEN day ELSE hday[f]]

Emit(m, lvl) ==
    /\ last' = [kind |-> "emit", to |-> Receivers(m, lvl), mod |-> m, lvl |-> lvl, sinks |-> ModSinks(lvl)]
    /\ Write(ModSinks(lvl))
    /\ UNCHANGED <<level, alive, cfg, day>>

(* a record of the main logger itself (start script, anything outside the node): no remote handler there *)
MainEmit(lvl) ==
    /\ last' = [kind |-> "mainemit", to |-> {}, lvl |-> lvl, sinks |-> MainSinks(lvl)]
    /\ Write(MainSinks(lvl))
    /\ UNCHANGED <<level, alive, cfg, day>>

(* communicator m calls comLog(msg): a COMLOG record on its ordinary logger plus one line in its comlog file *)
ComLog(m) ==
    /\ m \in ComMods
    /\ last' = [kind |-> "comlog", to |-> Receivers(m, "comlog"), mod |-> m, lvl |-> "comlog",
                sinks |-> ComSinks(m)]
    /\ Write(ComSinks(m))
    /\ UNCHANGED <<level, alive, cfg, day>>

(* midnight *)
NextDay ==
    /\ day < MaxDay
    /\ day' = day + 1
    /\ last' = [kind |-> "nextday"]
    /\ UNCHANGED <<level, alive, cfg, dated, hday>>

(* the node creates its modules anew on the same loggers (Server.run restart loop): no handler is added to a    *)
(* logger, nothing observable changes; every communicator gets a new handler for its comlog file                *)
ReInit ==
    /\ last' = [kind |-> "reinit"]
    /\ hday' = [f \in Files |-> IF f \in ComMods THEN day ELSE hday[f]]
    /\ UNCHANGED <<level, alive, cfg, day, dated>>

ClearConn(c) == level' = [mc \in Mods \X Conns |-> IF mc[2] = c THEN Off ELSE level[mc]]

Ident(c) ==
    /\ c \in alive
    /\ ClearConn(c)
    /\ last' = [kind |-> "ident"]
    /\ UNCHANGED <<alive, lvars>>

Disconnect(c) ==
    /\ c \in alive
    /\ ClearConn(c)
    /\ alive' = alive \ {c}
    /\ last' = [kind |-> "disconnect"]
    /\ UNCHANGED lvars

RNext == \/ \E c \in Conns, tg \in Targets, lv \in ReqLevels : LoggingReq(c, tg, lv)
         \/ \E m \in Mods, lv \in EmitLevels : Emit(m, lv)
         \/ \E lv \in EmitLevels : MainEmit(lv)
         \/ \E m \in ComMods : ComLog(m)
         \/ NextDay
         \/ ReInit
         \/ \E c \in Conns : Ident(c)
         \/ \E c \in Conns : Disconnect(c)

RSpec == RInit /\ [][RNext]_rvars

(* the remote half alone (the routing design is model-checked on more connections without the local actions) *)
EmitRemote(m, lvl) ==     \* Emit without the bookkeeping of the files
    /\ last' = [kind |-> "emit", to |-> Receivers(m, lvl), mod |-> m, lvl |-> lvl, sinks |-> ModSinks(lvl)]
    /\ UNCHANGED <<level, alive, lvars>>
RNextRemote == \/ \E c \in Conns, tg \in Targets, lv \in ReqLevels : LoggingReq(c, tg, lv)
               \/ \E m \in Mods, lv \in EmitLevels : EmitRemote(m, lv)
               \/ \E c \in Conns : Ident(c)
               \/ \E c \in Conns : Disconnect(c)
RSpecRemote == RInit /\ [][RNextRemote]_rvars

(* ---- properties of the routing design ---- *)
TypeOK == /\ level \in [Mods \X Conns -> {10, 15, 20, 30, 40, 99}]
          /\ alive \subseteq Conns
          /\ cfg \in Configs
          /\ day \in Days
          /\ dated \in [Files -> SUBSET Days]
          /\ hday \in [Files -> Days]

(* a dead connection never has a subscription and never receives *)
DeadSilent == /\ \A m \in Mods, c \in Conns \ alive : level[<<m, c>>] = Off
              /\ last.kind = "emit" => last.to \subseteq alive

(* exact routing: stated on the *history-free* table *)
ExactRouting == last.kind = "emit" =>
    \A c \in Conns : c \in last.to <=> (c \in alive /\ LevelVal[last.lvl] >= level[<<last.mod, c>>]
                                        /\ level[<<last.mod, c>>] # Off)

(* isolation: an operation of connection c never changes another connection's rows *)
Isolation == [][\A c \in Conns, tg \in Targets, lv \in ReqLevels :
                  (LoggingReq(c, tg, lv) \/ Ident(c) \/ Disconnect(c)) =>
                     \A m \in Mods, d \in Conns \ {c} : level'[<<m, d>>] = level[<<m, d>>]]_rvars

(* ident / disconnect clear exactly the rows of c *)
ResetClears == [][\A c \in Conns : (Ident(c) \/ Disconnect(c)) =>
                     \A m \in Mods : level'[<<m, c>>] = Off]_rvars

(* ---- properties of the local sinks ---- *)
IsRecord == last.kind \in {"emit", "mainemit", "comlog"}

(* every sink is reached iff its own condition holds: nothing lost, nothing in a wrong place *)
ExactSinks == IsRecord =>
    /\ last.sinks \subseteq Sinks
    /\ "console" \in last.sinks <=> LevelVal[last.lvl] >= LevelVal[cfg.con]
    /\ "node" \in last.sinks <=> /\ last.kind \in {"emit", "comlog"}
                                 /\ cfg.file # "nodir" /\ last.lvl # "comlog"
                                 /\ LevelVal[last.lvl] >= LevelVal[cfg.file]
    /\ "main" \in last.sinks <=> /\ last.kind = "mainemit"
                                 /\ cfg.file # "nodir" /\ last.lvl # "comlog"
                                 /\ LevelVal[last.lvl] >= LevelVal[cfg.file]
    /\ \A m \in ComMods : m \in last.sinks <=> /\ last.kind = "comlog" /\ last.mod = m
                                               /\ cfg.mcomlog /\ cfg.gcomlog /\ cfg.ginit
    \* the remote receivers do not depend on the local configuration and vice versa
    /\ last.kind \in {"emit", "comlog"} => last.to = Receivers(last.mod, last.lvl)

(* communication never shows up in the ordinary log files, whatever logfile_level says *)
ComlogNeverInMainFile == (IsRecord /\ last.lvl = "comlog") => last.sinks \cap {"main", "node"} = {}

(* comLog(msg) of m: its own comlog file and no other one, iff all three switches are on;      *)
(* an ordinary record never reaches a comlog file                                              *)
ComlogOnceInComlogFile ==
    /\ last.kind = "comlog" => last.sinks \cap ComMods = (IF ComOn(last.mod) THEN {last.mod} ELSE {})
    /\ last.kind \in {"emit", "mainemit"} => last.sinks \cap ComMods = {}

(* a sink that was just written has today's file; no file of the future; a handler is never ahead of the day *)
RetentionOK == /\ IsRecord => \A f \in last.sinks \cap Files : day \in dated[f] /\ hday[f] = day
               /\ \A f \in Files : hday[f] <= day /\ \A d \in dated[f] : d <= day

(* after the first line of a new day a sink has at most N files, the newest ones *)
RolloverKeepsNewest == [][\A f \in Files :
                            (IsRecord' /\ f \in last'.sinks /\ hday[f] < day /\ Retention(f) > 0) =>
                                /\ Cardinality(dated'[f]) <= Retention(f)
                                /\ dated'[f] = Newest(dated[f] \cup {day}, Retention(f))]_rvars

(* only the sinks reached change, and only files older than all kept ones disappear *)
SinksIsolated == [][\A f \in Files :
                      /\ (~IsRecord' \/ f \notin last'.sinks) => dated'[f] = dated[f]
                      /\ \A d \in dated[f] \ dated'[f] : \A e \in dated'[f] : d < e]_rvars

(* the configuration is fixed at start *)
CfgFixed == [][cfg' = cfg]_rvars

=============================================================================
