------------------------------- MODULE Logging -------------------------------
(* C20.  Remote logging: per-module / per-connection level table, emit filter,  *)
(* reset on identification and on disconnect (frappy/logging.py RemoteLogHandler,*)
(* frappy/protocol/dispatcher.py handle_logging / reset_connection,             *)
(* frappy/modulebase.py setRemoteLogging), and log file rotation                *)
(* (frappy/logging.py LogfileHandler.doRollover).                               *)
EXTENDS Naturals, Sequences, FiniteSets, TLC

CONSTANTS Conns,     \* connection ids (strings)
          Mods,      \* module names (strings)
          Used       \* level names explored (subset of LevelNames)

LevelVal == [debug |-> 10, comlog |-> 15, info |-> 20, warning |-> 30, error |-> 40, off |-> 99]
LevelNames == DOMAIN LevelVal
Off == 99
ReqLevels == Used \cup {"bogus"}       \* what a client may send as level
EmitLevels == Used \ {"off"}           \* what a module may log at
Targets == Mods \cup {"."}                    \* logging request specifier ("." = all modules)

VARIABLES level,   \* [Mods \X Conns -> Nat] chosen threshold, Off when not enabled
          alive,   \* connections not yet disconnected
          last     \* observable outcome of the last operation

rvars == <<level, alive, last>>

None == [kind |-> "none"]

RInit == /\ level = [mc \in Mods \X Conns |-> Off]
         /\ alive = Conns
         /\ last = None

(* logging <target> <lvl>: set the threshold of one module or of all modules *)
LoggingReq(c, target, lvl) ==
    /\ c \in alive
    /\ IF lvl \in LevelNames
       THEN /\ level' = [mc \in Mods \X Conns |->
                           IF mc[2] = c /\ (target = "." \/ mc[1] = target)
                           THEN LevelVal[lvl] ELSE level[mc]]
            /\ last' = [kind |-> "reply", ok |-> TRUE]
       ELSE \* an invalid level name changes nothing and yields an error reply
            /\ UNCHANGED level
            /\ last' = [kind |-> "reply", ok |-> FALSE]
    /\ UNCHANGED alive

(* a module logs a record: delivered exactly to connections whose threshold is reached *)
Receivers(m, lvl) == {c \in alive : level[<<m, c>>] # Off /\ LevelVal[lvl] >= level[<<m, c>>]}

Emit(m, lvl) ==
    /\ last' = [kind |-> "emit", to |-> Receivers(m, lvl), mod |-> m, lvl |-> lvl]
    /\ UNCHANGED <<level, alive>>

ClearConn(c) == level' = [mc \in Mods \X Conns |-> IF mc[2] = c THEN Off ELSE level[mc]]

Ident(c) ==
    /\ c \in alive
    /\ ClearConn(c)
    /\ last' = [kind |-> "ident"]
    /\ UNCHANGED alive

Disconnect(c) ==
    /\ c \in alive
    /\ ClearConn(c)
    /\ alive' = alive \ {c}
    /\ last' = [kind |-> "disconnect"]

RNext == \/ \E c \in Conns, tg \in Targets, lv \in ReqLevels : LoggingReq(c, tg, lv)
         \/ \E m \in Mods, lv \in EmitLevels : Emit(m, lv)
         \/ \E c \in Conns : Ident(c)
         \/ \E c \in Conns : Disconnect(c)

RSpec == RInit /\ [][RNext]_rvars

(* ---- properties of the routing design ---- *)
TypeOK == /\ level \in [Mods \X Conns -> {10, 15, 20, 30, 40, 99}]
          /\ alive \subseteq Conns

(* a dead connection never has a subscription and never receives *)
DeadSilent == /\ \A m \in Mods, c \in Conns \ alive : level[<<m, c>>] = Off
              /\ last.kind = "emit" => last.to \subseteq alive

(* exact routing: stated on the *history-free* table *)
ExactRouting == last.kind = "emit" =>
    \A c \in Conns : c \in last.to <=> (c \in alive /\ LevelVal[last.lvl] >= level[<<last.mod, c>>]
                                        /\ level[<<last.mod, c>>] # Off)

(* isolation: an operation of connection c never changes another connection's rows *)
Isolation == [][\A c \in Conns, tg \in Targets, lv \in ReqLevels :
                  (LoggingReq(c, tg, lv) \/ Ident(c) \/ Disconnect(c)) =>
                     \A m \in Mods, d \in Conns \ {c} : level'[<<m, d>>] = level[<<m, d>>]]_rvars

(* ident / disconnect clear exactly the rows of c *)
ResetClears == [][\A c \in Conns : (Ident(c) \/ Disconnect(c)) =>
                     \A m \in Mods : level'[<<m, c>>] = Off]_rvars

=============================================================================
