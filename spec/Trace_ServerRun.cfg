SPECIFICATION TSpec
CONSTANTS
  MaxIf = 3
  Mods = {"m1", "m2"}
CONSTRAINT Track
INVARIANT Done
POSTCONDITION Verdicts
CHECK_DEADLOCK FALSE
