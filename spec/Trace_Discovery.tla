--------------------------- MODULE Trace_Discovery ---------------------------
(* code -> spec: executions recorded from the real UDPListener on a FakeUDP socket. *)
(* One trace = one responder life:  build, start, dgram*, end.                      *)
(*   build  o max sl g nports enabled exc m  m = projection of _getMessage(widest   *)
(*                                            port in use), sl = 5 - its digits      *)
(*   start  msgs exc                          what run() sent before first recvfrom  *)
(*   dgram  cls msgs alive exc                what it sent for this datagram; alive  *)
(*                                            = it asked for the next datagram       *)
(*   end    reason left                                                              *)
(* message projection M = [len utf8 json obj secop eq fw desc port dest same g]     *)
(*   port = index of the announced port among the TCP ports listened on (0: none),  *)
(*   same = description identical to the one of the build message, g = glyph        *)
(*   classes of the description relative to the original (0 = differs).             *)
(* Every clause is a function of the build event and the current event, so that the *)
(* failing clause can be named in the verdict.                                      *)
EXTENDS Discovery, Json, TLCExt
Traces == JsonDeserialize(IOEnv.TRACE_FILE)
NT == Len(Traces)
VARIABLES t, l
ASSUME \A i \in 1 .. NT : TLCSet(i, 1)
Ev == Traces[t][l]

WF(M) == M.utf8 /\ M.json /\ M.obj /\ M.secop /\ M.eq /\ M.fw /\ M.desc
MsgClauses(c, M, pre) ==
   << <<pre \o ".msg_len", M.len <= c.max>>,
      <<pre \o ".msg_wellformed", WF(M)>>,
      <<pre \o ".port_listened", M.port \in 1 .. c.nports>>,
      <<pre \o ".desc_same", M.same>> >>
AllMsgClauses(c, msgs, pre) == FlattenSeq([i \in 1 .. Len(msgs) |-> MsgClauses(c, msgs[i], pre)])
Ports(msgs) == {msgs[i].port : i \in 1 .. Len(msgs)}

Clauses(c, e) ==
  CASE e.ev = "build" ->
         << <<"build.no_exception", e.exc = "">>,
            <<"build.enabled_if_identity_fits", Fits(<<>>, e.o, e.max) => e.enabled>> >> \o
         (IF e.enabled /\ e.exc = ""
          THEN << <<"build.msg_len", e.m.len <= e.max>>,
                  <<"build.msg_wellformed", WF(e.m)>>,
                  <<"build.prefix", IsPrefix(e.m.g, e.g)>>,
                  <<"build.unchanged_if_fits", Fits(e.g, e.o, e.max) => e.m.g = e.g>>,
                  <<"build.model_fits", IsPrefix(e.m.g, e.g) => Fits(e.m.g, e.o - e.sl, e.max)>> >>
          ELSE <<>>)
    [] e.ev = "start" ->
         << <<"start.no_exception", e.exc = "">> >> \o AllMsgClauses(c, e.msgs, "start") \o
         << <<"start.no_duplicate_port", Cardinality(Ports(e.msgs)) = Len(e.msgs)>> >>
    [] e.ev = "dgram" ->
         \* (a disabled responder may read datagrams as long as it never answers a non-request)
         << <<"dgram.alive", c.enabled => e.alive>>,
            <<"dgram.answered_iff_discover",
              e.cls \notin Loose => IF c.enabled THEN e.msgs # <<>> <=> (e.cls \in Requests /\ c.nports > 0)
                                                ELSE e.msgs # <<>> => e.cls \in Requests>> >> \o
         AllMsgClauses(c, e.msgs, "dgram") \o
         << <<"dgram.one_answer_per_port",
              (c.enabled /\ e.msgs # <<>>) => (Len(e.msgs) = c.nports /\ Ports(e.msgs) = 1 .. c.nports)>>,
            <<"dgram.to_sender", \A i \in 1 .. Len(e.msgs) : e.msgs[i].dest = "sender">> >>
    [] e.ev = "end" ->
         << <<"end.script_consumed", c.enabled => (e.reason = "script_end" /\ e.left = 0)>> >>
    [] OTHER -> << <<"unknown event", FALSE>> >>
FirstFalse(cl) == LET bad == {j \in 1 .. Len(cl) : ~ cl[j][2]}
                  IN IF bad = {} THEN "" ELSE cl[Min(bad)][1]

TInit == /\ t \in 1 .. NT /\ l = 1
         /\ desc = <<>> /\ max = 0 /\ phase = "input" /\ enabled = TRUE /\ res = <<>>
         /\ nports = 0 /\ alive = FALSE /\ last = None

TBuild == /\ Ev.ev = "build" /\ phase = "input"
          /\ BuildOK(Ev.g, Ev.o, Ev.max, Ev.sl, Ev.enabled, Ev.m.g)
          /\ desc' = Ev.g /\ max' = Ev.max /\ enabled' = Ev.enabled /\ nports' = Ev.nports
          /\ res' = IF Ev.enabled THEN Ev.m.g ELSE Ev.g
          /\ phase' = "built" /\ UNCHANGED <<alive, last>>
TStart == /\ Ev.ev = "start" /\ Start
          /\ Ports(Ev.msgs) \subseteq 1 .. nports    \* silent about completeness and about who announces
TDgram == /\ Ev.ev = "dgram" /\ Recv(Ev.cls)
          /\ alive' = Ev.alive
          /\ last'.answers = Ports(Ev.msgs)
TOff == Ev.ev = "dgram" /\ phase = "off" /\ UNCHANGED vars      \* judged by the clauses alone
TEnd == Ev.ev = "end" /\ UNCHANGED vars

TStep == /\ l <= Len(Traces[t])
         /\ l' = l + 1 /\ t' = t
         /\ FirstFalse(Clauses(Traces[t][1], Ev)) = ""
         /\ (TBuild \/ TStart \/ TDgram \/ TOff \/ TEnd)
TSpec == TInit /\ [][TStep]_<<vars, t, l>>

Track == TLCSet(t, IF l > TLCGet(t) THEN l ELSE TLCGet(t))
Why(i, k) == LET w == FirstFalse(Clauses(Traces[i][1], Traces[i][k]))
             IN IF w = "" THEN "event not explained by Discovery" ELSE w
Verdicts == \A i \in 1 .. NT :
   IF TLCGet(i) = Len(Traces[i]) + 1 THEN PrintT(<<"ACCEPT", i>>)
   ELSE PrintT(<<"REJECT", i, TLCGet(i), Why(i, TLCGet(i))>>)
=============================================================================
