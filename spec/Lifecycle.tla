------------------------------ MODULE Lifecycle ------------------------------
(* C15.  Ordering automaton of a SEC node's life: creation, early initialisation,    *)
(* initialisation (through attachments), start, configured writes, first polls,      *)
(* ready, and shutdown in reverse dependency order (frappy/secnode.py,               *)
(* frappy/server.py _processCfg, frappy/modules.py Attached, frappy/modulebase.py).  *)
(* A configuration is chosen in Init; the automaton accepts exactly the event orders  *)
(* the property allows.  Implementation freedom (order of unrelated modules) stays.   *)
EXTENDS Naturals, Sequences, FiniteSets, TLC

CONSTANTS Names,        \* candidate module names
          Missing       \* a name that is never configured (target of a dangling attachment)

VARIABLES mods,         \* configured modules
          att,          \* [mods -> SUBSET (Names \cup {Missing})] attachments (user -> targets)
          wrong,        \* set of <<user, target>> edges whose target has the wrong base class
          fail,         \* [mods -> FailKinds] scripted failure: earlyInit / initModule raises, the constructor raises (any
                        \* exception / a configuration error: the module never exists), a hook forgets its super call
          polls, writes,\* subsets of mods: is polled / has configured values to write
          host,         \* [mods -> mods] the module whose poll thread serves m: m itself, or the module it is attached to as `io`
          phase,        \* [mods -> "absent","created","early","inited","started"]
          written, polled, cbdone,     \* subsets of mods
          state,        \* "starting" | "ready" | "refused" | "stopping" | "down"
          stopped, joined, shut,       \* subsets of mods
          inflight,                    \* modules whose (long) poll is running right now
          stopAt                       \* time the shutdown began (tenths of a second), 0 before
cfgvars == <<mods, att, wrong, fail, polls, writes, host>>
vars == <<mods, att, wrong, fail, polls, writes, host, phase, written, polled, cbdone, state, stopped, joined, shut, inflight, stopAt>>

StartTimeout == 300     \* a poll thread that has not finished its first round after 30 s is not waited for any longer
Grace == 5              \* on shutdown poll threads are waited for 0.5 s in total
FailKinds == {"none", "early", "init", "create", "createcfg", "nosuper_early", "nosuper_init"}
Rank(p) == CASE p = "absent" -> 0 [] p = "created" -> 1 [] p = "early" -> 2 [] p = "inited" -> 3 [] p = "started" -> 4

(* --- what makes a configuration healthy --- *)
Edges == {<<u, t>> : u \in mods, t \in Names \cup {Missing}} \cap {e \in (mods \X (Names \cup {Missing})) : e[2] \in att[e[1]]}
RECURSIVE Reach(_, _)
Reach(S, n) == IF n = 0 THEN S ELSE Reach(S \cup UNION {att[x] \cap mods : x \in S \cap mods}, n - 1)
Cyclic == \E m \in mods : m \in Reach(att[m] \cap mods, Cardinality(Names))
Dangling == \E e \in Edges : e[2] \notin mods
Healthy == ~Cyclic /\ ~Dangling /\ wrong = {} /\ \A m \in mods : fail[m] = "none"

CfgInit == /\ mods \in (SUBSET Names) \ {{}}
           /\ att \in [mods -> SUBSET (Names \cup {Missing})]
           /\ wrong \in SUBSET {e \in mods \X mods : e[2] \in att[e[1]]}
           /\ fail \in [mods -> FailKinds]
           /\ polls \in SUBSET mods /\ writes \in SUBSET mods      \* an unpolled module with configured values still gets a thread for writing them
           /\ host \in [mods -> mods] /\ (\A m \in mods : host[m] = m \/ host[m] \in att[m])
RunInit == /\ phase = [m \in mods |-> "absent"]
           /\ written = {} /\ polled = {} /\ cbdone = {} /\ state = "starting"
           /\ stopped = {} /\ joined = {} /\ shut = {} /\ inflight = {} /\ stopAt = 0
Init == CfgInit /\ RunInit

Step(m, from, to) == /\ state = "starting" /\ phase[m] = from /\ phase' = [phase EXCEPT ![m] = to]

Create(m) == fail[m] \notin {"create", "createcfg"} /\ Step(m, "absent", "created") /\ UNCHANGED <<cfgvars, written, polled, cbdone, state, stopped, joined, shut, inflight, stopAt>>
EarlyInit(m) == Step(m, "created", "early") /\ UNCHANGED <<cfgvars, written, polled, cbdone, state, stopped, joined, shut, inflight, stopAt>>
(* initModule returns only when it is done; a user may see an attachment only once that one is inited *)
InitModule(m) == /\ Step(m, "early", "inited")
                 /\ UNCHANGED <<cfgvars, written, polled, cbdone, state, stopped, joined, shut, inflight, stopAt>>
StartModule(m) == /\ Step(m, "inited", "started")
                  /\ UNCHANGED <<cfgvars, written, polled, cbdone, state, stopped, joined, shut, inflight, stopAt>>
(* a user looks at its attachment t: allowed only if t is fully initialised *)
AttachSeen(u, t) == /\ t \in mods /\ Rank(phase[t]) >= 3 /\ UNCHANGED vars

Write(m) == /\ m \in writes /\ m \notin written /\ m \notin polled        \* exactly once, before the first poll
            /\ phase[host[m]] = "started" /\ Rank(phase[m]) >= 3 /\ state = "starting"      \* in the thread of its host
            /\ written' = written \cup {m}
            /\ UNCHANGED <<cfgvars, phase, polled, cbdone, state, stopped, joined, shut, inflight, stopAt>>
FirstPoll(m) == /\ m \in polls /\ phase[host[m]] = "started" /\ Rank(phase[m]) >= 3 /\ (m \in writes => m \in written)
                /\ host[m] \notin stopped
                /\ polled' = polled \cup {m}
                /\ UNCHANGED <<cfgvars, phase, written, cbdone, state, stopped, joined, shut, inflight, stopAt>>
(* a read function called by the poll thread: the first round of reads comes after ALL configured values of the  *)
(* modules served by that thread have been written (not only the module's own)                                  *)
PolledRead(m) == /\ phase[host[m]] = "started"
                 /\ \A n \in writes : host[n] = host[m] => n \in written
                 /\ UNCHANGED vars
Owners == {host[m] : m \in polls \cup writes}                 \* the modules that run a poll thread
StartedCb(m) == /\ m \in Owners /\ m \notin cbdone /\ phase[m] = "started"
                /\ \A n \in writes : host[n] = m => n \in written   \* the first round starts with the configured writes
                /\ cbdone' = cbdone \cup {m}
                /\ UNCHANGED <<cfgvars, phase, written, polled, state, stopped, joined, shut, inflight, stopAt>>

(* a long poll has ended: never after a module was shut down (every poll thread is stopped - and waited for - first) *)
(* a poll thread that was told to stop finishes the poll it is in, but starts no other one *)
Poll(m) == m \in polled /\ host[m] \notin stopped /\ UNCHANGED vars
PollBegin(m) == /\ host[m] \notin stopped
                /\ inflight' = inflight \cup {m}
                /\ UNCHANGED <<cfgvars, phase, written, polled, cbdone, state, stopped, joined, shut, stopAt>>
PollEnd(m) == /\ inflight' = inflight \ {m}
              /\ UNCHANGED <<cfgvars, phase, written, polled, cbdone, state, stopped, joined, shut, stopAt>>

(* the node reports ready: healthy configuration, everything started, every poll thread through its first round *)
Ready(t) ==
   /\ state = "starting" /\ Healthy
   /\ \A m \in mods : phase[m] = "started"
   /\ (Owners \subseteq cbdone \/ t >= StartTimeout)     \* every poll thread through its first round, or timed out
   /\ state' = "ready"
   /\ UNCHANGED <<cfgvars, phase, written, polled, cbdone, stopped, joined, shut, inflight, stopAt>>
(* an unhealthy configuration is refused: no module was started, nothing written to hardware *)
Refuse == /\ state = "starting" /\ ~Healthy
          /\ \A m \in mods : Rank(phase[m]) < 4
          /\ written = {} /\ polled = {}
          /\ state' = "refused"
          /\ UNCHANGED <<cfgvars, phase, written, polled, cbdone, stopped, joined, shut, inflight, stopAt>>

BeginStop(t) == /\ state = "ready" /\ state' = "stopping" /\ stopAt' = t
                /\ UNCHANGED <<cfgvars, phase, written, polled, cbdone, stopped, joined, shut, inflight>>
StopPoller(m) == /\ state = "stopping" /\ m \notin stopped /\ shut = {}
                 /\ stopped' = stopped \cup {m}
                 /\ UNCHANGED <<cfgvars, phase, written, polled, cbdone, state, joined, shut, inflight, stopAt>>
Join(m) == /\ state = "stopping" /\ stopped = mods /\ m \notin joined /\ shut = {}
           /\ joined' = joined \cup {m}
           /\ UNCHANGED <<cfgvars, phase, written, polled, cbdone, state, stopped, shut, inflight, stopAt>>
(* users before the modules they are attached to; every poll thread stopped first *)
Shutdown(m, t) ==
   /\ state = "stopping" /\ stopped = mods /\ m \notin shut
   /\ \A u \in mods : (m \in att[u] /\ u # m) => u \in shut
   /\ shut' = shut \cup {m}
   /\ state' = (IF shut \cup {m} = mods THEN "down" ELSE state)
   /\ (inflight = {} \/ t >= stopAt + Grace)         \* every poll thread was stopped AND waited for (for the grace period)
   /\ UNCHANGED <<cfgvars, phase, written, polled, cbdone, stopped, joined, inflight, stopAt>>

Next == \/ \E m \in mods : Create(m) \/ EarlyInit(m) \/ InitModule(m) \/ StartModule(m) \/ Write(m)
                           \/ FirstPoll(m) \/ StartedCb(m) \/ StopPoller(m) \/ Join(m) \/ Shutdown(m, 0)
        \/ Ready(0) \/ Refuse \/ BeginStop(0)
Spec == Init /\ [][Next]_vars

(* --- the rule set is consistent: --- *)
(* ready implies a healthy, completely started node whose configured values were written *)
ReadyMeansStarted == state \in {"ready", "stopping", "down"} =>
                        (Healthy /\ (\A m \in mods : phase[m] = "started") /\ writes \subseteq written)
(* a refused node never touched the hardware *)
RefusedClean == state = "refused" => (written = {} /\ polled = {})
(* shutdown respects the attachment order *)
ShutdownOrder == \A u \in mods, t \in mods : (t \in att[u] /\ u # t /\ t \in shut) => u \in shut
(* healthy configurations are never stuck before they are down (the rules do not exclude every implementation) *)
NotStuck == (Healthy /\ state # "down") => ENABLED Next
=============================================================================
