SPECIFICATION TSpec
CONSTANTS
  DevBelieveEarly = TRUE
CONSTRAINT Track
POSTCONDITION Verdicts
CHECK_DEADLOCK FALSE
