SPECIFICATION Spec
CONSTANTS
  Tier <- GTier
  Shard <- GShard
  NShards <- GNShards
INVARIANT EmitVS
CHECK_DEADLOCK FALSE
