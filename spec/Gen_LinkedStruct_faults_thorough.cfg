SPECIFICATION FGSpec
CONSTANTS
  Members = {"p", "q"}
  Vals = {1, 2, 3, 4}
  HwMax = 3
  HwModes = {"clip", "refuse"}
  Excs = {"other", "badvalue"}
  FM = "q"
  FDepth = 4
  Depth = 7
  Depth2 = 5
  Layouts = {"combined", "separate"}
  WM = {"q"}
  WV = {4}
  AM = {"p"}
  AV = {1}
  RM = {"q"}
  SWV = {2}
  SAV = {}
  RS = FALSE
CONSTRAINT FBound
INVARIANT FEmit
CHECK_DEADLOCK FALSE
