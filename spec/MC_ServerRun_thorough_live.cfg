\* the repaired design under fair threads: requests are honoured and return
SPECIFICATION Spec
CONSTANTS
  NIf = 2
  Kinds = {"ok", "fail"}
  Req = {"res1", "shut1"}
  Repaired = TRUE
  FixNoIf = TRUE
  Crashes = TRUE
PROPERTY ShutdownHonoured
PROPERTY RestartHonoured
PROPERTY Terminates
CHECK_DEADLOCK FALSE
