--------------------------- MODULE Gen_Persistent ---------------------------
(* behaviour emission for spec -> code replay.  One step = one call made by the   *)
(* driver (start / writeinit / change / fchange / save / reload / reset / wipe /   *)
(* corrupt); a save inside a step may carry one fault: crash or I/O error *before* *)
(* operation `at` of the reference save procedure (operations 1 .. at-1 were       *)
(* applied).  Where the property is silent the step branches (`alt`), the driver   *)
(* accepts any branch.                                                             *)
EXTENDS Persistent, Json

CONSTANTS Depth, MaxChanges, MaxSaves, MaxFaults, MaxStarts, MaxCorrupt, MaxOther,
          FirstCfgs,     \* how many parameters the first configuration may mention (set of cardinalities)
          StartCfgs,     \* ... a restart configuration may mention
          PostReload,    \* TRUE: one loadParameters() may follow the last start (before the pending writes)
          CfgKinds,      \* subset of {"value", "default"}: what a configuration may give for a parameter
          Vias           \* subset of {"set", "write", "read"}: how a value changes (driver, client, hardware)

VARIABLES hist, cnt      \* cnt: [chg, sav, flt, st, cor, oth] counters bounding the enumeration

gvars == <<vars, hist, cnt>>

NoFault == [kind |-> "none", at |-> 0, op |-> "", i |-> 0]
Fault(k, j) == [kind |-> k, at |-> j, op |-> Ops[j].o, i |-> Ops[j].i]
FaultSet(kinds) == {NoFault} \cup (IF cnt.flt < MaxFaults
                                   THEN {Fault(k, j) : k \in kinds \cap Faults, j \in 1 .. NOps} ELSE {})

(* result of running the reference save of snapshot S on disk d with fault f *)
SaveDisk(d, S, f) ==
    LET n == IF f.kind = "none" THEN NOps ELSE f.at - 1
        d1 == ApplyUpTo(d, S, n)
    IN IF f.kind = "ioerror" THEN [d1 EXCEPT !.tmp = Absent] ELSE d1
Committed(f) == f.kind = "none" \/ f.at > RenameIdx
SaveBelieved(bel, S, f) == IF Early \/ Committed(f) THEN S ELSE bel

Proj(c) == IF c.k = "partial" THEN [k |-> "notjson", ent |-> NoSnap, extra |-> NoVal]
           ELSE [k |-> c.k, ent |-> c.ent, extra |-> c.extra]
SkipAllowed == IF ~alive' THEN {FALSE}
               ELSE IF tampered' THEN BOOLEAN           \* the module cannot know what the environment removed
               ELSE IF Early THEN {believed' = val'}
               ELSE {FALSE} \cup (IF disk'.target = Complete(val') THEN {TRUE} ELSE {})
Exp == [alive |-> alive', target |-> Proj(disk'.target), val |-> val', wd |-> wd',
        skip |-> SkipAllowed, err |-> err', fval |-> fval']

Log(rec) == hist' = Append(hist, rec @@ [exp |-> Exp])
Count(f, field) == cnt' = [cnt EXCEPT ![field] = @ + 1, !.flt = @ + (IF f.kind = "none" THEN 0 ELSE 1)]

Dead == /\ alive' = FALSE /\ val' = NoSnap /\ believed' = NoSnap /\ wd' = NoSnap
        /\ init' = NoSnap /\ fval' = NoVal /\ err' = {} /\ tampered' = FALSE

(* the outcome of a step that ends with values S in memory and possibly a save:                    *)
(* does = TRUE: the save is performed (with fault f) unless S is believed to be on disk (bel),      *)
(* does = FALSE: nothing is written.  n*: the rest of the module state when the process survives   *)
Outcome(does, S, bel, f, nwd, nerr, ninit, nfval, tamp) ==
    IF does /\ bel # S
    THEN /\ disk' = SaveDisk(disk, S, f)
         /\ IF f.kind = "crash" THEN Dead
            ELSE /\ alive' = TRUE /\ val' = S /\ believed' = SaveBelieved(bel, S, f)
                 /\ wd' = nwd /\ err' = nerr /\ init' = ninit /\ fval' = nfval
                 /\ tampered' = (tamp /\ ~Committed(f))
    ELSE /\ f.kind = "none"
         /\ alive' = TRUE /\ val' = S /\ believed' = bel
         /\ wd' = nwd /\ err' = nerr /\ init' = ninit /\ fval' = nfval /\ tampered' = tamp
         /\ UNCHANGED disk

Mentioned(cfg, cdef) == {p \in Params : cfg[p] # NoVal \/ cdef[p] # NoVal}
GStart(cfg, cdef, f, does) ==
    /\ cnt.st < MaxStarts
    /\ Cardinality(Mentioned(cfg, cdef)) \in (IF cnt.st = 0 THEN FirstCfgs ELSE StartCfgs)
    /\ ("value" \in CfgKinds \/ cfg = NoSnap) /\ ("default" \in CfgKinds \/ cdef = NoSnap)
    /\ LET nv == Loaded(cfg, cdef, disk.target)
           bel == BelievedAfterLoad(disk.target)
       IN /\ (bel = nv => does)                  \* one branch only when there is nothing to save
          \* the start-up save may only be left out when the file left on disk cannot do harm: reloading it
          \* (loadParameters) must not bring stale stored values back over the ones just established
          /\ (~does => ReloadHarmless(FileEnt(disk.target), nv))
          /\ Outcome(does, nv, bel, f, Pending(nv, kind), Uninit(cfg, cdef, disk.target, kind),
                     Factory(cfg, cdef), Default, FALSE)
    /\ UNCHANGED <<kind, pc, sv>>
    /\ Count(f, "st")
    /\ Log([act |-> "start", cfg |-> cfg, cdef |-> cdef, f |-> f, alt |-> IF does THEN "" ELSE "nosave",
            auto |-> kind.auto, hw |-> kind.hw, nodef |-> kind.nodef])

GWriteInit(does) ==
    /\ alive /\ wd # NoSnap
    /\ (does => (kind.auto \cap kind.hw) # {} /\ believed # val)
    /\ Outcome(does, val, believed, NoFault, NoSnap, err \ kind.hw, init, fval, tampered)
    /\ UNCHANGED <<kind, pc, sv, cnt>>
    /\ Log([act |-> "writeinit", alt |-> IF does THEN "" ELSE "nosave"])

GChange(p, v, via, f) ==
    /\ alive /\ wd = NoSnap /\ v # val[p] /\ cnt.chg < MaxChanges
    /\ via \in Vias /\ (via = "write" => p \in kind.hw)
    /\ (p \notin kind.auto => f.kind = "none")
    /\ Outcome(p \in kind.auto, [val EXCEPT ![p] = v], believed, f, wd, err \ {p}, init, fval, tampered)
    /\ UNCHANGED <<kind, pc, sv>>
    /\ Count(f, "chg")
    /\ Log([act |-> "change", p |-> p, v |-> v, via |-> via, f |-> f])

(* the foreign (not persistent) parameter changes: nothing to save *)
GFChange(v) ==
    /\ alive /\ wd = NoSnap /\ v # fval /\ cnt.oth < MaxOther
    /\ Outcome(FALSE, val, believed, NoFault, wd, err, init, v, tampered)
    /\ UNCHANGED <<kind, pc, sv>>
    /\ cnt' = [cnt EXCEPT !.oth = @ + 1]
    /\ Log([act |-> "fchange", v |-> v])

GSave(f, does) ==
    /\ alive /\ cnt.sav < MaxSaves
    /\ IF wd = NoSnap THEN does ELSE (does => disk.target # Complete(val))  \* deferred while writes are pending (may)
    /\ Outcome(does, val, believed, f, wd, err, init, fval, tampered)
    /\ UNCHANGED <<kind, pc, sv>>
    /\ Count(f, "sav")
    /\ Log([act |-> "save", f |-> f, alt |-> IF does THEN "" ELSE "nosave"])

(* loadParameters(); restored values of parameters with a write method are written, which may save *)
GReload(does) ==
    /\ alive
    /\ IF cnt.st < MaxStarts THEN cnt.oth < MaxOther
       ELSE PostReload /\ hist[Len(hist)].act = "start"      \* right after the last start
    /\ LET E == FileEnt(disk.target)
           S == Reloaded(disk.target, val)
           bel == BelievedAfterLoad(disk.target)
       IN /\ (does => bel # S /\ \E p \in kind.auto \cap kind.hw : E[p] \in Vals \/ wd[p] # NoVal)
          /\ Outcome(does, S, bel, NoFault, NoSnap,
                     (err \ {p \in Params : E[p] \in Vals}) \ {p \in kind.hw : wd[p] # NoVal}, init, fval, FALSE)
    /\ UNCHANGED <<kind, pc, sv>>
    /\ cnt' = [cnt EXCEPT !.oth = @ + 1]
    /\ Log([act |-> "reload", alt |-> IF does THEN "" ELSE "nosave"])

(* factory_reset; the automatic save of the last parameter written may happen *)
GReset(does) ==
    /\ alive /\ wd = NoSnap /\ cnt.oth < MaxOther
    /\ (does => kind.auto # {} /\ believed # init)
    /\ Outcome(does, init, believed, NoFault, wd, {}, init, fval, tampered)
    /\ UNCHANGED <<kind, pc, sv>>
    /\ cnt' = [cnt EXCEPT !.oth = @ + 1]
    /\ Log([act |-> "reset", alt |-> IF does THEN "" ELSE "nosave"])

GWipe ==
    /\ cnt.cor < MaxCorrupt /\ cnt.st < MaxStarts
    /\ Wipe
    /\ cnt' = [cnt EXCEPT !.cor = @ + 1]
    /\ Log([act |-> "wipe"])

GCorrupt(c, p) ==
    /\ cnt.cor < MaxCorrupt /\ cnt.st < MaxStarts
    /\ Corrupt(c, p)
    /\ cnt' = [cnt EXCEPT !.cor = @ + 1]
    /\ Log([act |-> "corrupt", c |-> c, p |-> p])

GInit == Init /\ hist = <<>> /\ cnt = [chg |-> 0, sav |-> 0, flt |-> 0, st |-> 0, cor |-> 0, oth |-> 0]
Running == cnt.st < MaxStarts \/ cnt.st = 0
GNext ==
  \/ ~Running /\ \E does \in BOOLEAN : GReload(does)
  \/ Running /\
    \/ \E cc \in CfgPairs, f \in FaultSet({"crash"}), does \in BOOLEAN : GStart(cc[1], cc[2], f, does)
    \/ \E does \in BOOLEAN : GWriteInit(does)
    \/ \E p \in Params, v \in Vals, via \in Vias, f \in FaultSet({"crash", "ioerror"}) : GChange(p, v, via, f)
    \/ \E v \in Vals : GFChange(v)
    \/ \E f \in FaultSet({"crash", "ioerror"}), does \in BOOLEAN : GSave(f, does)
    \/ \E does \in BOOLEAN : GReload(does)
    \/ \E does \in BOOLEAN : GReset(does)
    \/ GWipe
    \/ \E c \in Corruptions, p \in Params : GCorrupt(c, p)
GSpec == GInit /\ [][GNext]_gvars

Bound == TLCGet("level") <= Depth
Emit1 == (cnt.st = MaxStarts) => PrintT(<<"BEH", ToJson(hist)>>)
=============================================================================
