--------------------------- MODULE Gen_Persistent ---------------------------
(* behaviour emission for spec -> code replay.  One step = one call made by the   *)
(* driver (start / writeinit / change / save / corrupt); a save inside a step may *)
(* carry one fault: crash or I/O error *before* operation `at` of the reference   *)
(* save procedure (operations 1 .. at-1 were applied).  Where the property is     *)
(* silent the step branches (`alt`), the driver accepts any branch.               *)
EXTENDS Persistent, Json

CONSTANTS Depth, MaxChanges, MaxSaves, MaxFaults, MaxStarts, MaxCorrupt,
          FirstCfgs,     \* how many parameters the first configuration may give (set of cardinalities)
          StartCfgs,     \* ... a restart configuration may give
          CfgVals        \* values used in configurations

VARIABLES hist, cnt      \* cnt: [chg, sav, flt, st, cor] counters bounding the enumeration

gvars == <<vars, hist, cnt>>

NoFault == [kind |-> "none", at |-> 0, op |-> "", i |-> 0]
Fault(k, j) == [kind |-> k, at |-> j, op |-> Ops[j].o, i |-> Ops[j].i]
FaultSet(kinds) == {NoFault} \cup (IF cnt.flt < MaxFaults
                                   THEN {Fault(k, j) : k \in kinds \cap Faults, j \in 1 .. NOps} ELSE {})

(* result of running the reference save of snapshot S on disk d with fault f *)
SaveDisk(d, S, f) ==
    LET n == IF f.kind = "none" THEN NOps ELSE f.at - 1
        d1 == ApplyUpTo(d, S, n)
    IN IF f.kind = "ioerror" THEN [d1 EXCEPT !.tmp = Absent] ELSE d1
SaveBelieved(bel, S, f) ==
    IF Early THEN S
    ELSE IF f.kind = "none" \/ f.at > RenameIdx THEN S ELSE bel

Proj(c) == IF c.k = "partial" THEN [k |-> "notjson", ent |-> NoSnap, extra |-> FALSE]
           ELSE [k |-> c.k, ent |-> c.ent, extra |-> c.extra]
SkipAllowed == IF ~alive' THEN {FALSE}
               ELSE IF Early THEN {believed' = val'}
               ELSE {FALSE} \cup (IF disk'.target = Complete(val') THEN {TRUE} ELSE {})
Exp == [alive |-> alive', target |-> Proj(disk'.target), val |-> val', wd |-> wd',
        skip |-> SkipAllowed]

Log(rec) == hist' = Append(hist, rec @@ [exp |-> Exp])
Count(f, field) == cnt' = [cnt EXCEPT ![field] = @ + 1, !.flt = @ + (IF f.kind = "none" THEN 0 ELSE 1)]

(* a save attempt inside a step: `due` = the property demands that it happens;         *)
(* otherwise (start-up, pending configured writes) the code may or may not save.        *)
(* does = TRUE: the save is performed (with fault f), FALSE: nothing is written         *)
Saving(does, S, f) ==
    IF does /\ believed # S   \* change detection: nothing to do when believed to be on disk
    THEN /\ disk' = SaveDisk(disk, S, f)
         /\ IF f.kind = "crash"
            THEN alive' = FALSE /\ val' = NoSnap /\ believed' = NoSnap /\ wd' = NoSnap
            ELSE alive' = TRUE /\ val' = S /\ believed' = SaveBelieved(believed, S, f) /\ UNCHANGED wd
    ELSE /\ f.kind = "none"
         /\ alive' = TRUE /\ val' = S /\ UNCHANGED <<disk, believed, wd>>

GStart(cfg, f, does) ==
    /\ cnt.st < MaxStarts
    /\ Cardinality({p \in Params : cfg[p] # NoVal}) \in (IF cnt.st = 0 THEN FirstCfgs ELSE StartCfgs)
    /\ \A p \in Params : cfg[p] \in CfgVals \cup {NoVal}
    /\ LET nv == Loaded(cfg, disk.target)
           bel == BelievedAfterLoad(disk.target)
       IN IF bel # nv /\ does
          THEN /\ disk' = SaveDisk(disk, nv, f)
               /\ IF f.kind = "crash"
                  THEN alive' = FALSE /\ val' = NoSnap /\ believed' = NoSnap /\ wd' = NoSnap
                  ELSE alive' = TRUE /\ val' = nv /\ wd' = Pending(nv, kind)
                       /\ believed' = SaveBelieved(bel, nv, f)
          ELSE /\ f.kind = "none"
               /\ (does <=> bel = nv)           \* one branch only when there is nothing to save
               /\ alive' = TRUE /\ val' = nv /\ wd' = Pending(nv, kind) /\ believed' = bel
               /\ UNCHANGED disk
    /\ UNCHANGED <<kind, pc, sv>>
    /\ Count(f, "st")
    /\ Log([act |-> "start", cfg |-> cfg, f |-> f, alt |-> IF does THEN "" ELSE "nosave",
            auto |-> kind.auto, hw |-> kind.hw])

GWriteInit(does) ==
    /\ alive /\ wd # NoSnap
    /\ wd' = NoSnap
    /\ IF does /\ believed # val /\ (kind.auto \cap kind.hw) # {}
       THEN disk' = SaveDisk(disk, val, NoFault) /\ believed' = val
       ELSE (does <=> (believed = val \/ (kind.auto \cap kind.hw) = {})) /\ UNCHANGED <<disk, believed>>
    /\ UNCHANGED <<alive, kind, val, pc, sv, cnt>>
    /\ Log([act |-> "writeinit", alt |-> IF does THEN "" ELSE "nosave"])

GChange(p, v, f) ==
    /\ alive /\ wd = NoSnap /\ v # val[p] /\ cnt.chg < MaxChanges
    /\ LET nv == [val EXCEPT ![p] = v]
       IN IF p \in kind.auto
          THEN Saving(TRUE, nv, f)
          ELSE /\ f.kind = "none" /\ val' = nv /\ UNCHANGED <<disk, alive, believed, wd>>
    /\ UNCHANGED <<kind, pc, sv>>
    /\ Count(f, "chg")
    /\ Log([act |-> "change", p |-> p, v |-> v, f |-> f])

GSave(f, does) ==
    /\ alive /\ cnt.sav < MaxSaves
    /\ IF wd = NoSnap THEN does ELSE (does => disk.target # Complete(val))  \* deferred while writes are pending (may)
    /\ Saving(does, val, f)
    /\ UNCHANGED <<kind, pc, sv>>
    /\ Count(f, "sav")
    /\ Log([act |-> "save", f |-> f, alt |-> IF does THEN "" ELSE "nosave"])

GCorrupt(c, p) ==
    /\ cnt.cor < MaxCorrupt /\ cnt.st < MaxStarts
    /\ Corrupt(c, p)
    /\ cnt' = [cnt EXCEPT !.cor = @ + 1]
    /\ Log([act |-> "corrupt", c |-> c, p |-> p])

GInit == Init /\ hist = <<>> /\ cnt = [chg |-> 0, sav |-> 0, flt |-> 0, st |-> 0, cor |-> 0]
Running == cnt.st < MaxStarts \/ cnt.st = 0
GNext == Running /\
    \/ \E cfg \in CfgSet, f \in FaultSet({"crash"}), does \in BOOLEAN : GStart(cfg, f, does)
    \/ \E does \in BOOLEAN : GWriteInit(does)
    \/ \E p \in Params, v \in Vals, f \in FaultSet({"crash", "ioerror"}) : GChange(p, v, f)
    \/ \E f \in FaultSet({"crash", "ioerror"}), does \in BOOLEAN : GSave(f, does)
    \/ \E c \in Corruptions, p \in Params : GCorrupt(c, p)
GSpec == GInit /\ [][GNext]_gvars

Bound == TLCGet("level") <= Depth
Emit1 == (cnt.st = MaxStarts) => PrintT(<<"BEH", ToJson(hist)>>)
=============================================================================
