SPECIFICATION TSpec
CONSTANTS
  States = {"A", "B", "C", "K1", "K2"}
  StartStates = {"A", "B", "C"}
  CleanupTargets = {"K1", "K2"}
  Keys = {"x", "y"}
  Vals = {"1", "2", "3"}
  MaxLoops = 1
  Construct = TRUE
  Concurrent = TRUE
CONSTRAINT Track
INVARIANT CycleBounded
INVARIANT InitFlag
INVARIANT CleanupAtMostOnce
INVARIANT CleanupOnlyWhenInterrupted
INVARIANT PopOnlyInactive
INVARIANT TaskTakenOrCleaning
POSTCONDITION Verdicts
CHECK_DEADLOCK FALSE
