SPECIFICATION GSpec
CONSTANTS
  MaxDay = 8
  Retentions = {0, 1, 2, 3}
  StartDay = 4
  Depth = 2
CONSTRAINT Bound
INVARIANT Emit1
CHECK_DEADLOCK FALSE
