SPECIFICATION TSpec
CONSTANTS
  Tier = "mc"
  Shard = 0
  NShards = 1
CONSTRAINT Track
POSTCONDITION Verdicts
CHECK_DEADLOCK FALSE
