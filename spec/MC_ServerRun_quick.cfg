\* the repaired design: every property must hold
SPECIFICATION Spec
CONSTANTS
  NIf = 2
  Kinds = {"ok", "fail", "late"}
  Req = {"res1", "shut1"}
  Repaired = TRUE
  FixNoIf = TRUE
  Crashes = FALSE
INVARIANT TypeOK
INVARIANT ModulesBeforeListen
INVARIANT AnnounceExact
INVARIANT CleanEnd
INVARIANT GenerationOrder
INVARIANT OneResponder
INVARIANT ShutdownFinal
INVARIANT RequestsReturn
INVARIANT OneGenPerRestart
PROPERTY ShutdownHonoured
PROPERTY RestartHonoured
PROPERTY Terminates
CHECK_DEADLOCK FALSE
