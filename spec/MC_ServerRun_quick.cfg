\* the repaired design: every safety property must hold
SPECIFICATION Spec
CONSTANTS
  NIf = 2
  Kinds = {"ok", "fail"}
  Req = {"res1", "shut1"}
  Repaired = TRUE
  FixNoIf = TRUE
  Crashes = FALSE
INVARIANT TypeOK
INVARIANT ModulesBeforeListen
INVARIANT AnnounceExact
INVARIANT CleanEnd
INVARIANT GenerationOrder
INVARIANT OneResponder
INVARIANT ShutdownFinal
INVARIANT RequestsReturn
INVARIANT OneGenPerRestart
CHECK_DEADLOCK FALSE
