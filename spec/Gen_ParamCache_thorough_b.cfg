SPECIFICATION GSpec
CONSTANTS
  Params = {"p1", "p2"}
  Mod2 = {}
  Vals = {"a", "b"}
  Errs = {"e1", "e2"}
  Invs = {"i1"}
  Conns = {"c1", "c2"}
  OmitChoices = {2}
  InitStamps = {1}
  NoDefault = {"p1"}
  InitScopeSets = {{}, {"all"}}
  HiddenChoices = {{}}
  ActScopes = {"p1"}
  RepKinds = {}
  MaxNow = 8
  Depth = 4
  FullParams = {"p1"}
  LiteParams = {"p2"}
  GenConns = {"c2"}
  GenDefaults = {"b"}
  GenLiteOmit = {2}
  GenFixedSub = {"all"}
  GenFullKinds = {"ReadOk", "ReadRaise", "ReadInvalid", "Write", "Assign", "AnnounceErr", "Untouched"}
  GenExtra = {"Nest"}
CONSTRAINT Bound
INVARIANT EmitMax
CHECK_DEADLOCK FALSE
