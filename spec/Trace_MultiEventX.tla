-------------------------- MODULE Trace_MultiEventX --------------------------
(* code -> spec: executions of the REAL frappy.lib.multievent.MultiEvent (2-4 threads under the deterministic  *)
(* scheduler, every source line of multievent.py a preemption point) must be behaviours of MultiEventX.        *)
(* Events: begin / ret of every public call, act (a queued action runs), stuck (thread blocked for ever),     *)
(* end.  The effect points of the calls are not observable: TLC searches them (silent steps, only directly     *)
(* before a ret / act / stuck / end event - effect points commute with begin events).                          *)
(* Named deviations: what the code did before the repairs b07a78a / 520ac94 / cc1957e (only with AllowDev =     *)
(* TRUE, second pass over rejected traces; a trace that needs one is reported, never silently accepted - with   *)
(* the findings fixed it is a VIOLATION):                                                                        *)
(*   Dev_IterRace           wait / waiting_for / deadline raise RuntimeError (set changed size during          *)
(*                          iteration) when another thread creates / sets / clears a sub-event meanwhile       *)
(*   Dev_HalfCreated        ... raise AttributeError when another thread is inside new() (the sub-event is     *)
(*                          registered before it has a name and a deadline)                                    *)
(*   Dev_SpuriousTimeout    wait returns False at once although nothing is outstanding any more and no         *)
(*                          time-out has elapsed (the last set fell between the emptiness test and deadline()) *)
(*   Dev_TrueBeforeActions  wait returns True while the queued actions are still being run                     *)
(*   Dev_IsSetInverted      is_set() of a sub-event answers the opposite                                       *)
EXTENDS MultiEventX, Json, IOUtils, TLCExt
CONSTANT AllowDev
Traces == JsonDeserialize(IOEnv.TRACE_FILE)
NT == Len(Traces)
VARIABLES t, l, devs
tvars == <<t, l, devs>>
ASSUME \A j \in 1 .. NT : TLCSet(j, 1)
Ev == Traces[t][l]

(* the first event of a trace carries the constructor argument *)
TInit == XInit /\ t \in 1 .. NT /\ l = 2 /\ devs = {} /\ dto = Traces[t][1].dto

Keep == UNCHANGED <<pending, created, dl, nm, queued, ran, dropped, flusher, qsince, dto, defname>>
DevRet(th, d) == /\ AllowDev /\ devs' = devs \cup {d}
                 /\ call' = [call EXCEPT ![th] = Idle] /\ Keep

Ret(th) ==
   LET c == call[th] IN
   /\ Ev.op = c.op
   /\ IF Ev.exc # ""
      THEN \/ /\ Ev.exc = "ValueError" /\ RetRefused(th) /\ UNCHANGED devs
           \/ /\ Ev.exc = "RuntimeError" /\ c.op \in Readers /\ c.st \in {"called", "snapped"} /\ c.ovl
              /\ DevRet(th, "Dev_IterRace")
           \/ /\ Ev.exc = "AttributeError" /\ c.op \in Readers /\ c.st \in {"called", "snapped"} /\ c.half
              /\ DevRet(th, "Dev_HalfCreated")
      ELSE \/ /\ \/ RetPlain(th)
                 \/ RetNew(th, Ev.ires)
                 \/ RetWait(th, Ev.bres, Ev.vt)
                 \/ RetNames(th, Range(Ev.sres))
                 \/ RetDeadline(th, Ev.ires)
                 \/ RetFlag(th, Ev.bres)
              /\ UNCHANGED devs
           \/ /\ c.op = "wait" /\ c.st \in {"called", "snapped"} /\ ~Ev.bres /\ c.sawEmpty /\ c.ovl
              /\ DevRet(th, "Dev_SpuriousTimeout")
           \/ /\ c.op = "wait" /\ c.st \in {"called", "snapped"} /\ Ev.bres /\ c.sawFlush /\ ~c.sawQuiet
              /\ Quiet => Ev.vt <= qsince + Slack
              /\ DevRet(th, "Dev_TrueBeforeActions")
           \/ /\ c.op = "isset" /\ c.st = "done" /\ Ev.bres = ~c.bres
              /\ DevRet(th, "Dev_IsSetInverted")

(* a wait() that can take its look at the events does so before the clock goes on *)
LookedInTime(vt) == \A th \in Threads : (call[th].op = "wait" /\ call[th].st = "called" /\ call[th].sfree # -1)
                                           => vt <= call[th].sfree + Slack
Consume ==
   /\ l <= Len(Traces[t]) /\ l' = l + 1 /\ t' = t /\ Ev.vt >= now /\ now' = Ev.vt
   /\ LookedInTime(Ev.vt)
   /\ \/ /\ Ev.ev = "begin" /\ Begin(Ev.th, Ev.vt, Ev.op, Ev.e, Ev.a, Ev.to, Ev.name) /\ UNCHANGED devs
      \/ /\ Ev.ev = "ret" /\ Ret(Ev.th)
      \/ /\ Ev.ev = "act" /\ Act(Ev.th, Ev.a, Ev.raises, Ev.vt) /\ UNCHANGED devs
      \/ /\ Ev.ev = "stuck" /\ StuckOK(Ev.th) /\ call' = [call EXCEPT ![Ev.th] = Idle] /\ Keep /\ UNCHANGED devs
      \/ /\ Ev.ev = "end" /\ \A th \in Threads : call[th].st = "idle"
         /\ UNCHANGED <<pending, created, dl, nm, queued, ran, dropped, flusher, qsince, call, devs, dto, defname>>

Silent ==
   /\ l <= Len(Traces[t])
   /\ \E th \in Threads : IF Ev.ev \in {"ret", "act", "stuck", "end"} THEN Lin(th, Ev.vt) ELSE Snap(th, Ev.vt)
   /\ UNCHANGED <<now, t, l, devs>>

TNext == Consume \/ Silent
TSpec == TInit /\ [][TNext]_<<xvars, tvars>>

Track == TLCSet(t, IF l > TLCGet(t) THEN l ELSE TLCGet(t))
Finished == (l = Len(Traces[t]) + 1) => PrintT(<<"DEVS", t, ToJson(devs)>>)
Verdicts == \A j \in 1 .. NT :
   IF TLCGet(j) = Len(Traces[j]) + 1 THEN PrintT(<<"ACCEPT", j>>)
   ELSE PrintT(<<"REJECT", j, TLCGet(j), "event not allowed by MultiEventX">>)
=============================================================================
