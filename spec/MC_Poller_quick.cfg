SPECIFICATION Spec
CONSTANTS
  NMods = 2
  Params = {"a", "b"}
  Intervals = {0, 1, 4}
  Slows = {4, 8}
  Durs = {0, 1, 3}
  Horizon = 60
INVARIANT MainBound
INVARIANT SlowBoundOK
INVARIANT TurnBounded
CHECK_DEADLOCK FALSE
