SPECIFICATION TSpec
CONSTANTS
  MaxIf = 6
  MaxGen = 9
  RestartRule = "stop_old"
  PortRule = "opened"
CONSTRAINT Track
INVARIANT OneResponder
INVARIANT AnswersTrue
POSTCONDITION Verdicts
CHECK_DEADLOCK FALSE
