SPECIFICATION TSpec
CONSTANTS
  MaxIf = 6
  MaxGen = 9
  RestartRule = "stop_old"
  PortRule = "opened"
  ShutdownRule = "close_always"
CONSTRAINT Track
INVARIANT OneResponder
POSTCONDITION Verdicts
CHECK_DEADLOCK FALSE
