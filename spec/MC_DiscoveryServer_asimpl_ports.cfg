SPECIFICATION WSpec
CONSTANTS
  MaxIf = 3
  MaxGen = 3
  RestartRule = "stop_old"
  PortRule = "configured"
  ShutdownRule = "close_always"
  TeardownOrder = "responder_first"
INVARIANT OneResponder
INVARIANT AnswersTrue
CHECK_DEADLOCK FALSE
