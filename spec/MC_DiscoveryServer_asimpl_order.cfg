SPECIFICATION WSpec
CONSTANTS
  MaxIf = 3
  MaxGen = 3
  RestartRule = "stop_old"
  PortRule = "opened"
  ShutdownRule = "close_always"
  TeardownOrder = "interfaces_first"
INVARIANT OneResponder
INVARIANT AnswersTrue
CHECK_DEADLOCK FALSE
