--------------------------- MODULE Gen_ServerRun ---------------------------
(* spec -> code: scenario scripts.  Behaviours of ServerRun (both designs) under a CANONICAL schedule -     *)
(* a request, once begun, runs as far as it can; then the thread of run() as far as it can; then the      *)
(* interface threads (lowest index first), then the responder threads; a request begins either at the     *)
(* very start or right after a step that is observable from outside.  Every step records the events  *)
(* the real code has to emit for it and the projected state after it.  What varies: what happens to each  *)
(* interface at each (re)start, which requests are made and where.  x06.py derives the script (inputs)    *)
(* from a behaviour, runs it on the real Server under the same schedule and compares events and state.    *)
EXTENDS ServerRun, Json
CONSTANTS MaxSteps
VARIABLES hist, lastObs

gvars == <<vars, hist, lastObs>>

SockSet == {i \in Ifs : SocketOpen(i)}
Proj == [gen |-> gen', lis |-> {i \in Ifs : ipc'[i] \in {"bound", "registered", "preserve", "serving", "served", "skip", "crashed"}},
         disc |-> discOpen', mods |-> IF gen' = 0 THEN "none" ELSE mods'[gen'], ret |-> mpc' = "returned"]
Rec(a, th, arg, evs) == [act |-> a, th |-> th, arg |-> arg, evs |-> evs, exp |-> Proj]
Log(a, th, arg, evs) == /\ hist' = Append(hist, Rec(a, th, arg, evs))
                        /\ lastObs' = (evs # <<>>)

E1(name) == << [ev |-> name] >>
Ei(name, i) == << [ev |-> name, i |-> i] >>

ReportEvs == [k \in 1 .. Cardinality(ToReport) |-> [ev |-> "report"]]

GMain ==
  \/ M_LoopTest /\ Log("M_LoopTest", "main", 0, <<>>)
  \/ M_Clear /\ Log("M_Clear", "main", 0, <<>>)
  \/ M_LoopHead /\ Log("M_LoopHead", "main", 0, <<>>)
  \/ M_Cfg /\ Log("M_Cfg", "main", kind', << [ev |-> "boot"], [ev |-> "create"], [ev |-> "create"], [ev |-> "start"],
                                        [ev |-> "start"], [ev |-> "ready"] >>)
  \/ M_Dict /\ Log("M_Dict", "main", 0, <<>>)
  \/ M_Spawn /\ Log("M_Spawn", "main", 0, <<>>)
  \/ M_WaitAll /\ Log("M_Wait", "main", 0, <<>>)
  \/ M_Report /\ Log("M_Report", "main", 0, ReportEvs)
  \/ M_NoIf /\ Log("M_NoIf", "main", 0, <<[ev |-> "noiface"]>> \o (IF FixNoIf THEN <<>> ELSE <<[ev |-> "ret"]>>))
  \/ M_NoIfDown /\ Log("M_NoIfDown", "main", 0, <<[ev |-> "mdown"], [ev |-> "mdown"], [ev |-> "ret"]>>)
  \/ M_Prop /\ Log("M_Prop", "main", 0, E1("up"))
  \/ M_PropDisc /\ Log("M_PropDisc", "main", 0, IF stopping THEN <<>> ELSE IF reg = {} THEN <<[ev |-> "noiface"]>>
                                                 ELSE <<[ev |-> "up"], [ev |-> "disc_new"]>>)
  \/ M_Disc /\ Log("M_Disc", "main", 0, E1("disc_new"))
  \/ M_Join /\ Log("M_Join", "main", 0, E1("stopped"))
  \/ M_ShutMods /\ Log("M_ShutMods", "main", 0, <<[ev |-> "mdown"], [ev |-> "mdown"]>>)
  \/ M_HookTest /\ Log("M_HookTest", "main", 0, IF rflag THEN <<[ev |-> "hook"]>> ELSE <<>>)
  \/ M_LogDown /\ Log("M_LogDown", "main", 0, <<[ev |-> "down"], [ev |-> "ret"]>>)

(* the time-out of the wait elapses only when nobody else can run (virtual time) *)
GTimeout == M_WaitTimeout /\ Log("M_WaitTimeout", "main", 0, <<>>)

(* an interface whose constructor takes 15 s: when nobody else can run and the time-out of the wait has elapsed *)
GLate(i) == I_Construct(i) /\ kind[i] = "late" /\ Log("I_Construct", "if", i, Ei("bind", i))

GIface(i) ==
  \/ I_Begin(i) /\ Log("I_Begin", "if", i, Ei("if_begin", i))
  \/ I_Construct(i) /\ kind[i] # "late"
       /\ Log("I_Construct", "if", i, <<[ev |-> IF kind[i] = "fail" THEN "bindfail" ELSE "bind", i |-> i]>>)
  \/ I_Register(i) /\ Log("I_Register", "if", i, <<>>)
  \/ I_Trigger(i) /\ Log("I_Trigger", "if", i, <<>>)
  \/ I_ServeBegin(i) /\ Log("I_ServeBegin", "if", i, Ei("serve_b", i))
  \/ I_ServeEnd(i) /\ Log("I_ServeEnd", "if", i, Ei("serve_e", i))
  \/ I_Close(i) /\ Log("I_Close", "if", i, Ei("close", i))
  \/ I_Finish(i) /\ Log("I_Finish", "if", i, <<>>)
  \/ I_End(i) /\ Log("I_End", "if", i, Ei("if_end", i))

GDisc(g) ==
  \/ D_Run(g) /\ Log("D_Run", "disc", g, <<>>)
  \/ D_End(g) /\ Log("D_End", "disc", g, <<>>)

(* the request returns with the step that takes it to "done" *)
EndEv(r) == IF rpc'[r] = "done" THEN <<[ev |-> "req_e", exc |-> rexc'[r]]>> ELSE <<>>
GReq(r) ==
  \/ R_Test(r) /\ Log("R_Test", r, 0, EndEv(r))
  \/ R_Set(r) /\ Log("R_Set", r, 0, <<>>)
  \/ R_Acquire(r) /\ Log("R_Acquire", r, 0, EndEv(r))
  \/ R_Disc(r) /\ Log("R_Disc", r, 0, IF discAttr \in discOpen THEN E1("disc_close") ELSE <<>>)
  \/ R_Iter(r) /\ Log("R_Iter", r, 0, EndEv(r))
  \/ R_Next(r) /\ Log("R_Next", r, 0, (IF rpc'[r] = "waitif" THEN Ei("ish_b", rcur'[r]) ELSE <<>>) \o EndEv(r))
  \/ R_WaitIf(r) /\ Log("R_WaitIf", r, 0, Ei("ish_e", rcur[r]))
  \/ R_Release(r) /\ Log("R_Release", r, 0, EndEv(r))

GBegin(r) == R_Begin(r) /\ lastObs /\ Log("R_Begin", r, 0, <<[ev |-> "req_b", kind |-> RKind[r]]>>)

(* canonical schedule *)
MainFast == M_LoopTest \/ M_Clear \/ M_LoopHead \/ M_Cfg \/ M_Dict \/ M_Spawn \/ M_WaitAll \/ M_Report \/ M_NoIf \/ M_NoIfDown
            \/ M_Prop \/ M_PropDisc \/ M_Disc \/ M_Join \/ M_ShutMods \/ M_HookTest \/ M_LogDown
ReqRunning == {r \in Req : rpc[r] \notin {"idle", "done"} /\ ENABLED ReqStep(r)}
IfaceFast(i) == I_Begin(i) \/ (I_Construct(i) /\ kind[i] # "late") \/ I_Register(i) \/ I_Trigger(i) \/ I_ServeBegin(i)
                \/ I_ServeEnd(i) \/ I_Crash(i) \/ I_Close(i) \/ I_Finish(i) \/ I_End(i)
HelperIf == {i \in Ifs : ENABLED IfaceFast(i)}
LateIf == {i \in Ifs : kind[i] = "late" /\ ENABLED I_Construct(i)}
HelperDisc == {g \in Gens : ENABLED (D_Run(g) \/ D_End(g))}
Lowest(S) == CHOOSE x \in S : \A y \in S : x <= y

GNext ==
  IF ReqRunning # {} THEN \E r \in ReqRunning : GReq(r)
  ELSE \/ \E r \in Req : GBegin(r)
       \/ IF ENABLED MainFast THEN GMain
          ELSE IF HelperIf # {} THEN GIface(Lowest(HelperIf))
          ELSE IF HelperDisc # {} THEN GDisc(Lowest(HelperDisc))
          ELSE IF ENABLED M_WaitTimeout THEN GTimeout
          ELSE LateIf # {} /\ GLate(Lowest(LateIf))

GInit == Init /\ hist = <<>> /\ lastObs = TRUE
GSpec == GInit /\ [][GNext]_gvars

Bound == Len(hist) <= MaxSteps
Emit == (~ENABLED GNext \/ Len(hist) = MaxSteps + 1) => PrintT(<<"BEH", ToJson(hist)>>)
=============================================================================
