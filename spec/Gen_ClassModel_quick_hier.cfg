SPECIFICATION GSpec
CONSTANTS
  NClasses = 4
  NInsts = 0
  Bodies = {}
  Cfgs = {"pmaxK"}
  Muts = {}
  DescIds = {"d"}
  MaxBases = 2
  MaxMuts = 0
  MaxLevel = 99
  Depth = 4
  RootP = {"new"}
  MixinP = {"props"}
  DerivedP = {"props", "bare", "empty"}
  DerivedC = {}
  DerivedM = {}
  DerivedW = {}
  MaxOverrides = 1
  MaxRoots = 2
CONSTRAINT GBound
INVARIANT Emit1
CHECK_DEADLOCK FALSE
