-------------------------- MODULE Gen_EnumStatus --------------------------
(* spec -> code: every sequence of MaxClasses class definitions; for each the enum the class must have (or the   *)
(* exception its definition must raise).  The harness defines the classes for real (type(name, bases, body)),    *)
(* instantiates each and compares cls.Status, the described enum and the accepted / refused status codes.        *)
EXTENDS EnumStatus, Json, SequencesExt
Emit == (Len(hist) = MaxClasses) =>
          PrintT(<<"BEH", ToJson([steps |-> hist,
                                  classes |-> [j \in DOMAIN classes |->
                                     [base |-> classes[j].base, m |-> Members(classes[j].map),
                                      acc |-> SetToSeq(Universe \cap Vals(classes[j].map)),
                                      busy |-> SetToSeq({c \in Universe \cap Vals(classes[j].map) : IsBusy(c)}),
                                      driving |-> SetToSeq({c \in Universe \cap Vals(classes[j].map) : IsDriving(c)})]]])>>)
=============================================================================
