SPECIFICATION DefSpec
CONSTANTS
  Layouts <- AllLayouts
  Impl <- AsImplKey
INVARIANT AcceptedSound
CHECK_DEADLOCK FALSE
