---------------------------- MODULE Trace_SimDrive ----------------------------
(* code -> spec: what a client observed on the real SimDrivable (one observation after every client *)
(* action and after every period of the simulation thread) must be a behaviour of SimDrive.         *)
(* Dev_LateBusy is the named deviation of the code before repair 7893dc6 (reported if it comes back) *)
EXTENDS SimDrive, Json, IOUtils, TLCExt, Sequences
Traces == JsonDeserialize(IOEnv.TRACE_FILE)
NT == Len(Traces)
VARIABLES t, l, devs
ASSUME \A j \in 1 .. NT : TLCSet(j, 1)
Ev == Traces[t][l]
H == Traces[t][1]        \* the first event describes the configuration

TInit == /\ t \in 1 .. NT /\ l = 2 /\ devs = {}
         /\ hv = H.hv /\ target = H.target /\ val = hv /\ jit = H.jit
         /\ status = "idle" /\ mode = "wait" /\ sp = 0
         /\ shape = H.shape /\ ramp = H.ramp
         /\ xp = 0 /\ H.x0 = 0 /\ last = [op |-> "none"]
         \* the HasOffset feature: announced as a feature, offset in the unit of the value
         /\ H.xunit /\ (H.feature <=> H.xpar = "offset")

TStep ==
  /\ l <= Len(Traces[t])
  /\ l' = l + 1 /\ t' = t
  /\ \/ /\ Ev.ev = "target"
        /\ \/ SetTarget(Ev.T) /\ UNCHANGED devs
           \/ Dev_LateBusy(Ev.T) /\ devs' = devs \cup {"Dev_LateBusy"}
        /\ status' = Ev.status /\ target' = Ev.target /\ val' = Ev.val
     \/ /\ Ev.ev = "stop"
        /\ \/ Stop /\ UNCHANGED devs
           \/ Dev_LateBusy(val) /\ devs' = devs \cup {"Dev_LateBusy"}
        /\ status' = Ev.status /\ target' = Ev.target
     \/ /\ Ev.ev = "ramp" /\ SetRamp(Ev.r) /\ UNCHANGED devs
     \/ /\ Ev.ev = "read" /\ Read /\ val' = Ev.v /\ UNCHANGED devs
     \/ /\ Ev.ev = "setx" /\ SetX(Ev.v) /\ UNCHANGED devs
     \/ /\ Ev.ev = "readx" /\ ReadX /\ last'.v = Ev.v /\ UNCHANGED devs
     \/ /\ Ev.ev = "tick" /\ Tick
        /\ status' = Ev.status /\ val' = Ev.val
        /\ Ev.hashv => hv' = Ev.hv
        /\ UNCHANGED devs

TSpec == TInit /\ [][TStep]_<<dvars, t, l, devs>>

Track == TLCSet(t, IF l > TLCGet(t) THEN l ELSE TLCGet(t))
Done == (l = Len(Traces[t]) + 1) => PrintT(<<"DEVS", t, ToJson(devs)>>)
Verdicts == \A j \in 1 .. NT :
   IF TLCGet(j) = Len(Traces[j]) + 1 THEN PrintT(<<"ACCEPT", j>>)
   ELSE PrintT(<<"REJECT", j, TLCGet(j), "observation not allowed by SimDrive">>)
=============================================================================
