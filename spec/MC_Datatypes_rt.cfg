SPECIFICATION Spec
CONSTANTS
  Tier = "quick"
  Shard = 0
  NShards = 1
INVARIANT RoundTrip
CHECK_DEADLOCK FALSE
