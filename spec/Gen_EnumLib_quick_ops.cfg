SPECIFICATION GSpec
VIEW GView
CONSTANTS
  Names = {"a", "b"}
  IntVals <- IV_quick
  Specials = {}
  DispNames = {"x"}
  MaxPieces = 2
  MaxExt = 1
  MaxDepth = 1
  AsImpl = {}
  Families = {"cmp", "arith"}
CHECK_DEADLOCK FALSE
