----------------------------- MODULE LinkedConc -----------------------------
(* C18, concurrent variant of LinkedStruct / LinkedFloatEnum (design level): *)
(* several driver threads update feeding parameters of ONE module at the     *)
(* same time.  An update is: store the value of the feeding parameter, run   *)
(* the consistency callback (compute the linked parameter from the CURRENT   *)
(* state, store and announce it).  Module.announceUpdate holds the module's  *)
(* update lock over the whole of it (frappy/modulebase.py announceUpdate,    *)
(* frappy/extparams.py StructParam.finish / FloatEnumParam.trigger_setter).  *)
(*                                                                           *)
(* Mode "members": writer w sets member w of the struct to 1; the callback   *)
(*                 reads the struct, replaces member w and stores it.        *)
(* Mode "structs": writer w assigns the struct [all members |-> Num(w)]; the *)
(*                 callback stores the members one after the other.          *)
(* Mode "index"  : writer w sets the enum index to Num(w); the callback      *)
(*                 computes the float from the current index and stores it.  *)
(* Locked = FALSE is the variant in which the callbacks run after the lock   *)
(* was released: TLC must find the inconsistency (MC_LinkedConc_unlocked).   *)
EXTENDS Naturals, FiniteSets, TLC
CONSTANTS Writers, Locked, Modes      \* Modes: subset of {"members", "structs", "index"}

Num(w) == CASE w = "w1" -> 1 [] w = "w2" -> 2 [] w = "w3" -> 3
Members == Writers
T(i) == 10 * i + 1                      \* value table of the float: index -> value

VARIABLES mode, mem, str, idx, fval, pc, snap, todo, lock
vars == <<mode, mem, str, idx, fval, pc, snap, todo, lock>>
Mode == mode

Init == /\ mode \in Modes
        /\ mem = [m \in Members |-> 0] /\ str = mem
        /\ idx = 0 /\ fval = T(0)
        /\ pc = [w \in Writers |-> "idle"]
        /\ snap = [w \in Writers |-> 0]           \* what the callback of w computed
        /\ todo = [w \in Writers |-> {}]          \* members the callback of w still has to store
        /\ lock = "free"

Enter(w) ==                 \* announceUpdate of the feeding parameter: take the update lock
    /\ pc[w] = "idle" /\ lock = "free" /\ lock' = w
    /\ pc' = [pc EXCEPT ![w] = "store"] /\ UNCHANGED <<mem, str, idx, fval, snap, todo>>

Store(w) ==                 \* store the feeding parameter; without Locked the lock is given back here
    /\ pc[w] = "store"
    /\ CASE Mode = "members" -> mem' = [mem EXCEPT ![w] = 1] /\ UNCHANGED <<str, idx>>
         [] Mode = "structs" -> str' = [m \in Members |-> Num(w)] /\ UNCHANGED <<mem, idx>>
         [] Mode = "index"   -> idx' = Num(w) /\ UNCHANGED <<mem, str>>
    /\ lock' = (IF Locked THEN lock ELSE "free")
    /\ pc' = [pc EXCEPT ![w] = "compute"] /\ UNCHANGED <<fval, snap, todo>>

Compute(w) ==               \* the callback looks at the current state
    /\ pc[w] = "compute"
    /\ CASE Mode = "members" -> snap' = [snap EXCEPT ![w] = [str EXCEPT ![w] = 1]] /\ UNCHANGED todo
         [] Mode = "structs" -> todo' = [todo EXCEPT ![w] = Members] /\ UNCHANGED snap
         [] Mode = "index"   -> snap' = [snap EXCEPT ![w] = T(idx)] /\ UNCHANGED todo
    /\ pc' = [pc EXCEPT ![w] = "link"] /\ UNCHANGED <<mem, str, idx, fval, lock>>

Link(w) ==                  \* ... and stores + announces the linked parameter(s)
    /\ pc[w] = "link"
    /\ CASE Mode = "members" -> str' = snap[w] /\ UNCHANGED <<mem, fval, todo>>
         [] Mode = "index"   -> fval' = snap[w] /\ UNCHANGED <<mem, str, todo>>
         [] Mode = "structs" -> \E m \in todo[w] : /\ mem' = [mem EXCEPT ![m] = Num(w)]
                                                   /\ todo' = [todo EXCEPT ![w] = todo[w] \ {m}]
                                                   /\ UNCHANGED <<str, fval>>
    /\ IF Mode = "structs" /\ Cardinality(todo[w]) > 1
       THEN UNCHANGED <<pc, lock>>
       ELSE pc' = [pc EXCEPT ![w] = "done"] /\ lock' = (IF Locked THEN "free" ELSE lock)
    /\ UNCHANGED <<idx, snap>>

Next == UNCHANGED mode /\ \E w \in Writers : Enter(w) \/ Store(w) \/ Compute(w) \/ Link(w)
Spec == Init /\ [][Next]_vars

(* when everybody is done the linked views agree *)
Quiescent == \A w \in Writers : pc[w] = "done"
ConsistentAtRest == Quiescent => (str = mem /\ fval = T(idx))
(* every announced struct / float equals the members / the index as of the same step *)
AnnouncedConsistent ==
    [][\A w \in Writers : Link(w) =>
          /\ Mode = "members" => str' = mem'
          /\ Mode = "index" => fval' = T(idx')]_vars
=============================================================================
