SPECIFICATION Spec
CONSTANTS
  NMods = 3
  Params = {"a", "b"}
  Intervals = {0, 1, 2, 8}
  Slows = {2, 8, 24}
  Durs = {0, 1, 3}
  Horizon = 120
INVARIANT MainBound
INVARIANT SlowBoundOK
INVARIANT TurnBounded
CHECK_DEADLOCK FALSE
