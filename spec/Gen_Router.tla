----------------------------- MODULE Gen_Router -----------------------------
(* behaviour emission for spec -> code replay.  VIEW hides the history (and the derived   *)
(* variables), so TLC visits every distinct abstract state once (to Depth) and the        *)
(* ACTION_CONSTRAINT prints one behaviour per TRANSITION of the abstract state graph.     *)
(* A step records the INPUT of the action (what the environment does) and exp, the        *)
(* expected observation.  Where Router is nondeterministic several behaviours with the    *)
(* same inputs are printed; the implementation must follow one of them.                   *)
EXTENDS Router, Json, SequencesExt
CONSTANTS Depth, Thin
VARIABLE hist

KeyRec(k) == [n |-> k[1], m |-> k[2], p |-> k[3]]
\* loose: Router allows other outcomes for the same input (alternatives are printed as separate behaviours)
Obs == [loose |-> \/ last'.act = "wait" /\ \E n \in Nodes : st[n] = "lost" /\ ~open[n]
                  \/ last'.act = "req" /\ last'.rep.a = "error" /\ last'.routed # {},
        st |-> st', active |-> active', restart |-> restart',
        cache |-> SetToSeq({KeyRec(k) @@ [en |-> cache'[k], vis |-> Visible(k)] : k \in Keys}),
        rep |-> last'.rep, routed |-> last'.routed,
        out |-> SetToSeq({[c |-> c] @@ KeyRec(k) @@ [seq |-> last'.out[c][k]] :
                            c \in Conns, k \in {j \in Keys : \E d \in Conns : last'.out[d][j] # <<>>}}),
        opt |-> SetToSeq({[c |-> c] @@ KeyRec(k) : c \in Conns, k \in {j \in Keys : \E d \in Conns : j \in last'.opt[d]}}),
        desc |-> IF last'.act = "desc" THEN SetToSeq(Descriptions) ELSE <<>>]

Rec(r) == hist' = Append(hist, r @@ [exp |-> Obs])

GInit == Init /\ hist = <<>>
GNext ==
    \/ \E k \in Keys, en \in UpEntries :
         UpUpdate(k, en) /\ Rec([act |-> "upd", en |-> en] @@ KeyRec(k))
    \/ \E n \in Nodes : Close(n) /\ Rec([act |-> "lose", n |-> n])
    \/ \E n \in Nodes, nv \in 0 .. 1 : Back(n, nv) /\ Rec([act |-> "back", n |-> n, ver |-> nv])
    \/ \E d \in WaitSteps, gone \in SUBSET Nodes, errs \in BOOLEAN :
         Wait(d, gone, errs) /\ Rec([act |-> "wait", d |-> d])
    \/ \E c \in ReqConns, kind \in Kinds, m \in ReqMods, p \in ReqPars, arg \in ReqArgs, ok \in BOOLEAN,
          x \in Values, ec \in UpErrs, cached \in BOOLEAN :
            /\ (kind = "do") = (p = "go")
            /\ (kind = "read" => arg = 0) /\ (ok => ec = CHOOSE e \in UpErrs : TRUE) /\ (~ok => x = CHOOSE v \in Values : TRUE)
            /\ (~(kind = "read" /\ ~ok) => cached)
            /\ Request(c, kind, m, p, arg, ok, x, ec, cached)
            /\ Rec([act |-> "req", c |-> c, k |-> kind, m |-> m, p |-> p, arg |-> arg, ok |-> ok, x |-> x, ec |-> ec])
    \/ \E c \in Conns : \/ Activate(c) /\ Rec([act |-> "act", c |-> c])
                        \/ Deactivate(c) /\ Rec([act |-> "deact", c |-> c])
    \/ \E c \in ReqConns : Describe(c) /\ Rec([act |-> "desc", c |-> c])
GSpec == GInit /\ [][GNext]_<<vars, hist>>

Bound == TLCGet("level") <= Depth
EmitStep == PrintT(<<"BEH", ToJson(hist')>>)
\* simulation mode: the invariant is evaluated on every candidate successor - print about one in Thin
EmitEnd == (TLCGet("level") = Depth /\ RandomElement(1 .. Thin) = 1) => PrintT(<<"BEH", ToJson(hist)>>)
AbstractView == <<uval, open, uver, st, age, cache, active, restart>>
=============================================================================
