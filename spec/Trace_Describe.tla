---------------------------- MODULE Trace_Describe ----------------------------
(* code -> spec for C06.  The first record of every trace is the alpha-projection of the  *)
(* node's describe reply and becomes the trace's constant; every further record is one    *)
(* request / reply (with the updates received meanwhile) of the same node and is judged   *)
(* against that description.  Every broken clause is printed as <<"DEV", t, l, clause>>.   *)
EXTENDS Describe, Json, IOUtils, TLCExt
Traces == JsonDeserialize(IOEnv.TRACE_FILE)
NT == Len(Traces)
VARIABLES t, l

D == Traces[t][1]
Ev == Traces[t][l]
TInit == /\ t \in 1 .. NT
         /\ l = 2
         /\ shape = <<>> /\ cache = <<>> /\ rerr = <<>> /\ last = <<>>
         /\ LET s == Structure(Traces[t][1]) IN s # "" => PrintT(<<"DEV", t, 1, s>>)
         /\ (Len(Traces[t]) = 1 => PrintT(<<"END", t, 1>>))

TStep ==
  /\ l <= Len(Traces[t])
  /\ LET j == Judge(D.desc, Ev)
         u == JudgeUpdates(D.desc, Ev)
     IN /\ (j # "" => PrintT(<<"DEV", t, l, j>>))
        /\ (j = "" /\ u # "" => PrintT(<<"DEV", t, l, u>>))
  /\ (l = Len(Traces[t]) => PrintT(<<"END", t, l>>))
  /\ l' = l + 1 /\ t' = t
  /\ UNCHANGED vars

TSpec == TInit /\ [][TStep]_<<vars, t, l>>
=============================================================================
