SPECIFICATION GSpec
CONSTANTS
  Threads = {"main", "w1", "w2"}
  Inf = 1000000
  Slack = 0
  Ids <- Ids2
  ActIds <- Acts0
  RaisingActs = {}
  NewTimeouts = {0, 2}
  NewNames = {""}
  DefNames = {}
  WaitTimeouts = {1000000, 2}
  Dto = 3
  Waiters = {"w1", "w2"}
  Depth = 6
  MaxTicks = 2
  MaxClears = 1
  MaxWaits = 2
  MaxDirect = 0
  MaxSetNames = 0
INVARIANT Emit
INVARIANT GenInv
CHECK_DEADLOCK FALSE
