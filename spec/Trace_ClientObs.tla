--------------------------- MODULE Trace_ClientObs ---------------------------
EXTENDS ClientObs, Json, IOUtils, TLCExt, SequencesExt
Traces == JsonDeserialize(IOEnv.TRACE_FILE)
NT == Len(Traces)
VARIABLES t, l
ASSUME \A i \in 1 .. NT : TLCSet(i, 1)
Ev == Traces[t][l]
TInit == OInit /\ t \in 1 .. NT /\ l = 1

Places == [txq_put |-> "txq", txq_get |-> "tx", pending_put |-> "pending", pending_get |-> "tx", send |-> "sent"]

TStep ==
  /\ l <= Len(Traces[t])
  /\ l' = l + 1 /\ t' = t
  /\ now' = Ev.vt
  /\ \/ Ev.ev = "call" /\ Call(Ev.i, Ev.key)
     \/ Ev.ev \in DOMAIN Places /\ Hint(Ev.i, Places[Ev.ev])
     \/ Ev.ev = "evset" /\ EvSet(Ev.i)
     \/ Ev.ev = "precv" /\ PeerRecv(Ev.i)
     \/ Ev.ev = "psend" /\ PeerSend(Ev.i)
     \/ Ev.ev \in {"pdrop", "ioshut"} /\ Lose
     \/ Ev.ev = "disc_call" /\ DiscCall
     \/ Ev.ev = "reopen" /\ Reopen
     \/ Ev.ev = "refused" /\ Refused
     \/ Ev.ev = "state" /\ StateCb(Ev.online, Ev.state, Ev.by)
     \/ Ev.ev = "ret" /\ Ev.kind \in {"reply", "secop"} /\ RetReply(Ev.i, Ev.gid)
     \/ Ev.ev = "ret" /\ Ev.kind \in {"reply", "secop"} /\ RetLateReply(Ev.i, Ev.gid)
     \/ Ev.ev = "ret" /\ Ev.kind = "timeout" /\ RetTimeout(Ev.i, Ev.dt)
     \/ Ev.ev = "ret" /\ Ev.kind = "connerr" /\ RetConnErr(Ev.i)
     \* a caller arriving after the loss: its reconnect attempt is refused (communication error, no request sent)
     \/ Ev.ev = "ret" /\ Ev.kind = "secop" /\ Ev.gid = 0 /\ RetRefused(Ev.i)
     \/ Ev.ev = "ret" /\ Ev.kind = "timeout" /\ Dev_TimeoutStalePark(Ev.i)
     \/ Ev.ev = "ret" /\ Ev.kind = "timeout" /\ Dev_TimeoutLostInTxq(Ev.i)
     \/ Ev.ev = "disc_ret" /\ Ev.exc = "" /\ life \in {"shutdown", "reopened"} /\ DiscRetOK   \* the shutdown was announced
                                        \* (a request made meanwhile may have re-opened the client: "reopened")
     \/ Ev.ev = "disc_ret" /\ Ev.exc = "AttributeError" /\ Dev_DiscRaised(Ev.who)
     \/ Ev.ev = "end" /\ Ev.left = <<>> /\ Ev.excs = <<>> /\ DiscRetOK
     \/ Ev.ev = "end" /\ Ev.left = <<>> /\ Ev.excs # <<>> /\ \A n \in 1 .. Len(Ev.excs) : Ev.excs[n] = "AttributeError:join"
                      /\ Dev_DiscRaised("worker")

TSpec == TInit /\ [][TStep]_<<ovars, t, l>>
Track == TLCSet(t, IF l > TLCGet(t) THEN l ELSE TLCGet(t))
Done == (l = Len(Traces[t]) + 1) => PrintT(<<"DEVS", t, ToJson(devs)>>)
Verdicts == \A i \in 1 .. NT :
   IF TLCGet(i) = Len(Traces[i]) + 1 THEN PrintT(<<"ACCEPT", i>>)
   ELSE PrintT(<<"REJECT", i, TLCGet(i), "event not allowed by ClientObs">>)
=============================================================================
