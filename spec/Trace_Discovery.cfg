SPECIFICATION TSpec
CONSTANTS
  O = 0
  BLow = 0
  BHigh = 0
  MaxLen = 0
  NPorts = {0}
  Classes = {"discover", "object", "number", "string", "list", "null", "bool", "badutf8", "badjson", "empty", "oversized", "deep", "oversized_deep", "discover_extra", "oversized_discover"}
  Loose = {"oversized_discover"}
  Contained = {"discover", "object", "number", "string", "list", "null", "bool", "badutf8", "badjson", "empty", "oversized", "deep", "oversized_deep", "discover_extra", "oversized_discover"}
  DisableRule = "identity"
  AnnounceRule = "enabled"
CONSTRAINT Track
INVARIANT Alive
INVARIANT AnswerIffDiscover
POSTCONDITION Verdicts
CHECK_DEADLOCK FALSE
