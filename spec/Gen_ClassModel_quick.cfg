SPECIFICATION GSpec
CONSTANTS
  NClasses = 3
  NInsts = 2
  Bodies = {}
  Cfgs = {"pmaxK"}
  Muts = {"setmax", "sctopt"}
  DescIds = {"d"}
  MaxBases = 2
  MaxMuts = 1
  MaxLevel = 99
  Depth = 5
  RootP = {"new"}
  MixinP = {"props"}
  DerivedP = {"props", "bare"}
  DerivedC = {"method"}
  DerivedM = {}
  DerivedW = {}
  MaxOverrides = 1
  MaxRoots = 2
CONSTRAINT GBound
INVARIANT Emit1
CHECK_DEADLOCK FALSE
