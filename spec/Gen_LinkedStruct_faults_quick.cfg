SPECIFICATION FGSpec
CONSTANTS
  Members = {"p", "q"}
  Vals = {1, 2, 3, 4}
  HwMax = 3
  HwModes = {"clip", "refuse"}
  Excs = {"other"}
  FM = "q"
  FDepth = 3
  Depth = 5
  Depth2 = 4
  Layouts = {"combined", "separate"}
  WM = {"q"}
  WV = {4}
  AM = {"p"}
  AV = {1}
  RM = {}
  SWV = {2}
  SAV = {1}
  RS = TRUE
CONSTRAINT FBound
INVARIANT FEmit
CHECK_DEADLOCK FALSE
