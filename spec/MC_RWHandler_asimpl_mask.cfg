SPECIFICATION MCSpec
CONSTANTS
  Layouts <- CatCommon
  Impl <- AsImplMask
CONSTRAINT MCBound5
INVARIANT FreshRead
INVARIANT GroupFresh
INVARIANT ReadErrorReported
CHECK_DEADLOCK FALSE
