\* documents X06-no-interface-modules-left-running at design level: EXPECTED TO FAIL CleanEnd
SPECIFICATION Spec
CONSTANTS
  NIf = 2
  Kinds = {"ok", "fail"}
  Req = {"res1"}
  Repaired = FALSE
  FixNoIf = FALSE
  Crashes = FALSE
INVARIANT CleanEnd
CHECK_DEADLOCK FALSE
