\* documents X06-no-interface-modules-left-running (repaired by 98cfad6 = FixNoIf) at design level: without it EXPECTED TO FAIL CleanEnd
SPECIFICATION Spec
CONSTANTS
  NIf = 2
  Kinds = {"ok", "fail"}
  Req = {"res1"}
  Repaired = FALSE
  FixNoIf = FALSE
  Crashes = FALSE
INVARIANT CleanEnd
CHECK_DEADLOCK FALSE
