SPECIFICATION RepSpec
CONSTANTS
  Params = {"p1", "p2"}
  Mod2 = {"p2"}
  Vals = {"a", "b"}
  Errs = {"e1"}
  Invs = {"i1"}
  Conns = {"c1", "c2"}
  OmitChoices = {0, 2}
  InitStamps = {0, 1}
  NoDefault = {"p1"}
  InitScopeSets = {{}, {"all"}}
  HiddenChoices = {{}}
  ActScopes = {"mod"}
  RepKinds = {"ReadOk", "ReadRaise", "ReadInvalid", "AssignInvalid", "Activate", "Deactivate", "Drop"}
  MaxNow = 3
CONSTRAINT TimeBound
INVARIANT TypeOK
INVARIANT StreamReconstructs
PROPERTY Ordered
INVARIANT RecoveryNeverSuppressed
PROPERTY RecoveryAnnounced
PROPERTY Isolation
PROPERTY Frame
PROPERTY ScopeIndependence
CHECK_DEADLOCK FALSE
