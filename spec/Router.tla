------------------------------- MODULE Router -------------------------------
(* X01 (growth).  The SECoP router, frappy/protocol/router.py: several upstream SEC nodes  *)
(* are presented to downstream connections as ONE node.  What a user of the router relies  *)
(* on, written without reference to how the router does it:                                 *)
(*   - the description is the merge of the upstream descriptions (each module once, owned   *)
(*     by the first configured node offering that name; one single node is passed through), *)
(*   - a read / change / do request is answered by exactly the reply or error of the node   *)
(*     owning the module, is sent to that node only, and a request for a module of a node   *)
(*     that cannot be reached is answered with a communication error without waiting,       *)
(*   - the router's cache mirrors the upstream nodes; an activated connection is sent the   *)
(*     cache once on activate and afterwards every upstream update exactly once, in order   *)
(*     (per parameter), under the module name of the node that sent it,                     *)
(*   - a node that stays away is given up after a bounded time: all its parameters then     *)
(*     report a communication error; when it is back its values are announced again,        *)
(*   - a changed description of an upstream node is noticed: a restart is requested (and    *)
(*     only then).                                                                          *)
(* Where these demands are silent the specification is nondeterministic (see the Choice     *)
(* constants and the grey zone of Wait).                                                    *)
EXTENDS Naturals, Sequences, FiniteSets, TLC

CONSTANTS Nodes,       \* upstream node names (strings)
          Order,       \* the nodes in configuration order (sequence without repetitions)
          ModsOf,      \* [Nodes -> set of module names]
          Params,      \* parameter names (every module has all of them)
          Values,      \* abstract values (naturals)
          UpErrs,      \* error classes an upstream node announces / replies
          Conns,       \* downstream connections
          StartDown,   \* nodes that can not be reached while the router starts
          WaitSteps,   \* durations (seconds) of the Wait action
          ReadErrChoice,   \* subset of BOOLEAN: may a failed read put the error into the cache (TRUE) / leave it (FALSE)
          GiveUpErrChoice  \* subset of BOOLEAN: giving up a node replaces (TRUE) / keeps (FALSE) entries that are not values

GiveUpMay == 10        \* a lost node may be given up from this age on (reconnect_timeout) ...
GiveUpMust == 12       \* ... and is given up at this age at the latest
RetryLost == 2         \* a lost node that is reachable again is reconnected within this time
RetryOff == 12         \* a given-up node that is reachable again is reconnected within this time

Keys == UNION {{<<n, m, p>> : m \in ModsOf[n], p \in Params} : n \in Nodes}
KeysOf(n) == {k \in Keys : k[1] = n}

U == [k |-> "u", v |-> 0, e |-> ""]                   \* nothing known
V(x) == [k |-> "v", v |-> x, e |-> ""]                \* value x with the upstream's timestamp
E(c, own) == [k |-> "e", v |-> own, e |-> c]          \* error report of class c; own = 1: stamped by the router
CommErr == E("comm", 1)
UpEntries == {V(x) : x \in Values} \cup {E(c, 0) : c \in UpErrs}
Entries == {U, CommErr} \cup UpEntries \cup {E(c, 1) : c \in UpErrs}

(* ---- static structure: who owns a module name ---- *)
Joined == {n \in Nodes : n \notin StartDown}           \* nodes the router knows the description of
Pos(n) == CHOOSE i \in 1 .. Len(Order) : Order[i] = n
Offering(m) == {n \in Joined : m \in ModsOf[n]}
HasOwner(m) == Offering(m) # {}
Owner(m) == CHOOSE n \in Offering(m) : \A o \in Offering(m) : Pos(n) <= Pos(o)
Visible(k) == HasOwner(k[2]) /\ Owner(k[2]) = k[1]
AllMods == UNION {ModsOf[n] : n \in Nodes}
Transparent == Cardinality(Nodes) = 1

(* the descriptions a describe request may be answered with: one configured node is passed through   *)
(* (its own equipment id and properties); several nodes are merged under the router's identity, each *)
(* module once under the name and with the description of its owner.  While only one of several      *)
(* configured nodes has joined either form is acceptable.                                            *)
JoinedOrder == SelectSeq(Order, LAMBDA n : n \in Joined)
ModOwners == {<<m, Owner(m)>> : m \in {x \in AllMods : HasOwner(x)}}
Merged == [eq |-> "router", parts |-> JoinedOrder, mods |-> ModOwners]
PassedThrough(n) == [eq |-> n, parts |-> <<>>, mods |-> ModOwners]
Descriptions == IF Transparent /\ Joined = Nodes THEN {PassedThrough(Order[1])}
                ELSE {Merged} \cup {PassedThrough(n) : n \in {x \in Joined : Joined = {x}}}

VARIABLES uval,     \* [Keys -> Entries]   what the upstream node itself currently reports
          open,     \* [Nodes -> BOOLEAN]  the upstream node accepts connections
          uver,     \* [Nodes -> Nat]      version of the upstream's description (0 = as at router start)
          st,       \* [Nodes -> {"up", "lost", "off"}]  connected / lost a short time ago / given up
          age,      \* [Nodes -> Nat]      seconds since the connection was lost (0 unless lost)
          cache,    \* [Keys -> Entries]   the router's cache
          active,   \* activated downstream connections
          view,     \* [Conns -> [Keys -> Entries]]  last entry a connection was sent since its activation
          restart,  \* a restart of the router was requested
          last      \* observable outcome of the last step

vars == <<uval, open, uver, st, age, cache, active, view, restart, last>>

NoOut == [c \in Conns |-> [k \in Keys |-> <<>>]]
NoOpt == [c \in Conns |-> {}]
NoRep == [a |-> "none", v |-> 0, e |-> ""]
Quiet(a) == [act |-> a, out |-> NoOut, opt |-> NoOpt, rep |-> NoRep, routed |-> {}]

Init == /\ uval = [k \in Keys |-> U]
        /\ open = [n \in Nodes |-> n \in Joined]
        /\ uver = [n \in Nodes |-> 0]
        /\ st = [n \in Nodes |-> IF n \in Joined THEN "up" ELSE "off"]
        /\ age = [n \in Nodes |-> 0]
        /\ cache = [k \in Keys |-> U]
        /\ active = {}
        /\ view = [c \in Conns |-> [k \in Keys |-> U]]
        /\ restart = FALSE
        /\ last = Quiet("init")

(* send entry sequences (per key) to all activated connections *)
ToActive(seqs) == [c \in Conns |-> [k \in Keys |-> IF c \in active THEN seqs[k] ELSE <<>>]]
Seen(seqs) == [c \in Conns |-> [k \in Keys |->
                 IF c \in active /\ seqs[k] # <<>> THEN seqs[k][Len(seqs[k])] ELSE view[c][k]]]
Single(key, en) == [k \in Keys |-> IF k = key THEN <<en>> ELSE <<>>]

(* ---- the upstream node changes a value (or announces an error) ---- *)
UpUpdate(key, en) ==
    /\ ~restart
    /\ en \in UpEntries
    /\ uval' = [uval EXCEPT ![key] = en]
    /\ IF st[key[1]] = "up" /\ Visible(key)
       THEN /\ cache' = [cache EXCEPT ![key] = en]
            /\ view' = Seen(Single(key, en))
            /\ last' = [Quiet("upd") EXCEPT !.out = ToActive(Single(key, en))]
       ELSE \* not connected: the router learns it when it is back; hidden module: never shown
            /\ UNCHANGED <<cache, view>>
            /\ last' = Quiet("upd")
    /\ UNCHANGED <<open, uver, st, age, active, restart>>

(* ---- the connection to an upstream node breaks / the node refuses connections ---- *)
Close(n) ==
    /\ ~restart
    /\ open[n]
    /\ open' = [open EXCEPT ![n] = FALSE]
    /\ IF st[n] = "up"
       THEN st' = [st EXCEPT ![n] = "lost"] /\ age' = [age EXCEPT ![n] = 0]
       ELSE UNCHANGED <<st, age>>
    /\ last' = Quiet("lose")
    /\ UNCHANGED <<uval, uver, cache, active, view, restart>>

(* ---- the upstream node accepts connections again, possibly with another description ---- *)
Back(n, newver) ==
    /\ ~restart
    /\ ~open[n]
    /\ newver \in {uver[n], 1}
    /\ open' = [open EXCEPT ![n] = TRUE]
    /\ uver' = [uver EXCEPT ![n] = newver]
    /\ last' = Quiet("back")
    /\ UNCHANGED <<uval, st, age, cache, active, view, restart>>

(* effect of (re)connecting to node n on one key: the node announces all it has *)
Burst(S) == [k \in Keys |-> IF k[1] \in S /\ Visible(k) /\ uval[k] # U THEN <<uval[k]>> ELSE <<>>]
Changed(n) == uver[n] # 0 \/ n \notin Joined

(* ---- time passes ---- *)
Wait(d, gone, errs) ==
    \* gone: the lost nodes given up during this wait;  errs: choice for entries that are not values
    LET recon == {n \in Nodes : st[n] # "up" /\ open[n] /\
                                 d >= (IF st[n] = "lost" THEN RetryLost ELSE RetryOff)}
        maybe == {n \in Nodes : st[n] # "up" /\ open[n]} \ recon
        lostaway == {n \in Nodes : st[n] = "lost" /\ ~open[n]}
        same == {n \in recon : ~Changed(n)}
        giveup(en) == IF en.k = "v" \/ errs THEN CommErr ELSE en
        gseq == [k \in Keys |-> IF k[1] \in gone /\ Visible(k) /\ cache[k] # giveup(cache[k])
                                 THEN <<CommErr>> ELSE <<>>]
        bseq == Burst(same)
        seqs == [k \in Keys |-> gseq[k] \o bseq[k]]
    IN /\ ~restart
       /\ d \in WaitSteps
       /\ maybe = {}            \* (a reachable node retried too rarely to say: not modelled)
       /\ gone \subseteq lostaway
       /\ \A n \in lostaway : /\ age[n] + d >= GiveUpMust => n \in gone
                              /\ age[n] + d < GiveUpMay => n \notin gone
       /\ errs \in GiveUpErrChoice
       /\ restart' = (\E n \in recon : Changed(n))
       /\ st' = [n \in Nodes |-> IF n \in recon THEN "up" ELSE IF n \in gone THEN "off" ELSE st[n]]
       /\ age' = [n \in Nodes |-> IF n \in lostaway \ gone THEN age[n] + d ELSE 0]
       /\ cache' = [k \in Keys |-> IF k[1] \in gone /\ Visible(k) THEN giveup(cache[k])
                                   ELSE IF bseq[k] # <<>> THEN uval[k] ELSE cache[k]]
       /\ view' = Seen(seqs)
       /\ last' = [Quiet("wait") EXCEPT !.out = ToActive(seqs)]
       /\ UNCHANGED <<uval, open, uver, active>>

(* ---- requests of a downstream connection ---- *)
Kinds == {"read", "change", "do"}
ReplyOf == [read |-> "reply", change |-> "changed", do |-> "done"]

\* the request is forwarded to the connected owner n, which reacts with value x (ok) or error class ec
Forwarded(c, kind, m, p, arg, ok, x, ec, cached) ==
    LET n == Owner(m)
        key == <<n, m, p>>
        route == {[n |-> n, k |-> kind, m |-> m, p |-> p, arg |-> arg]}
    IN /\ st[n] = "up"
       /\ IF ok
          THEN /\ x \in Values
               /\ IF kind = "do" \/ key \notin Keys
                  THEN /\ UNCHANGED <<uval, cache, view>>
                       /\ last' = [Quiet("req") EXCEPT !.rep = [a |-> ReplyOf[kind], v |-> x, e |-> ""],
                                                       !.routed = route]
                  ELSE /\ uval' = [uval EXCEPT ![key] = V(x)]
                       /\ cache' = [cache EXCEPT ![key] = V(x)]
                       /\ view' = Seen(Single(key, V(x)))
                       /\ last' = [Quiet("req") EXCEPT !.rep = [a |-> ReplyOf[kind], v |-> x, e |-> ""],
                                                       !.routed = route,
                                                       !.out = ToActive(Single(key, V(x))),
                                                       \* telling what is known already is optional
                                                       !.opt = [d \in Conns |-> IF d \in active /\ view[d][key] = V(x)
                                                                                THEN {key} ELSE {}]]
          ELSE /\ ec \in UpErrs
               /\ UNCHANGED uval
               /\ IF kind = "read" /\ key \in Keys /\ cached
                  THEN /\ cache' = [cache EXCEPT ![key] = E(ec, 1)]
                       /\ view' = Seen(Single(key, E(ec, 1)))
                       /\ last' = [Quiet("req") EXCEPT !.rep = [a |-> "error", v |-> 0, e |-> ec], !.routed = route,
                                                       !.out = ToActive(Single(key, E(ec, 1)))]
                  ELSE /\ UNCHANGED <<cache, view>>
                       /\ last' = [Quiet("req") EXCEPT !.rep = [a |-> "error", v |-> 0, e |-> ec], !.routed = route]

Refused(ec) == /\ last' = [Quiet("req") EXCEPT !.rep = [a |-> "error", v |-> 0, e |-> ec]]
               /\ UNCHANGED <<uval, cache, view>>

Request(c, kind, m, p, arg, ok, x, ec, cached) ==
    /\ ~restart
    /\ kind \in Kinds
    /\ cached \in ReadErrChoice
    /\ IF ~HasOwner(m)
       THEN Refused("nomod")                              \* nobody offers this module
       ELSE IF st[Owner(m)] = "up"
       THEN Forwarded(c, kind, m, p, arg, ok, x, ec, cached)
       ELSE /\ ~open[Owner(m)]                            \* (reachable but not yet reconnected: not modelled)
            /\ Refused("comm")                            \* at once, nothing is sent anywhere
    /\ UNCHANGED <<open, uver, st, age, active, restart>>

Activate(c) ==
    /\ ~restart
    /\ active' = active \cup {c}
    /\ view' = [view EXCEPT ![c] = cache]
    /\ last' = [Quiet("act") EXCEPT !.rep = [a |-> "active", v |-> 0, e |-> ""],
                                    !.out = [d \in Conns |-> [k \in Keys |->
                                               IF d = c /\ cache[k] # U THEN <<cache[k]>> ELSE <<>>]]]
    /\ UNCHANGED <<uval, open, uver, st, age, cache, restart>>

Deactivate(c) ==
    /\ ~restart
    /\ active' = active \ {c}
    /\ view' = [view EXCEPT ![c] = [k \in Keys |-> U]]
    /\ last' = [Quiet("deact") EXCEPT !.rep = [a |-> "inactive", v |-> 0, e |-> ""]]
    /\ UNCHANGED <<uval, open, uver, st, age, cache, restart>>

Describe(c) ==
    /\ ~restart
    /\ last' = [Quiet("desc") EXCEPT !.rep = [a |-> "describing", v |-> 0, e |-> ""]]
    /\ UNCHANGED <<uval, open, uver, st, age, cache, active, view, restart>>

ReqMods == AllMods \cup {"zz"}
ReqPars == Params \cup {"go"}
ReqArgs == Values        \* (configurations may narrow these two: which connection asks and the argument sent
ReqConns == Conns        \*  do not influence anything but the record of the forwarded request)
Next ==
    \/ \E k \in Keys, en \in UpEntries : UpUpdate(k, en)
    \/ \E n \in Nodes : Close(n)
    \/ \E n \in Nodes, nv \in 0 .. 1 : Back(n, nv)
    \/ \E d \in WaitSteps, gone \in SUBSET Nodes, errs \in BOOLEAN : Wait(d, gone, errs)
    \/ \E c \in ReqConns, kind \in Kinds, m \in ReqMods, p \in ReqPars, arg \in ReqArgs, ok \in BOOLEAN,
          x \in Values, ec \in UpErrs, cached \in BOOLEAN :
            /\ (kind = "do") = (p = "go")
            /\ (kind = "read" => arg = 0) /\ (ok => ec = CHOOSE e \in UpErrs : TRUE) /\ (~ok => x = CHOOSE v \in Values : TRUE)
            /\ (~(kind = "read" /\ ~ok) => cached)
            /\ Request(c, kind, m, p, arg, ok, x, ec, cached)
    \/ \E c \in Conns : Activate(c) \/ Deactivate(c)
    \/ \E c \in ReqConns : Describe(c)

Spec == Init /\ [][Next]_vars

(* ------------------------------------------------------------------ properties *)
TypeOK == /\ uval \in [Keys -> UpEntries \cup {U}]
          /\ cache \in [Keys -> Entries]
          /\ st \in [Nodes -> {"up", "lost", "off"}]
          /\ active \subseteq Conns
          /\ view \in [Conns -> [Keys -> Entries]]
          /\ restart \in BOOLEAN

(* the update stream (snapshot on activate + updates) always reconstructs the router's cache *)
ViewIsCache == \A c \in active : view[c] = cache

(* while connected the cache mirrors the upstream node (a failed read may be remembered) *)
Mirror == restart \/ \A k \in Keys : st[k[1]] = "up" /\ Visible(k) =>
                         \/ cache[k] = uval[k]
                         \/ uval[k] = U          \* (a parameter the node never announced)
                         \/ cache[k].k = "e" /\ cache[k].v = 1 /\ cache[k].e \in UpErrs

(* a node that was given up shows no value any more *)
GoneShowsNoValue == \A k \in Keys : st[k[1]] = "off" /\ k[1] \in Joined => cache[k].k # "v"

(* nothing of a hidden (name collision) module or of a node that never joined is ever shown *)
HiddenStaysHidden == \A k \in Keys : ~Visible(k) => cache[k] = U /\ \A c \in Conns : last.out[c][k] = <<>>

(* a request goes to the owner of the module and to nobody else, and only when the owner is connected *)
RoutedToOwner == \A r \in last.routed : HasOwner(r.m) /\ r.n = Owner(r.m) /\ st[r.n] = "up"
AtMostOneRoute == Cardinality(last.routed) <= 1

(* only activated connections are sent updates; the activating one the snapshot *)
OnlyActiveReceive == \A c \in Conns : c \notin active => \A k \in Keys : last.out[c][k] = <<>>

(* a restart is requested only when some reachable node differs from what the router knows *)
RestartOnlyIfChanged == restart => \E n \in Nodes : Changed(n) /\ open[n]

(* every update of a connected upstream node reaches every activated connection exactly once *)
ExactlyOnce == [][\A k \in Keys, en \in UpEntries :
                    UpUpdate(k, en) /\ st[k[1]] = "up" /\ Visible(k) =>
                       \A c \in Conns : \A j \in Keys :
                          last'.out[c][j] = IF c \in active /\ j = k THEN <<en>> ELSE <<>>]_vars

(* the snapshot sent on activate is the cache *)
SnapshotIsCache == [][\A c \in Conns : Activate(c) =>
                        \A k \in Keys : last'.out[c][k] = IF cache[k] = U THEN <<>> ELSE <<cache[k]>>]_vars

(* ------------------------------------------------------------------ bounds / layouts used by the configurations *)
Level5 == TLCGet("level") <= 5
Level6 == TLCGet("level") <= 6
Level7 == TLCGet("level") <= 7
Level8 == TLCGet("level") <= 8
Level9 == TLCGet("level") <= 9
OneArg == {0}
OneConn == {"c1"}
ModsB == {"mb"}
ModsAzz == {"ma", "zz"}
OrderAB == <<"A", "B">>
OrderA == <<"A">>
ModsAB == [A |-> {"ma"}, B |-> {"mb"}]          \* two nodes, one module each
ModsA == [A |-> {"ma"}]                         \* one node: passed through
ModsA2 == [A |-> {"ma", "mx"}]                  \* one node, two modules
ModsColl == [A |-> {"ma", "mx"}, B |-> {"mx"}]  \* both nodes offer a module mx: A owns it
=============================================================================
