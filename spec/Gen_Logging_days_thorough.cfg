SPECIFICATION GSpecBoot
CONSTANTS
  Conns = {"c1"}
  Mods = {"m1"}
  Used = {"info", "off"}
  ComMods = {"m1"}
  Configs <- CfgDaysFull
  MaxDay = 4
  Acts = {"emit", "mainemit", "comlog", "nextday"}
  InitLevels = {99}
  Depth = 6
CONSTRAINT Bound
INVARIANT Emit1
CHECK_DEADLOCK FALSE
