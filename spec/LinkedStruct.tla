---------------------------- MODULE LinkedStruct ----------------------------
(* C18 (1): a struct parameter and its member parameters agree member by     *)
(* member after every operation - also after every FAILING operation         *)
(* (frappy/extparams.py StructParam).                                        *)
(*                                                                           *)
(* hw   : what the hardware holds, per member                                *)
(* mem  : cached value of the member parameters                              *)
(* str  : cached value of the struct parameter, per member                   *)
(* merr : members whose parameter currently shows an error instead of a      *)
(*        value,   serr : the struct parameter shows an error                *)
(* ok   : the last operation was accepted                                    *)
(* The update stream is not a separate variable: the property demands that   *)
(* the view a subscribed client reconstructs equals the cache after every    *)
(* operation, so the binding compares the client's view with mem / str and   *)
(* the error flags.                                                          *)
(*                                                                           *)
(* How an access can fail (the driver may raise anything):                   *)
(*  hwmode "clip"   the hardware stores Min(v, HwMax), answers what it stored*)
(*         "refuse" a value above HwMax makes the access method raise        *)
(*  exc             what is raised: "badvalue" / "hardware" (SECoP errors)   *)
(*                  or "other" (ValueError, OSError, ... from the driver)    *)
(*  f               argument of every hardware operation: the member whose   *)
(*                  access fails during this operation ("none": no fault);   *)
(*                  a combined access method fails as a whole                *)
(* A combined write method refuses / fails for the whole struct, member-wise *)
(* methods may have reached other members before the failure (a partial      *)
(* read or write).                                                           *)
(*                                                                           *)
(* The property only speaks about agreement: wherever struct and member both *)
(* show a value, the values are equal (AgreeShown).  Everything else is as   *)
(* loose as a driver with or without combined access methods needs it:       *)
(*  - an operation on ONE member may or may not refresh the other members    *)
(*    from the hardware, may or may not fail because of a fault elsewhere;   *)
(*  - writing ONE member may write the cached values of the other members.   *)
EXTENDS Naturals, FiniteSets, TLC

CONSTANTS Members,    \* member names (strings)
          Vals,       \* values (small naturals) used by operations
          HwMax,      \* largest value the hardware can hold
          HwModes,    \* subset of {"clip", "refuse"}
          Excs        \* subset of {"badvalue", "hardware", "other"}

VARIABLES hwmode, exc, hw, mem, str, merr, serr, ok
svars == <<hwmode, exc, hw, mem, str, merr, serr, ok>>

AllVals == Vals \cup {0}
Fn == [Members -> AllVals]
Const(v) == [m \in Members |-> v]
Store(v) == IF v > HwMax THEN HwMax ELSE v
Refused(v) == hwmode = "refuse" /\ v > HwMax
Faults == Members \cup {"none"}

SInit == /\ hwmode \in HwModes /\ exc \in Excs
         /\ hw = Const(0) /\ ok = TRUE
         /\ mem = hw /\ str = hw      \* after the start-up poll the cache shows the hardware
         /\ merr = {} /\ serr = FALSE

(* ---- what the property demands of every operation ---- *)
AgreeShown == \A k \in Members : (~serr /\ k \notin merr) => str[k] = mem[k]
StrPost == /\ str' \in {s \in Fn : \A k \in Members : s[k] \in {str[k], mem'[k]}}
           /\ AgreeShown'
(* error flags after an operation that did not read with a failure: errors only disappear *)
Shrink(cleared) == /\ merr' \in SUBSET (merr \ cleared)
                   /\ serr' \in {FALSE, serr}
AllClear == merr' = {} /\ serr' = FALSE
AnyFlags == merr' \in SUBSET Members /\ serr' \in BOOLEAN
Frame == UNCHANGED <<hwmode, exc>>

(* other members k # m may keep their cached value or be refreshed *)
Others(m, f, keep, fresh) ==
    \A k \in Members \ {m} : f[k] \in {keep[k], fresh[k]}

(* ---- writes ---- *)
WriteStructFails(v, f) == f # "none" \/ \E m \in Members : Refused(v[m])
WriteStruct(v, f) ==         \* v \in Fn: change <struct> / write_<struct>(v)
    /\ IF WriteStructFails(v, f)
       THEN \* members that do not fail themselves may have reached the hardware and the cache
            /\ hw' \in {h \in Fn : \A m \in Members : IF m = f \/ Refused(v[m]) THEN h[m] = hw[m]
                                                                              ELSE h[m] \in {hw[m], Store(v[m])}}
            /\ mem' \in {g \in Fn : \A m \in Members : g[m] \in {mem[m], hw'[m]}}
            /\ Shrink({}) /\ StrPost /\ ok' = FALSE
       ELSE /\ hw' = [m \in Members |-> Store(v[m])] /\ mem' = hw' /\ str' = hw'
            /\ AllClear /\ ok' = TRUE
    /\ Frame

(* a combined write method sends the cached values of the other members along: one of *)
(* them may be refused by the hardware, then nothing is written                        *)
CarriesRefused(m) == \E k \in Members \ {m} : Refused(str[k])
HwAfterMemberWrite(m, v) ==
    {h \in Fn : /\ h[m] = Store(v)
                /\ \A k \in Members \ {m} : (h[k] = hw[k]) \/ (~Refused(str[k]) /\ h[k] = Store(str[k]))}

WriteMember(m, v, f) ==      \* change <member> / write_<member>(v)
    /\ \/ /\ Refused(v) \/ CarriesRefused(m) \/ f # "none"
          /\ UNCHANGED <<hw, mem, str>> /\ Shrink({}) /\ AgreeShown' /\ ok' = FALSE
       \/ /\ ~Refused(v) /\ f # m
          /\ hw' \in HwAfterMemberWrite(m, v)
          /\ mem' \in {g \in Fn : g[m] = Store(v) /\ Others(m, g, mem, hw')}
          /\ Shrink({m}) /\ StrPost /\ ok' = TRUE
    /\ Frame

(* ---- reads ---- *)
ReadFails(f) ==              \* f was not read; members read before the failure may show the hardware
    /\ f # "none"
    /\ mem' \in {g \in Fn : g[f] = mem[f] /\ \A k \in Members : g[k] \in {mem[k], hw[k]}}
    /\ AnyFlags /\ StrPost /\ ok' = FALSE
    /\ UNCHANGED hw

ReadStruct(f) ==             \* read <struct> / read_<struct>()
    /\ IF f # "none" THEN ReadFails(f)
       ELSE mem' = hw /\ str' = hw /\ AllClear /\ ok' = TRUE /\ UNCHANGED hw
    /\ Frame

ReadMember(m, f) ==          \* read <member> / read_<member>()
    /\ \/ ReadFails(f)
       \/ /\ f # m
          /\ mem' \in {g \in Fn : g[m] = hw[m] /\ Others(m, g, mem, hw)}
          /\ Shrink({m}) /\ StrPost /\ ok' = TRUE
          /\ UNCHANGED hw
    /\ Frame

(* ---- driver updates of the cache ---- *)
AssignMember(m, v) ==        \* driver: self.<member> = v
    /\ mem' = [mem EXCEPT ![m] = v]
    /\ Shrink({m}) /\ StrPost /\ ok' = TRUE
    /\ UNCHANGED hw /\ Frame

AssignStruct(v) ==           \* driver: self.<struct> = v
    /\ mem' = v /\ str' = v /\ AllClear /\ ok' = TRUE /\ UNCHANGED hw /\ Frame

SNext == \/ \E v \in [Members -> Vals], f \in Faults : WriteStruct(v, f)
         \/ \E v \in [Members -> Vals] : AssignStruct(v)
         \/ \E m \in Members, v \in Vals, f \in Faults : WriteMember(m, v, f)
         \/ \E m \in Members, v \in Vals : AssignMember(m, v)
         \/ \E f \in Faults : ReadStruct(f)
         \/ \E m \in Members, f \in Faults : ReadMember(m, f)

SSpec == SInit /\ [][SNext]_svars

(* ---- properties ---- *)
MCDepth4 == TLCGet("level") <= 3      \* state constraint of the quick design check
TypeOK == hw \in Fn /\ mem \in Fn /\ str \in Fn /\ merr \subseteq Members /\ serr \in BOOLEAN
(* without error flags the old formulation: struct = members, member by member *)
Agree == (merr = {} /\ ~serr) => \A m \in Members : str[m] = mem[m]
(* an accepted member write is what the hardware holds and what member and struct show *)
WriteLands == [][\A m \in Members, v \in Vals :
                   (WriteMember(m, v, "none") /\ ok') =>
                      (hw'[m] = Store(v) /\ mem'[m] = hw'[m] /\ m \notin merr' /\ (~serr' => str'[m] = hw'[m]))]_svars
(* a refused value never reaches the hardware *)
RefusedNotStored == [][\A m \in Members : hw'[m] # hw[m] => hw'[m] <= HwMax]_svars
(* a complete read makes cache and hardware equal and removes all errors *)
ReadShowsHw == [][ReadStruct("none") => (mem' = hw /\ str' = hw /\ merr' = {} /\ ~serr')]_svars
(* only writes touch the hardware *)
CacheOpsKeepHw == [][((\E f \in Faults : ReadStruct(f)) \/ (\E m \in Members, f \in Faults : ReadMember(m, f))
                      \/ (\E m \in Members, v \in Vals : AssignMember(m, v))
                      \/ (\E v \in [Members -> Vals] : AssignStruct(v))) => hw' = hw]_svars
(* a failed operation never makes the hardware differ from what was asked or was there *)
FailedWriteOnlyAsked == [][\A v \in [Members -> Vals], f \in Faults :
                             (WriteStruct(v, f) /\ ~ok') => \A m \in Members : hw'[m] \in {hw[m], Store(v[m])}]_svars
=============================================================================
