---------------------------- MODULE LinkedStruct ----------------------------
(* C18 (1): a struct parameter and its member parameters agree member by     *)
(* member after every operation (frappy/extparams.py StructParam).           *)
(*                                                                           *)
(* hw  : what the hardware holds, per member (above HwMax it clips and reports *)
(*       the stored value, or refuses - see hwmode)                          *)
(* mem : cached value of the member parameters                               *)
(* str : cached value of the struct parameter, per member                    *)
(* The update stream is not a separate variable: the property demands that   *)
(* the view a subscribed client reconstructs equals the cache after every    *)
(* operation, so the binding compares the client's view with mem / str.      *)
(*                                                                           *)
(* The property only speaks about agreement.  Everything else is as loose as *)
(* a driver with or without combined access methods needs it:                *)
(*  - reading / writing ONE member may or may not refresh the other members  *)
(*    from the hardware (a combined read method cannot do otherwise);        *)
(*  - writing ONE member may write the cached values of the other members to *)
(*    the hardware (a combined write method cannot do otherwise).            *)
EXTENDS Naturals, FiniteSets, TLC

CONSTANTS Members,    \* member names (strings)
          Vals,       \* values (small naturals) used by operations
          HwMax,      \* largest value the hardware can hold
          HwModes     \* subset of {"clip", "refuse"}: what the hardware does with a value above HwMax

(* hwmode : "clip"   the hardware stores Min(v, HwMax) and answers with what it stored              *)
(*          "refuse" the access method raises an error for that value and stores nothing of it;   *)
(*                   a combined write method refuses the whole struct, member-wise write methods   *)
(*                   may have written other members before the refusal (a partial write)           *)
(* ok     : the last operation was accepted                                                        *)
VARIABLES hwmode, hw, mem, str, ok
svars == <<hwmode, hw, mem, str, ok>>

AllVals == Vals \cup {0}
Fn == [Members -> AllVals]
Const(v) == [m \in Members |-> v]
Store(v) == IF v > HwMax THEN HwMax ELSE v

Refused(v) == hwmode = "refuse" /\ v > HwMax

SInit == /\ hwmode \in HwModes
         /\ hw = Const(0) /\ ok = TRUE
         /\ mem = hw /\ str = hw      \* after the start-up poll the cache shows the hardware

(* other members k # m may keep their cached value or be refreshed *)
Others(m, f, keep, fresh) ==
    \A k \in Members \ {m} : f[k] \in {keep[k], fresh[k]}

WriteStruct(v) ==            \* v \in Fn: change <struct> / write_<struct>(v)
    /\ IF \E m \in Members : Refused(v[m])
       THEN \* refused; members that are not refused themselves may have reached the hardware,
            \* the cache may show them - but struct and members still agree
            /\ hw' \in {h \in Fn : \A m \in Members : IF Refused(v[m]) THEN h[m] = hw[m]
                                                                      ELSE h[m] \in {hw[m], v[m]}}
            /\ mem' \in {f \in Fn : \A m \in Members : f[m] \in {mem[m], hw'[m]}}
            /\ str' = mem' /\ ok' = FALSE
       ELSE hw' = [m \in Members |-> Store(v[m])] /\ mem' = hw' /\ str' = hw' /\ ok' = TRUE
    /\ UNCHANGED hwmode

(* a combined write method sends the cached values of the other members along: one of *)
(* them may be refused by the hardware, then nothing is written                        *)
CarriesRefused(m) == \E k \in Members \ {m} : Refused(str[k])
HwAfterMemberWrite(m, v) ==
    {h \in Fn : /\ h[m] = Store(v)
                /\ \A k \in Members \ {m} : (h[k] = hw[k]) \/ (~Refused(str[k]) /\ h[k] = Store(str[k]))}

WriteMember(m, v) ==         \* change <member> / write_<member>(v)
    /\ \/ /\ Refused(v) \/ CarriesRefused(m)
          /\ UNCHANGED <<hw, mem, str>> /\ ok' = FALSE
       \/ /\ ~Refused(v)
          /\ hw' \in HwAfterMemberWrite(m, v)
          /\ mem' \in {f \in Fn : f[m] = Store(v) /\ Others(m, f, mem, hw')}
          /\ str' = mem' /\ ok' = TRUE
    /\ UNCHANGED hwmode

ReadStruct ==                \* read <struct> / read_<struct>()
    /\ mem' = hw /\ str' = hw /\ ok' = TRUE /\ UNCHANGED <<hw, hwmode>>

ReadMember(m) ==             \* read <member> / read_<member>()
    /\ mem' \in {f \in Fn : f[m] = hw[m] /\ Others(m, f, mem, hw)}
    /\ str' = mem' /\ ok' = TRUE
    /\ UNCHANGED <<hw, hwmode>>

AssignMember(m, v) ==        \* driver: self.<member> = v   (cache only)
    /\ mem' = [mem EXCEPT ![m] = v]
    /\ str' = mem' /\ ok' = TRUE
    /\ UNCHANGED <<hw, hwmode>>

AssignStruct(v) ==           \* driver: self.<struct> = v   (cache only)
    /\ mem' = v /\ str' = v /\ ok' = TRUE /\ UNCHANGED <<hw, hwmode>>

SNext == \/ \E v \in [Members -> Vals] : WriteStruct(v) \/ AssignStruct(v)
         \/ \E m \in Members, v \in Vals : WriteMember(m, v) \/ AssignMember(m, v)
         \/ ReadStruct
         \/ \E m \in Members : ReadMember(m)

SSpec == SInit /\ [][SNext]_svars

(* ---- properties ---- *)
TypeOK == hw \in Fn /\ mem \in Fn /\ str \in Fn
Agree == \A m \in Members : str[m] = mem[m]
(* a value written through either path is what the hardware holds and the cache shows *)
WriteLands == [][\A m \in Members, v \in Vals :
                   (WriteMember(m, v) /\ ok') => (hw'[m] = Store(v) /\ mem'[m] = hw'[m] /\ str'[m] = hw'[m])]_svars
(* a refused value never reaches the hardware *)
RefusedNotStored == [][\A m \in Members : hw'[m] # hw[m] => hw'[m] <= HwMax]_svars
(* a complete read makes cache and hardware equal *)
ReadShowsHw == [][ReadStruct => (mem' = hw /\ str' = hw)]_svars
(* only writes touch the hardware *)
CacheOpsKeepHw == [][(ReadStruct \/ (\E m \in Members : ReadMember(m))
                      \/ (\E m \in Members, v \in Vals : AssignMember(m, v))
                      \/ (\E v \in [Members -> Vals] : AssignStruct(v))) => hw' = hw]_svars
=============================================================================
