---------------------------- MODULE LinkedStruct ----------------------------
(* C18 (1): a struct parameter and its member parameters agree member by     *)
(* member after every operation (frappy/extparams.py StructParam).           *)
(*                                                                           *)
(* hw  : what the hardware holds, per member (it clips at HwMax and reports   *)
(*       the stored value, as real devices round or clip)                    *)
(* mem : cached value of the member parameters                               *)
(* str : cached value of the struct parameter, per member                    *)
(* The update stream is not a separate variable: the property demands that   *)
(* the view a subscribed client reconstructs equals the cache after every    *)
(* operation, so the binding compares the client's view with mem / str.      *)
(*                                                                           *)
(* The property only speaks about agreement.  Everything else is as loose as *)
(* a driver with or without combined access methods needs it:                *)
(*  - reading / writing ONE member may or may not refresh the other members  *)
(*    from the hardware (a combined read method cannot do otherwise);        *)
(*  - writing ONE member may write the cached values of the other members to *)
(*    the hardware (a combined write method cannot do otherwise).            *)
EXTENDS Naturals, FiniteSets, TLC

CONSTANTS Members,    \* member names (strings)
          Vals,       \* values (small naturals) used by operations
          HwMax       \* the hardware stores Min(v, HwMax) and answers with what it stored

VARIABLES hw, mem, str
svars == <<hw, mem, str>>

AllVals == Vals \cup {0}
Fn == [Members -> AllVals]
Const(v) == [m \in Members |-> v]
Store(v) == IF v > HwMax THEN HwMax ELSE v

SInit == /\ hw = Const(0)
         /\ mem = hw /\ str = hw      \* after the start-up poll the cache shows the hardware

(* other members k # m may keep their cached value or be refreshed *)
Others(m, f, keep, fresh) ==
    \A k \in Members \ {m} : f[k] \in {keep[k], fresh[k]}

WriteStruct(v) ==            \* v \in Fn: change <struct> / write_<struct>(v)
    /\ hw' = [m \in Members |-> Store(v[m])] /\ mem' = hw' /\ str' = hw'

WriteMember(m, v) ==         \* change <member> / write_<member>(v)
    /\ hw' \in {h \in Fn : h[m] = Store(v) /\ Others(m, h, hw, [k \in Members |-> Store(str[k])])}
    /\ mem' \in {f \in Fn : f[m] = Store(v) /\ Others(m, f, mem, hw')}
    /\ str' = mem'

ReadStruct ==                \* read <struct> / read_<struct>()
    /\ mem' = hw /\ str' = hw /\ UNCHANGED hw

ReadMember(m) ==             \* read <member> / read_<member>()
    /\ mem' \in {f \in Fn : f[m] = hw[m] /\ Others(m, f, mem, hw)}
    /\ str' = mem'
    /\ UNCHANGED hw

AssignMember(m, v) ==        \* driver: self.<member> = v   (cache only)
    /\ mem' = [mem EXCEPT ![m] = v]
    /\ str' = mem'
    /\ UNCHANGED hw

AssignStruct(v) ==           \* driver: self.<struct> = v   (cache only)
    /\ mem' = v /\ str' = v /\ UNCHANGED hw

SNext == \/ \E v \in [Members -> Vals] : WriteStruct(v) \/ AssignStruct(v)
         \/ \E m \in Members, v \in Vals : WriteMember(m, v) \/ AssignMember(m, v)
         \/ ReadStruct
         \/ \E m \in Members : ReadMember(m)

SSpec == SInit /\ [][SNext]_svars

(* ---- properties ---- *)
TypeOK == hw \in Fn /\ mem \in Fn /\ str \in Fn
Agree == \A m \in Members : str[m] = mem[m]
(* a value written through either path is what the hardware holds and the cache shows *)
WriteLands == [][\A m \in Members, v \in Vals :
                   WriteMember(m, v) => (hw'[m] = Store(v) /\ mem'[m] = hw'[m] /\ str'[m] = hw'[m])]_svars
(* a complete read makes cache and hardware equal *)
ReadShowsHw == [][ReadStruct => (mem' = hw /\ str' = hw)]_svars
(* only writes touch the hardware *)
CacheOpsKeepHw == [][(ReadStruct \/ (\E m \in Members : ReadMember(m))
                      \/ (\E m \in Members, v \in Vals : AssignMember(m, v))
                      \/ (\E v \in [Members -> Vals] : AssignStruct(v))) => hw' = hw]_svars
=============================================================================
