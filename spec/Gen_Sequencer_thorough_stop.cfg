SPECIFICATION GSpec
CONSTANTS
  Kinds = {"d", "ad", "r", "adc"}
  MaxLen = 2
  Hooks = {"none"}
  FaultModes = {"ew"}
  Depth = 14
  MaxStarts = 2
  MaxRefused = 0
  MaxStops = 2
CONSTRAINT Bound
INVARIANT Emit1
CHECK_DEADLOCK FALSE
