SPECIFICATION Spec
CONSTANTS
  Threads = {"a", "b", "w"}
  Script <- Scen_new
  InitEv <- Init_one
  MaxTime = 3
  Inf = 99
  RaisingActs = {}
  FixLock = TRUE
  FixInit = FALSE
  FixIsSet = TRUE
  DetTime = FALSE
  Locked = TRUE
INVARIANT NoError
CHECK_DEADLOCK FALSE
