----------------------------- MODULE ParamCache -----------------------------
(* C05.  The parameter cache of one module and the update stream every        *)
(* subscribed connection receives.                                            *)
(*   frappy/modulebase.py  announceUpdate (the single funnel), the read_*/    *)
(*                         write_* wrappers, frappy/params.py Parameter.__set__*)
(*   frappy/protocol/dispatcher.py  make_update / broadcast_event /           *)
(*                         handle_activate (snapshot)                         *)
(* Every way the cache can change is one action; all of them go through       *)
(* Announce.  What the PROPERTY demands (StreamReconstructs, Ordered,          *)
(* RecoveryAnnounced / RecoveryNeverSuppressed): the messages a subscribed     *)
(* connection received, replayed, give value-or-error AND timestamp of the     *)
(* cache; per parameter they arrive in the order the cache changed, nothing    *)
(* invented; a recovery from an error is always announced.                     *)
(* WHEN an unchanged value / repeated error may be dropped is not part of the  *)
(* property; Suppressed() transcribes the documented parameter semantics       *)
(* (Parameter.update_unchanged: 'always' / 'never' / 'default' / minimum time  *)
(* between updates of equal values; "no updates for repeated errors").  The    *)
(* property itself only requires that a dropped announcement leaves cache AND  *)
(* stream untouched.  AssignInvalid is left open (two allowed outcomes).       *)
(* Time is integer ticks; values and errors are interned ids.                  *)
(* Widened (coverage round): two modules (Mod2 = parameters of the second one, *)
(* scopes "mod"/"mod2"), unexported parameters (hidden: cached, never sent),   *)
(* Deactivate / Drop (ident, disconnect) shrinking the subscription table,     *)
(* announcements with an explicit timestamp (AnnounceAt), nested reads (one    *)
(* driver call announcing two parameters, ReadNested) and the operations that  *)
(* must leave cache and stream untouched (Untouched: read returning Done, read *)
(* without a driver method, refused / failing / Done writes, constant reads).  *)
EXTENDS Naturals, Sequences, FiniteSets, TLC

CONSTANTS Params,       \* parameter names
          Mod2,         \* the parameters that live in the second module (the others in the first)
          Vals,         \* abstract (validated) values
          Errs,         \* errors a driver may raise / a module may announce
          Invs,         \* invalid values (each gives its own validation error)
          Conns,        \* connections (an internal parameter callback is a connection with parameter scopes)
          OmitChoices,  \* suppression windows explored (0 = always, Never = never)
          NoDefault,    \* parameters that start uninitialised (error state, no stamp)
          InitStamps,   \* stamps a start value may carry: 0 (default=, never announced) or Now0 (value=, constant=)
          InitScopeSets, \* possible initial subscription sets of a connection (subsets of Scopes)
          HiddenChoices, \* possible sets of unexported parameters
          ActScopes,    \* scopes used by Activate / Deactivate in the bounded models (subset of Scopes)
          RepKinds,     \* operation kinds explored by RepSpec (one representative per funnel call)
          MaxNow        \* time bound (state constraint of the bounded models)

Ok == "ok"
InitErr == "init"                 \* "parameter not initialized"
Never == 999999999
Now0 == 1
Scopes == {"all", "mod", "mod2"} \cup Params   \* activate / activate m / activate n / activate m:p

(* an error raised inside a nested read reaches the outer parameter with a context prefix in its *)
(* text ("in m.read_p: ..."): same error (class, arguments) - it compares equal - other rendering. *)
(* Errors that are not SECoP errors are re-wrapped per parameter and carry no context.           *)
Nest(e) == CASE e = "e1" -> "n1" [] e = "e2" -> "n2" [] e = "e4" -> "n4"
            [] e = "i1" -> "ni1" [] e = "i2" -> "ni2" [] OTHER -> e
(* (the validation error of the inner parameter handed on to the outer one, ni<k>, is another error *)
(* than the outer parameter's own i<k>: other datatype, other text)                                *)
Base(e) == CASE e = "n1" -> "e1" [] e = "n2" -> "e2" [] e = "n4" -> "e4" [] OTHER -> e
(* the error an outcome stems from, whatever context it picked up on its way *)
Root(e) == CASE e = "ni1" -> "i1" [] e = "ni2" -> "i2" [] OTHER -> Base(e)
AllErrs == Errs \cup Invs \cup {Nest(e) : e \in Errs \cup Invs} \cup {InitErr}

VARIABLES cache,   \* [Params -> [val, err, ts]]
          omit,    \* [Params -> Nat] suppression window per parameter (fixed after Init)
          hidden,  \* unexported parameters (fixed after Init)
          now,     \* clock
          sub,     \* [Conns -> SUBSET Scopes]
          seen,    \* [Conns -> [Params -> view]]: the stream of c replayed (its fold)
          out      \* [Conns -> [Params -> Seq(view)]]: messages delivered by the last step

vars == <<cache, omit, hidden, now, sub, seen, out>>

(* what a message carries / what a client holds for one parameter *)
View(e) == IF e.err # Ok THEN <<"e", e.err, e.ts>> ELSE <<"v", e.val, e.ts>>
Nothing == <<"-", "-", 0>>
(* the cache entry as compared with the implementation's fields: the value is unspecified while in *)
(* error state, the error is identified by class and arguments                                     *)
CV(e) == <<IF e.err # Ok THEN "-" ELSE e.val, Base(e.err), e.ts>>
InScope(sc, p) == \/ sc = "all"
                  \/ sc = "mod" /\ p \notin Mod2
                  \/ sc = "mod2" /\ p \in Mod2
                  \/ sc = p
Listens(s, p) == p \notin hidden /\ \E sc \in s : InScope(sc, p)
Covered(sc) == {p \in Params \ hidden : InScope(sc, p)}
NoOut == [c \in Conns |-> [p \in Params |-> <<>>]]

Init == /\ omit \in [Params -> OmitChoices]
        /\ hidden \in HiddenChoices
        /\ \E v \in Vals, s \in InitStamps :     \* the start value is some catalogue value
             cache = [p \in Params |-> IF p \in NoDefault
                                       THEN [val |-> v, err |-> InitErr, ts |-> 0]
                                       ELSE [val |-> v, err |-> Ok, ts |-> s]]
        /\ now = Now0
        /\ sub \in [Conns -> InitScopeSets]
        /\ seen = [c \in Conns |-> [p \in Params |-> IF Listens(sub[c], p) THEN View(cache[p]) ELSE Nothing]]
        /\ out = NoOut

(* ---- the funnel ---- *)
Suppressed(e, om, tm, v, er) ==
    IF er # Ok THEN Base(er) = Base(e.err)                       \* repeated identical error
               ELSE /\ e.err = Ok /\ e.val = v             \* unchanged within the window; a value that
                    /\ e.ts # 0 /\ tm < e.ts + om           \* was never stamped is infinitely old
NewEntry(e, tm, v, er) ==
    IF er # Ok THEN [val |-> e.val, err |-> er, ts |-> tm]
               ELSE [val |-> v, err |-> Ok, ts |-> tm]

(* one driver call may announce several parameters (nested reads); every parameter goes through *)
(* the funnel on its own.  vf / ef give value and error per parameter.                          *)
AnnounceMany(S, vf(_), ef(_), tm) ==
    LET go(p) == p \in S /\ ~Suppressed(cache[p], omit[p], tm, vf(p), ef(p))
        ne(p) == NewEntry(cache[p], tm, vf(p), ef(p))
    IN /\ cache' = [p \in Params |-> IF go(p) THEN ne(p) ELSE cache[p]]
       /\ seen' = [c \in Conns |-> [p \in Params |->
                      IF go(p) /\ Listens(sub[c], p) THEN View(ne(p)) ELSE seen[c][p]]]
       /\ out' = [c \in Conns |-> [p \in Params |->
                      IF go(p) /\ Listens(sub[c], p) THEN <<View(ne(p))>> ELSE <<>>]]

Announce(p, v, er, tm) ==
    LET vf(q) == v
        ef(q) == er
    IN AnnounceMany({p}, vf, ef, tm)

(* ---- actions; tm is the clock reading the operation sees ---- *)
ReadOk(p, v, tm)      == Announce(p, v, Ok, tm) /\ UNCHANGED <<omit, hidden, sub>>
ReadRaise(p, e, tm)   == e \in Errs /\ Announce(p, cache[p].val, e, tm) /\ UNCHANGED <<omit, hidden, sub>>
ReadInvalid(p, i, tm) == i \in Invs /\ Announce(p, cache[p].val, i, tm) /\ UNCHANGED <<omit, hidden, sub>>
(* the driver is offered v and reports w as the value now in effect (w = v when it returns nothing) *)
Write(p, v, w, tm)    == Announce(p, w, Ok, tm) /\ UNCHANGED <<omit, hidden, sub>>
Assign(p, v, tm)      == Announce(p, v, Ok, tm) /\ UNCHANGED <<omit, hidden, sub>>
AnnounceErr(p, e, tm) == e \in Errs /\ Announce(p, cache[p].val, e, tm) /\ UNCHANGED <<omit, hidden, sub>>
(* assigning a value the datatype rejects: the property is silent - the assignment may be refused *)
(* (nothing changes) or the validation error becomes the cached state (and is then announced)   *)
AssignInvalid(p, i, tm) == /\ i \in Invs
                           /\ \/ Announce(p, cache[p].val, i, tm)
                              \/ UNCHANGED <<cache, seen>> /\ out' = NoOut
                           /\ UNCHANGED <<omit, hidden, sub>>
(* announceUpdate(p, value or error, timestamp = t): the given stamp takes the place of the clock *)
AnnounceAt(p, x, t)   == /\ t > 0
                         /\ IF x \in Vals THEN Announce(p, x, Ok, t) ELSE Announce(p, cache[p].val, x, t)
                         /\ UNCHANGED <<omit, hidden, sub>>
(* read_q's driver calls read_p: p is announced, then q - with the same value, or with the error *)
(* raised by p's driver / the validation error of the value p's driver delivered (which reaches  *)
(* q with its context).  The inner read may be served by a common read handler whose function    *)
(* assigns the refused value: same outcome.                                                      *)
ReadNested(p, q, x, tm) ==
    LET vf(r) == IF x \in Vals THEN x ELSE cache[r].val
        ef(r) == IF x \in Vals THEN Ok ELSE IF r = q THEN Nest(x) ELSE x
    IN /\ p # q
       /\ AnnounceMany({p, q}, vf, ef, tm)
       /\ UNCHANGED <<omit, hidden, sub>>
(* write_q's driver reads p back and that read fails: p is announced, the write fails, q is untouched *)
WriteNested(p, q, x, tm) == /\ p # q /\ x \in Errs \cup Invs
                            /\ Announce(p, cache[p].val, x, tm)
                            /\ UNCHANGED <<omit, hidden, sub>>
(* operations after which neither the cache nor any stream may differ: a read returning Done, a   *)
(* read of a parameter without driver method, a write that is refused / fails / returns Done, the *)
(* read of a constant                                                                              *)
Untouched == out' = NoOut /\ UNCHANGED <<cache, omit, hidden, sub, seen>>

Tick(n) == /\ now' = now + n
           /\ out' = NoOut
           /\ UNCHANGED <<cache, omit, hidden, sub, seen>>

(* activate [m[:p]]: subscription + snapshot of the covered parameters *)
Activate(c, sc) ==
    /\ sc \in Params => sc \notin hidden
    /\ sub' = [sub EXCEPT ![c] = @ \cup {sc}]
    /\ seen' = [seen EXCEPT ![c] = [p \in Params |-> IF p \in Covered(sc) THEN View(cache[p]) ELSE @[p]]]
    /\ out' = [d \in Conns |-> [p \in Params |->
                  IF d = c /\ p \in Covered(sc) THEN <<View(cache[p])>> ELSE <<>>]]
    /\ UNCHANGED <<cache, omit, hidden>>
(* deactivate: without specifier only the general subscription goes, "deactivate m" also removes *)
(* the parameter subscriptions of m, "deactivate m:p" that one                                   *)
Removed(sc) == CASE sc = "all"  -> {"all"}
                 [] sc = "mod"  -> {"mod"} \cup (Params \ Mod2)
                 [] sc = "mod2" -> {"mod2"} \cup Mod2
                 [] OTHER       -> {sc}
(* (what a connection holds for a parameter it no longer listens to is of no interest: forgotten) *)
Forget(c) == seen' = [seen EXCEPT ![c] = [p \in Params |-> IF Listens(sub'[c], p) THEN @[p] ELSE Nothing]]
Deactivate(c, sc) ==
    /\ sub' = [sub EXCEPT ![c] = @ \ Removed(sc)]
    /\ Forget(c)
    /\ out' = NoOut
    /\ UNCHANGED <<cache, omit, hidden>>
(* identification request or disconnect: all subscriptions of c are gone *)
Drop(c) ==
    /\ sub' = [sub EXCEPT ![c] = {}]
    /\ Forget(c)
    /\ out' = NoOut
    /\ UNCHANGED <<cache, omit, hidden>>

(* uniform operation records [a, p, x, y, n] (x: value / error / scope, y: reported value or second *)
(* parameter, n: ticks or explicit stamp)                                                           *)
Do(op, tm) ==
    CASE op.a = "ReadOk"      -> ReadOk(op.p, op.x, tm)
      [] op.a = "ReadRaise"   -> ReadRaise(op.p, op.x, tm)
      [] op.a = "ReadInvalid" -> ReadInvalid(op.p, op.x, tm)
      [] op.a = "Write"       -> Write(op.p, op.x, op.y, tm)
      [] op.a = "Assign"      -> Assign(op.p, op.x, tm)
      [] op.a = "AnnounceErr" -> AnnounceErr(op.p, op.x, tm)
      [] op.a = "AssignInvalid" -> AssignInvalid(op.p, op.x, tm)
      [] op.a = "AnnounceAt"  -> AnnounceAt(op.p, op.x, op.n)
      [] op.a = "ReadNested"  -> ReadNested(op.p, op.y, op.x, tm)
      [] op.a = "WriteNested" -> WriteNested(op.p, op.y, op.x, tm)
      [] op.a = "Untouched"   -> Untouched
      [] op.a = "Activate"    -> Activate(op.p, op.x)
      [] op.a = "Deactivate"  -> Deactivate(op.p, op.x)
      [] op.a = "Drop"        -> Drop(op.p)
      [] OTHER                -> FALSE

OpsOf(p) ==
    {[a |-> "ReadOk", p |-> p, x |-> v, y |-> "-", n |-> 0] : v \in Vals} \cup
    {[a |-> "ReadRaise", p |-> p, x |-> e, y |-> "-", n |-> 0] : e \in Errs} \cup
    {[a |-> "ReadInvalid", p |-> p, x |-> i, y |-> "-", n |-> 0] : i \in Invs} \cup
    {[a |-> "Write", p |-> p, x |-> v, y |-> w, n |-> 0] : v \in Vals, w \in Vals} \cup
    {[a |-> "Assign", p |-> p, x |-> v, y |-> "-", n |-> 0] : v \in Vals} \cup
    {[a |-> "AnnounceErr", p |-> p, x |-> e, y |-> "-", n |-> 0] : e \in Errs} \cup
    {[a |-> "AssignInvalid", p |-> p, x |-> i, y |-> "-", n |-> 0] : i \in Invs} \cup
    {[a |-> "Untouched", p |-> p, x |-> "-", y |-> "-", n |-> 0]}
(* explicit stamps: the bounded models use one tick in the past (traces may carry any stamp) *)
AtOps(p) == {[a |-> "AnnounceAt", p |-> p, x |-> x, y |-> "-", n |-> t] :
                 x \in Vals \cup Errs, t \in (IF now > 1 THEN {now - 1} ELSE {})}
SameModule(p, q) == (p \in Mod2) = (q \in Mod2)
NestOps(p) == {[a |-> "ReadNested", p |-> p, x |-> x, y |-> q, n |-> 0] :
                   x \in Vals \cup Errs \cup Invs, q \in {r \in Params \ {p} : SameModule(p, r)}} \cup
              {[a |-> "WriteNested", p |-> p, x |-> x, y |-> q, n |-> 0] :
                   x \in Errs \cup Invs, q \in {r \in Params \ {p} : SameModule(p, r)}}
ActOps == {[a |-> "Activate", p |-> c, x |-> sc, y |-> "-", n |-> 0] : c \in Conns, sc \in ActScopes}
DeactOps == {[a |-> "Deactivate", p |-> c, x |-> sc, y |-> "-", n |-> 0] : c \in Conns, sc \in ActScopes \cup {"all"}} \cup
            {[a |-> "Drop", p |-> c, x |-> "-", y |-> "-", n |-> 0] : c \in Conns}
AllOps == UNION {OpsOf(p) \cup AtOps(p) \cup NestOps(p) : p \in Params} \cup ActOps \cup DeactOps

Next == \/ \E op \in AllOps : Do(op, now) /\ now' = now
        \/ \E n \in 1 .. 2 : Tick(n)

Spec == Init /\ [][Next]_vars

(* Write / Assign / AnnounceErr are by definition the same funnel calls as ReadOk / ReadRaise: *)
(* the design checks explore one representative operation per distinct funnel call            *)
RepOps == {op \in AllOps : op.a \in RepKinds}
RepNext == \/ \E op \in RepOps : Do(op, now) /\ now' = now
           \/ \E n \in 1 .. 2 : Tick(n)
RepSpec == Init /\ [][RepNext]_vars

TimeBound == now <= MaxNow

(* ---------------- properties ---------------- *)
TypeOK ==
    /\ cache \in [Params -> [val : Vals, err : AllErrs \cup {Ok}, ts : 0 .. MaxNow + 2]]
    /\ omit \in [Params -> OmitChoices]
    /\ hidden \in HiddenChoices
    /\ sub \in [Conns -> SUBSET Scopes]

(* replaying what a subscribed connection received gives value-or-error and stamp of the cache *)
StreamReconstructs ==
    \A c \in Conns, p \in Params : Listens(sub[c], p) => seen[c][p] = View(cache[p])

(* per parameter: every change of the cache is delivered, once, in that order; nothing else is; *)
(* an unexported parameter is never sent                                                        *)
Ordered == [][\A c \in Conns, p \in Params :
                 /\ out'[c][p] \in {<<>>, <<View(cache'[p])>>}
                 /\ (Listens(sub[c], p) /\ View(cache'[p]) # View(cache[p])) => out'[c][p] = <<View(cache'[p])>>
                 /\ (~Listens(sub'[c], p)) => out'[c][p] = <<>>]_vars

(* an announcement without error while the parameter is in error state is never suppressed ... *)
RecoveryNeverSuppressed ==
    \A p \in Params, v \in Vals : cache[p].err # Ok => ~Suppressed(cache[p], omit[p], now, v, Ok)
(* ... and a cleared error state is delivered to every listener with the value and its stamp *)
RecoveryAnnounced == [][\A p \in Params : (cache[p].err # Ok /\ cache'[p].err = Ok) =>
                          \A c \in Conns : Listens(sub[c], p) =>
                               out'[c][p] = <<<<"v", cache'[p].val, cache'[p].ts>>>>]_vars

(* one operation touches one parameter - or two with the same outcome (nested read: both fine, or *)
(* both failing with the error the inner read met) - and only                                    *)
(* the touched parameters are sent                                                             *)
Isolation == [][LET ch == {p \in Params : cache'[p] # cache[p]} IN
                /\ Cardinality(ch) <= 2
                /\ \A p, q \in ch : Root(cache'[p].err) = Root(cache'[q].err)
                /\ cache' # cache => Cardinality({p \in Params : \E c \in Conns : out'[c][p] # <<>>}) <= 2]_vars
(* The reconstruction law holds per activated scope: `seen` of a connection is (re)started by the  *)
(* snapshot of Activate for exactly the covered parameters and forgotten when no scope of the      *)
(* connection covers the parameter any more (Forget), so StreamReconstructs reads: for every       *)
(* parameter inside a currently activated scope, replaying what arrived since that activation      *)
(* gives the cache.  Deactivating one scope never affects another scope of the same or of another  *)
(* connection: only the scopes named by Removed() go, nobody else's table changes.                 *)
ScopeIndependence == [][\A c \in Conns :
                          (sub'[c] # sub[c] /\ sub'[c] \subseteq sub[c] /\ sub'[c] # {}) =>
                              /\ \E sc \in Scopes : sub[c] \ sub'[c] = sub[c] \cap Removed(sc)
                              /\ \A d \in Conns \ {c} : sub'[d] = sub[d] /\ seen'[d] = seen[d]
                              /\ \A p \in Params : Listens(sub'[c], p) => seen'[c][p] = seen[c][p]]_vars
(* subscriptions only change by requests of the connection itself; the settings never change *)
Frame == [][/\ omit' = omit /\ hidden' = hidden
            /\ Cardinality({c \in Conns : sub'[c] # sub[c]}) <= 1
            /\ sub' # sub => cache' = cache]_vars

=============================================================================
