----------------------------- MODULE ParamCache -----------------------------
(* C05.  The parameter cache of one module and the update stream every        *)
(* subscribed connection receives.                                            *)
(*   frappy/modulebase.py  announceUpdate (the single funnel), the read_*/    *)
(*                         write_* wrappers, frappy/params.py Parameter.__set__*)
(*   frappy/protocol/dispatcher.py  make_update / broadcast_event /           *)
(*                         handle_activate (snapshot)                         *)
(* Every way the cache can change is one action; all of them go through       *)
(* Announce.  What the PROPERTY demands (StreamReconstructs, Ordered,          *)
(* RecoveryAnnounced / RecoveryNeverSuppressed): the messages a subscribed     *)
(* connection received, replayed, give value-or-error AND timestamp of the     *)
(* cache; per parameter they arrive in the order the cache changed, nothing    *)
(* invented; a recovery from an error is always announced.                     *)
(* WHEN an unchanged value / repeated error may be dropped is not part of the  *)
(* property; Suppressed() transcribes the documented parameter semantics       *)
(* (Parameter.update_unchanged: 'always' / 'never' / 'default' / minimum time  *)
(* between updates of equal values; "no updates for repeated errors").  The    *)
(* property itself only requires that a dropped announcement leaves cache AND  *)
(* stream untouched.  AssignInvalid is left open (two allowed outcomes).       *)
(* Time is integer ticks; values and errors are interned ids.                  *)
EXTENDS Naturals, Sequences, FiniteSets, TLC

CONSTANTS Params,       \* parameter names
          Vals,         \* abstract (validated) values
          Errs,         \* errors a driver may raise / a module may announce
          Invs,         \* invalid values (each gives its own validation error)
          Conns,        \* connections
          OmitChoices,  \* suppression windows explored (0 = always, Never = never)
          NoDefault,    \* parameters that start uninitialised (error state, no stamp)
          InitStamps,   \* stamps a start value may carry: 0 (default=, never announced) or Now0 (value=)
          InitScopeSets, \* possible initial subscription sets of a connection (subsets of Scopes)
          ActScopes,    \* scopes used by Activate in the bounded models (subset of Scopes)
          MaxNow        \* time bound (state constraint of the bounded models)

Ok == "ok"
InitErr == "init"                 \* "parameter not initialized"
AllErrs == Errs \cup Invs \cup {InitErr}
Never == 999999999
Now0 == 1
Scopes == {"all", "mod"} \cup Params   \* activate / activate m / activate m:p

VARIABLES cache,   \* [Params -> [val, err, ts]]
          omit,    \* [Params -> Nat] suppression window per parameter (fixed after Init)
          now,     \* clock
          sub,     \* [Conns -> SUBSET Scopes]
          seen,    \* [Conns -> [Params -> view]]: the stream of c replayed (its fold)
          out      \* [Conns -> [Params -> Seq(view)]]: messages delivered by the last step

vars == <<cache, omit, now, sub, seen, out>>

(* what a message carries / what a client holds for one parameter *)
View(e) == IF e.err # Ok THEN <<"e", e.err, e.ts>> ELSE <<"v", e.val, e.ts>>
Nothing == <<"-", "-", 0>>
(* the cache entry as compared with the implementation: the value is unspecified while in error state *)
CV(e) == <<IF e.err # Ok THEN "-" ELSE e.val, e.err, e.ts>>
Listens(s, p) == "all" \in s \/ "mod" \in s \/ p \in s
Covered(sc) == IF sc \in {"all", "mod"} THEN Params ELSE {sc}
NoOut == [c \in Conns |-> [p \in Params |-> <<>>]]

Init == /\ omit \in [Params -> OmitChoices]
        /\ \E v \in Vals, s \in InitStamps :     \* the start value is some catalogue value
             cache = [p \in Params |-> IF p \in NoDefault
                                       THEN [val |-> v, err |-> InitErr, ts |-> 0]
                                       ELSE [val |-> v, err |-> Ok, ts |-> s]]
        /\ now = Now0
        /\ sub \in [Conns -> InitScopeSets]
        /\ seen = [c \in Conns |-> [p \in Params |-> IF Listens(sub[c], p) THEN View(cache[p]) ELSE Nothing]]
        /\ out = NoOut

(* ---- the funnel ---- *)
Suppressed(e, om, tm, v, er) ==
    IF er # Ok THEN er = e.err                                   \* repeated identical error
               ELSE e.err = Ok /\ e.val = v /\ tm < e.ts + om    \* unchanged within the window
NewEntry(e, tm, v, er) ==
    IF er # Ok THEN [val |-> e.val, err |-> er, ts |-> tm]
               ELSE [val |-> v, err |-> Ok, ts |-> tm]

Announce(p, v, er, tm) ==
    IF Suppressed(cache[p], omit[p], tm, v, er)
    THEN /\ UNCHANGED <<cache, seen>>
         /\ out' = NoOut
    ELSE LET ne == NewEntry(cache[p], tm, v, er) IN
         /\ cache' = [cache EXCEPT ![p] = ne]
         /\ seen' = [c \in Conns |-> IF Listens(sub[c], p) THEN [seen[c] EXCEPT ![p] = View(ne)] ELSE seen[c]]
         /\ out' = [c \in Conns |-> [q \in Params |->
                       IF q = p /\ Listens(sub[c], p) THEN <<View(ne)>> ELSE <<>>]]

(* ---- actions; tm is the clock reading the operation sees ---- *)
ReadOk(p, v, tm)      == Announce(p, v, Ok, tm) /\ UNCHANGED <<omit, sub>>
ReadRaise(p, e, tm)   == e \in Errs /\ Announce(p, cache[p].val, e, tm) /\ UNCHANGED <<omit, sub>>
ReadInvalid(p, i, tm) == i \in Invs /\ Announce(p, cache[p].val, i, tm) /\ UNCHANGED <<omit, sub>>
(* the driver is offered v and reports w as the value now in effect (w = v when it returns nothing) *)
Write(p, v, w, tm)    == Announce(p, w, Ok, tm) /\ UNCHANGED <<omit, sub>>
Assign(p, v, tm)      == Announce(p, v, Ok, tm) /\ UNCHANGED <<omit, sub>>
AnnounceErr(p, e, tm) == e \in Errs /\ Announce(p, cache[p].val, e, tm) /\ UNCHANGED <<omit, sub>>
(* assigning a value the datatype rejects: the property is silent - the assignment may be refused *)
(* (nothing changes) or the validation error becomes the cached state (and is then announced)   *)
AssignInvalid(p, i, tm) == /\ i \in Invs
                           /\ \/ Announce(p, cache[p].val, i, tm)
                              \/ UNCHANGED <<cache, seen>> /\ out' = NoOut
                           /\ UNCHANGED <<omit, sub>>

Tick(n) == /\ now' = now + n
           /\ out' = NoOut
           /\ UNCHANGED <<cache, omit, sub, seen>>

(* activate [m[:p]]: subscription + snapshot of the covered parameters *)
Activate(c, sc) ==
    /\ sub' = [sub EXCEPT ![c] = @ \cup {sc}]
    /\ seen' = [seen EXCEPT ![c] = [p \in Params |-> IF p \in Covered(sc) THEN View(cache[p]) ELSE @[p]]]
    /\ out' = [d \in Conns |-> [p \in Params |->
                  IF d = c /\ p \in Covered(sc) THEN <<View(cache[p])>> ELSE <<>>]]
    /\ UNCHANGED <<cache, omit>>

(* uniform operation records [a, p, x, y, n] (x: value / error / scope, y: reported value, n: ticks) *)
Do(op, tm) ==
    CASE op.a = "ReadOk"      -> ReadOk(op.p, op.x, tm)
      [] op.a = "ReadRaise"   -> ReadRaise(op.p, op.x, tm)
      [] op.a = "ReadInvalid" -> ReadInvalid(op.p, op.x, tm)
      [] op.a = "Write"       -> Write(op.p, op.x, op.y, tm)
      [] op.a = "Assign"      -> Assign(op.p, op.x, tm)
      [] op.a = "AnnounceErr" -> AnnounceErr(op.p, op.x, tm)
      [] op.a = "AssignInvalid" -> AssignInvalid(op.p, op.x, tm)
      [] op.a = "Activate"    -> Activate(op.p, op.x)
      [] OTHER                -> FALSE

OpsOf(p) ==
    {[a |-> "ReadOk", p |-> p, x |-> v, y |-> "-", n |-> 0] : v \in Vals} \cup
    {[a |-> "ReadRaise", p |-> p, x |-> e, y |-> "-", n |-> 0] : e \in Errs} \cup
    {[a |-> "ReadInvalid", p |-> p, x |-> i, y |-> "-", n |-> 0] : i \in Invs} \cup
    {[a |-> "Write", p |-> p, x |-> v, y |-> w, n |-> 0] : v \in Vals, w \in Vals} \cup
    {[a |-> "Assign", p |-> p, x |-> v, y |-> "-", n |-> 0] : v \in Vals} \cup
    {[a |-> "AnnounceErr", p |-> p, x |-> e, y |-> "-", n |-> 0] : e \in Errs} \cup
    {[a |-> "AssignInvalid", p |-> p, x |-> i, y |-> "-", n |-> 0] : i \in Invs}
ActOps == {[a |-> "Activate", p |-> c, x |-> sc, y |-> "-", n |-> 0] : c \in Conns, sc \in ActScopes}
AllOps == UNION {OpsOf(p) : p \in Params} \cup ActOps

Next == \/ \E op \in AllOps : Do(op, now) /\ now' = now
        \/ \E n \in 1 .. 2 : Tick(n)

Spec == Init /\ [][Next]_vars

(* Write / Assign / AnnounceErr are by definition the same funnel calls as ReadOk / ReadRaise: *)
(* the quick design check explores one representative operation per distinct funnel call      *)
RepOps == {op \in AllOps : op.a \in {"ReadOk", "ReadRaise", "ReadInvalid", "AssignInvalid", "Activate"}}
RepNext == \/ \E op \in RepOps : Do(op, now) /\ now' = now
           \/ \E n \in 1 .. 2 : Tick(n)
RepSpec == Init /\ [][RepNext]_vars

TimeBound == now <= MaxNow

(* ---------------- properties ---------------- *)
TypeOK ==
    /\ cache \in [Params -> [val : Vals, err : AllErrs \cup {Ok}, ts : 0 .. MaxNow + 2]]
    /\ omit \in [Params -> OmitChoices]
    /\ sub \in [Conns -> SUBSET Scopes]

(* replaying what a subscribed connection received gives value-or-error and stamp of the cache *)
StreamReconstructs ==
    \A c \in Conns, p \in Params : Listens(sub[c], p) => seen[c][p] = View(cache[p])

(* per parameter: every change of the cache is delivered, once, in that order; nothing else is *)
Ordered == [][\A c \in Conns, p \in Params :
                 /\ out'[c][p] \in {<<>>, <<View(cache'[p])>>}
                 /\ (Listens(sub[c], p) /\ View(cache'[p]) # View(cache[p])) => out'[c][p] = <<View(cache'[p])>>
                 /\ (~Listens(sub'[c], p)) => out'[c][p] = <<>>]_vars

(* an announcement without error while the parameter is in error state is never suppressed ... *)
RecoveryNeverSuppressed ==
    \A p \in Params, v \in Vals : cache[p].err # Ok => ~Suppressed(cache[p], omit[p], now, v, Ok)
(* ... and a cleared error state is delivered to every listener with the value and the current stamp *)
RecoveryAnnounced == [][\A p \in Params : (cache[p].err # Ok /\ cache'[p].err = Ok) =>
                          /\ cache'[p].ts = now
                          /\ \A c \in Conns : Listens(sub[c], p) => out'[c][p] = <<<<"v", cache'[p].val, now>>>>]_vars

(* one operation touches one parameter; stamps never go back *)
Isolation == [][/\ Cardinality({p \in Params : cache'[p] # cache[p]}) <= 1
                /\ \A c \in Conns, p \in Params :
                      (out'[c][p] # <<>> /\ cache' # cache) => cache'[p] # cache[p]]_vars
StampMonotone == [][\A p \in Params : cache'[p].ts >= cache[p].ts /\ cache'[p].ts <= now]_vars

=============================================================================
