--------------------------- MODULE Trace_Sequencer ---------------------------
(* code -> spec: executions of the real SequencerMixin (client threads + the sequence thread under *)
(* the deterministic scheduler) must be behaviours of Sequencer.  One event per action; the only   *)
(* freedom is what the base specification leaves open plus:                                         *)
(*   - between start_b and start_e of an accepted start (the thread exists, the caller has not yet  *)
(*     returned) a concurrent stop may be lost and a concurrent status may still be IDLE,           *)
(*   - Dev_LateStop, Dev_EndBeforeHandle: named deviations of the code as it stood before the        *)
(*     repairs cc0eb0a / 5015899 (a trace that needs one is reported, never silently accepted).  Dev_EndBeforeHandle: a sequence that is over before         *)
(*     start_sequence has stored the thread handle leaves the handle of a thread that still has to   *)
(*     poll: until that poll is done read_status says BUSY (also in that very poll, so the status    *)
(*     parameter stays BUSY) and start_sequence is refused.                                           *)
EXTENDS Sequencer, Json, IOUtils, TLCExt, SequencesExt, Integers
Traces == JsonDeserialize(IOEnv.TRACE_FILE)
NT == Len(Traces)
VARIABLES t, l, devs, starting, runid, stopAt, ghost
tvars == <<t, l, devs, starting, runid, stopAt, ghost>>
ASSUME \A j \in 1 .. NT : TLCSet(j, 1)
Ev == Traces[t][l]

TInit == SInit /\ t \in 1 .. NT /\ l = 1 /\ devs = {} /\ starting = "no" /\ runid = 0 /\ stopAt = -1 /\ ghost = FALSE

ObsStatus(e) == [code |-> e.code, word |-> e.word, k |-> e.k]
SameStatus(a, b) == a.code = b.code /\ (a.code # "BUSY" => (a.word = b.word /\ a.k = b.k))
(* a stopped / failed / finished sequence thread is gone at most one wait time after the stop was accepted *)
(* (event times are in half ticks) *)
EndInTime == (pc' = "none" /\ stopflag /\ stopAt >= 0) => Ev.vt <= stopAt + 2 * MaxWait

Settled == (~alive /\ owed = 0 /\ starting = "no") => cached.code # "BUSY"

TStep ==
  /\ l <= Len(Traces[t])
  /\ l' = l + 1 /\ t' = t
  /\ \/ /\ Ev.ev = "init" /\ fm = Ev.fm /\ hook = Ev.hook /\ UNCHANGED <<svars, devs, starting, runid, stopAt, ghost>>
     \/ /\ Ev.ev = "start_b" /\ starting = "no"
        /\ \/ Start(Ev.seq) /\ UNCHANGED devs
           \/ ghost /\ ~alive /\ Refuse /\ devs' = devs \cup {"Dev_EndBeforeHandle"}
        /\ starting' = IF last'.ok THEN "ok" ELSE "refused"
        /\ runid' = IF last'.ok THEN Ev.id ELSE runid
        /\ stopAt' = IF last'.ok THEN -1 ELSE stopAt
        /\ UNCHANGED ghost
     \/ /\ Ev.ev = "start_e" /\ starting # "no" /\ Ev.ok = (starting = "ok")
        /\ starting' = "no"
        /\ ghost' = IF starting = "ok" THEN (pc = "none" /\ owed > 0) ELSE ghost
        /\ UNCHANGED <<svars, devs, runid, stopAt>>
     \/ /\ Ev.ev = "stop"
        /\ \/ Stop
           \/ starting = "ok" /\ UNCHANGED svars
        /\ stopAt' = IF stopflag' /\ ~stopflag THEN Ev.vt ELSE stopAt
        /\ UNCHANGED <<devs, starting, runid, ghost>>
     \/ /\ Ev.ev = "call" /\ pc = "call" /\ Ev.k = k /\ Ev.i = i /\ Ev.n = n + 1 /\ Ev.run = runid /\ Ev.id = runid
        /\ Call
        /\ UNCHANGED <<devs, starting, runid, stopAt, ghost>>
     \/ /\ Ev.ev = "ret" /\ pc = "in" /\ Ev.k = k /\ Ev.i = i /\ Ev.res = Script(seq[k])[i + 1]
        /\ Ret /\ EndInTime
        /\ UNCHANGED <<devs, starting, runid, stopAt, ghost>>
     \/ /\ Ev.ev = "wake" /\ pc = "sleep" /\ Ev.d = Wait(seq[k])
        /\ \/ Wake /\ EndInTime /\ UNCHANGED devs
           \/ Dev_LateStop /\ devs' = devs \cup {"Dev_LateStop"}
        /\ UNCHANGED <<starting, runid, stopAt, ghost>>
     \/ /\ Ev.ev = "cleanup" /\ pc = "cleanup" /\ Ev.k = k /\ Ev.res = Cleanup(seq[k]) /\ Ev.again = (res = "again")
        /\ CleanupAct /\ EndInTime
        /\ UNCHANGED <<devs, starting, runid, stopAt, ghost>>
     \/ /\ Ev.ev = "status"
        /\ \/ /\ IF starting = "ok" THEN Ev.code \in {"BUSY", "IDLE"}
                 ELSE /\ Ev.code = Status.code
                      /\ TextBinding(pc) => (Ev.word = Status.word /\ Ev.k = Status.k)
              /\ UNCHANGED devs
           \/ ghost /\ ~alive /\ Ev.code = "BUSY" /\ devs' = devs \cup {"Dev_EndBeforeHandle"}
        /\ cached' = ObsStatus(Ev)
        /\ UNCHANGED <<seq, k, i, n, pc, res, stopflag, out, owed, last, fm, hook, starting, runid, stopAt, ghost>>
     \/ /\ Ev.ev = "end" /\ owed > 0 /\ owed' = owed - 1      \* (its poll was the preceding status event of th = seq)
        /\ ghost' = (ghost /\ owed' > 0)
        /\ UNCHANGED <<seq, k, i, n, pc, res, stopflag, out, cached, last, fm, hook, devs, starting, runid, stopAt>>
     \/ /\ Ev.ev = "quiet" /\ pc = "none" /\ owed = 0 /\ starting = "no"     \* all threads are gone
        /\ SameStatus(Ev.cached, cached)
        /\ SameStatus(Ev.live, Status)
        /\ UNCHANGED <<svars, devs, starting, runid, stopAt, ghost>>
  (* when no sequence is alive and every finished thread has polled, the status parameter is not BUSY *)
  /\ Settled' \/ "Dev_EndBeforeHandle" \in devs'

TSpec == TInit /\ [][TStep]_<<svars, tvars>>

Track == TLCSet(t, IF l > TLCGet(t) THEN l ELSE TLCGet(t))
Done == (l = Len(Traces[t]) + 1) => PrintT(<<"DEVS", t, ToJson(devs)>>)
Verdicts == \A j \in 1 .. NT :
   IF TLCGet(j) = Len(Traces[j]) + 1 THEN PrintT(<<"ACCEPT", j>>)
   ELSE PrintT(<<"REJECT", j, TLCGet(j), "event not allowed by Sequencer">>)
=============================================================================
