SPECIFICATION TSpec
CONSTANTS
  Members = {"p", "q", "r"}
  Vals = {1, 2, 3, 4, 5, 6, 7, 8, 9}
  HwMax = 7
  HwModes = {"clip", "refuse"}
CONSTRAINT Track
POSTCONDITION Verdicts
CHECK_DEADLOCK FALSE
