---------------------------- MODULE Trace_Dispatch ----------------------------
(* code -> spec.  Recorded executions of the real dispatcher / modules are judged event  *)
(* by event: the first event of a trace is the shape (with the observed initial cache),  *)
(* every further event a request with everything observed.  For each event the outcome   *)
(* the specification demands in the current state is computed and compared clause by      *)
(* clause; a broken clause is printed as <<"DEV", t, l, clause>> and validation goes on   *)
(* from the OBSERVED cache, so that every event of every trace gets a verdict.            *)
EXTENDS Dispatch, Json, IOUtils, TLCExt
Traces == JsonDeserialize(IOEnv.TRACE_FILE)
NT == Len(Traces)
VARIABLES t, l

Ev == Traces[t][l]
TInit == /\ t \in 1 .. NT
         /\ l = 2
         /\ shape = Traces[t][1].shape
         /\ cache = Traces[t][1].cache
         /\ rerr = InitErr(Traces[t][1].shape)
         /\ last = Outcome(NoReq, Ok(Null), NoCalls, Null, Null)
         /\ (Traces[t][1].cache # InitCache(Traces[t][1].shape) => PrintT(<<"DEV", t, 1, "init.cache">>))

Broken(e, R) ==   \* the first clause of the demanded outcome R that the observed event e breaks, "" if none
  LET o == R.out IN
  IF o.reply.ok /\ e.cls # "ok" THEN "reply.class"
  ELSE IF ~o.reply.ok /\ e.cls \notin o.reply.cls THEN "reply.class"
  ELSE IF o.reply.ok /\ e.value # o.reply.v THEN "reply.value"
  ELSE IF e.calls # o.calls THEN "driver.calls"
  ELSE IF \E i \in 1 .. Len(e.hookargs) : e.hookargs[i] # o.hookarg THEN "hook.arg"
  ELSE IF e.cache # R.cache THEN "cache"
  ELSE IF e.rerr # R.rerr THEN "readerror"           \* the read-error state of the parameters
  ELSE IF \E m \in DOMAIN shape : \E a \in Params(m) : ~InDatainfo(shape[m][a].dt, e.cache[m][a]) THEN "cache.datainfo"
  ELSE IF o.hassnap /\ SeqSet(e.upd) # o.snap THEN "snapshot"       \* activate: exactly the snapshot updates
  ELSE IF ~o.hassnap /\ (IF o.upd = Null THEN e.upd # <<>> ELSE \E i \in 1 .. Len(e.upd) : e.upd[i] # o.upd) THEN "updates"
  ELSE ""

TStep ==
  /\ l <= Len(Traces[t])
  /\ LET R == Result(cache, rerr, Ev.req)
         b == Broken(Ev, R)
     IN /\ (b # "" => PrintT(<<"DEV", t, l, b>>))
        /\ last' = R.out
  \* go on from the observed cache - unless it holds something that is no value at all (then from the demanded one)
  /\ cache' = IF \A m \in DOMAIN shape : \A a \in Params(m) : InDatainfo(shape[m][a].dt, Ev.cache[m][a])
              THEN Ev.cache ELSE Result(cache, rerr, Ev.req).cache
  /\ rerr' = Ev.rerr
  /\ (l = Len(Traces[t]) => PrintT(<<"END", t, l>>))
  /\ l' = l + 1 /\ t' = t
  /\ UNCHANGED shape

TSpec == TInit /\ [][TStep]_<<vars, t, l>>
=============================================================================
