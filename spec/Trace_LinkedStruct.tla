------------------------- MODULE Trace_LinkedStruct -------------------------
(* code -> spec: recorded executions of real modules built from StructParam   *)
(* (random layouts, three members, values 0..9, long histories) must be       *)
(* behaviours of LinkedStruct.  Event 1 of a trace is the state observed      *)
(* after the start-up poll; every further event is one operation with the     *)
(* state observed after it: hw, mem, str, the client's view of the update     *)
(* stream (vmem, vstr) and the value replied / returned (rep).                *)
EXTENDS LinkedStruct, Json, IOUtils, TLCExt, Sequences
Traces == JsonDeserialize(IOEnv.TRACE_FILE)
NT == Len(Traces)
VARIABLES t, l
ASSUME \A i \in 1 .. NT : TLCSet(i, 1)
Ev == Traces[t][l]

ViewOK(e) == e.vmem = e.mem /\ e.vstr = e.str      \* the stream reconstructs the cache

TInit == /\ t \in 1 .. NT /\ l = 2
         /\ LET e == Traces[t][1] IN
              /\ e.hwmax = HwMax /\ hwmode = e.hwmode /\ ok = TRUE
              /\ hw = e.hw /\ mem = e.mem /\ str = e.str
              /\ hw \in Fn /\ mem = hw /\ str = hw /\ ViewOK(e)

TStep ==
  /\ l <= Len(Traces[t])
  /\ l' = l + 1 /\ t' = t
  /\ hw' = Ev.hw /\ mem' = Ev.mem /\ str' = Ev.str /\ ok' = Ev.ok
  /\ hw' \in Fn /\ mem' \in Fn /\ str' \in Fn
  /\ ViewOK(Ev)
  /\ \/ Ev.ev = "ws" /\ WriteStruct(Ev.v) /\ (ok' => Ev.rep = str')
     \/ Ev.ev = "as" /\ AssignStruct(Ev.v)
     \/ Ev.ev = "wm" /\ WriteMember(Ev.m, Ev.v) /\ (ok' => Ev.rep = mem'[Ev.m])
     \/ Ev.ev = "am" /\ AssignMember(Ev.m, Ev.v)
     \/ Ev.ev = "rs" /\ ReadStruct /\ Ev.rep = str'
     \/ Ev.ev = "rm" /\ ReadMember(Ev.m) /\ Ev.rep = mem'[Ev.m]
  /\ Agree'

TSpec == TInit /\ [][TStep]_<<svars, t, l>>
Track == TLCSet(t, IF l > TLCGet(t) THEN l ELSE TLCGet(t))
Verdicts == \A i \in 1 .. NT :
   IF TLCGet(i) = Len(Traces[i]) + 1 THEN PrintT(<<"ACCEPT", i>>)
   ELSE PrintT(<<"REJECT", i, TLCGet(i), "event not explained by LinkedStruct">>)
=============================================================================
