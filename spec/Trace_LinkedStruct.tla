------------------------- MODULE Trace_LinkedStruct -------------------------
(* code -> spec: recorded executions of real modules built from StructParam   *)
(* (both layouts, three members, values 0..9, long histories, clipping or     *)
(* refusing hardware, faults on single members, all exception flavours; also  *)
(* the short sequences with faults enumerated by Gen_LinkedStruct/FGSpec)     *)
(* must be behaviours of LinkedStruct.  Event 1 of a trace is the state       *)
(* observed after the start-up poll; every further event is one operation     *)
(* (f = the member whose hardware access failed during it, "none" otherwise)  *)
(* with the state observed after it: hw, mem, str, merr (members showing an   *)
(* error), serr, ok, the client's view of the update stream (vmem, vstr; -1 / *)
(* -3 where an error report was the last thing delivered) and the value       *)
(* replied / returned (rep).                                                  *)
EXTENDS LinkedStruct, Json, IOUtils, TLCExt, Sequences, SequencesExt
Traces == JsonDeserialize(IOEnv.TRACE_FILE)
NT == Len(Traces)
VARIABLES t, l
ASSUME \A i \in 1 .. NT : TLCSet(i, 1)
Ev == Traces[t][l]

(* the stream reconstructs the cache: value where a value is shown, error report where an error is shown *)
ViewOK(e) == /\ \A k \in Members : e.vmem[k] = (IF k \in ToSet(e.merr) THEN 0 - 1 ELSE e.mem[k])
             /\ \A k \in Members : e.vstr[k] = (IF e.serr THEN 0 - 3 ELSE e.str[k])

TInit == /\ t \in 1 .. NT /\ l = 2
         /\ LET e == Traces[t][1] IN
              /\ e.hwmax = HwMax /\ hwmode = e.hwmode /\ exc = e.exc /\ ok = TRUE
              /\ hw = e.hw /\ mem = e.mem /\ str = e.str /\ merr = ToSet(e.merr) /\ serr = e.serr
              /\ hw \in Fn /\ mem = hw /\ str = hw /\ merr = {} /\ ~serr /\ ViewOK(e)

TStep ==
  /\ l <= Len(Traces[t])
  /\ l' = l + 1 /\ t' = t
  /\ hw' = Ev.hw /\ mem' = Ev.mem /\ str' = Ev.str /\ merr' = ToSet(Ev.merr) /\ serr' = Ev.serr /\ ok' = Ev.ok
  /\ hw' \in Fn /\ mem' \in Fn /\ str' \in Fn
  /\ ViewOK(Ev)
  /\ \/ Ev.ev = "ws" /\ WriteStruct(Ev.v, Ev.f) /\ (ok' => Ev.rep = str')
     \/ Ev.ev = "as" /\ AssignStruct(Ev.v)
     \/ Ev.ev = "wm" /\ WriteMember(Ev.m, Ev.v, Ev.f) /\ (ok' => Ev.rep = mem'[Ev.m])
     \/ Ev.ev = "am" /\ AssignMember(Ev.m, Ev.v)
     \/ Ev.ev = "rs" /\ ReadStruct(Ev.f) /\ (ok' => Ev.rep = str')
     \/ Ev.ev = "rm" /\ ReadMember(Ev.m, Ev.f) /\ (ok' => Ev.rep = mem'[Ev.m])
  /\ AgreeShown'

TSpec == TInit /\ [][TStep]_<<svars, t, l>>
Track == TLCSet(t, IF l > TLCGet(t) THEN l ELSE TLCGet(t))
Verdicts == \A i \in 1 .. NT :
   IF TLCGet(i) = Len(Traces[i]) + 1 THEN PrintT(<<"ACCEPT", i>>)
   ELSE PrintT(<<"REJECT", i, TLCGet(i), "event not explained by LinkedStruct">>)
=============================================================================
