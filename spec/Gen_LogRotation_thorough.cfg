SPECIFICATION GSpec
CONSTANTS
  MaxDay = 12
  Retentions = {0, 1, 2, 3, 4, 5}
  StartDay = 6
  Depth = 3
CONSTRAINT Bound
INVARIANT Emit1
CHECK_DEADLOCK FALSE
