------------------------------ MODULE Describe ------------------------------
(* C06.  The node's self-description is true of its behaviour.                            *)
(* A description (the alpha-projection of the describe reply) is                          *)
(*   desc[m][w] = [kind |-> "param", dt, ro, const]  or  [kind |-> "cmd", arg]            *)
(* for module names m and WIRE names w.  Judge(desc, e) decides one observed request /    *)
(* reply event e of the same node against what the description states; Structure(d)       *)
(* decides the structural clauses on the describe record itself.  Described(shape) is the *)
(* description a node of a given shape has to give (Dispatch.tla's vocabulary), and       *)
(* DescriptionTrue states that a node behaving like Dispatch honours its own description. *)
(* Anchors: frappy/secnode.py:196-243, frappy/params.py:323-327, 547-548, 104-112,        *)
(* frappy/modulebase.py:372-382, 442-449, frappy/protocol/dispatcher.py:148-188, 261-296. *)
EXTENDS Dispatch

NoSuch == {"NoSuchModule", "NoSuchParameter", "NoSuchCommand"}
NeverForValid == NoSuch \cup {"WrongType", "ReadOnly", "InternalError", "ProtocolError"}

WireNames(accs) == {accs[a].wire : a \in DOMAIN accs} \ {""}
AccByWire(accs, w) == accs[CHOOSE a \in DOMAIN accs : accs[a].wire = w]
\* <p>_limits is described as a plain tuple: that the pair is ordered is not part of the datainfo
DescDt(dt) == IF dt.t = "limits" THEN [t |-> "tuple", els |-> <<dt.el, dt.el>>] ELSE dt
DescAcc(acc) == IF acc.kind = "param"
                THEN [kind |-> "param", dt |-> DescDt(acc.dt), ro |-> acc.ro \/ acc.const # Null, const |-> acc.const]
                ELSE [kind |-> "cmd", arg |-> acc.arg]
Described(sh) == [m \in DOMAIN sh |-> [w \in WireNames(sh[m]) |-> DescAcc(AccByWire(sh[m], w))]]

(* "importable with the described datainfo": a client that rebuilt the datatype from the  *)
(* description can take the transported value in.  This is about kind and shape, not about *)
(* the numeric range (a start value outside min/max is the configuration's business).     *)
RECURSIVE Importable(_, _)
Importable(dt, v) ==
  CASE dt.t = "double" -> IsNumber(v)
    [] dt.t \in {"int", "scaled"} -> v.k = "num"
    [] dt.t = "blob"   -> v.k = "str" /\ v.b64 >= dt.minb /\ v.b64 <= dt.maxb
    [] dt.t = "enum"   -> v.k = "num" /\ \E i \in 1 .. Len(dt.mem) : dt.mem[i].val = v.n
    [] dt.t = "string" -> v.k = "str" /\ dt.minc <= v.len /\ v.len <= dt.maxc /\ (dt.utf8 \/ v.ascii)
    [] dt.t = "bool"   -> v.k = "bool"
    [] dt.t = "array"  -> v.k = "list" /\ dt.minlen <= Len(v.xs) /\ Len(v.xs) <= dt.maxlen
                          /\ \A i \in 1 .. Len(v.xs) : Importable(dt.el, v.xs[i])
    [] dt.t = "tuple"  -> v.k = "list" /\ Len(v.xs) = Len(dt.els) /\ \A i \in 1 .. Len(v.xs) : Importable(dt.els[i], v.xs[i])
    [] dt.t = "struct" -> v.k = "obj" /\ Keys(v) \subseteq MemberNames(dt)
                          /\ \A key \in Keys(v) : Importable(dt.mem[MemberDt(dt, key)].dt, ValOf(v, key))
    [] OTHER -> TRUE

(* "change m" / "read m" address the module's target / value *)
DName(req) == IF req.act \in {"change", "read"} THEN WireOf(req) ELSE req.name
(* is the request aimed at something the description lists (with the fitting kind)? *)
Known(desc, req) ==
  /\ req.mod \in DOMAIN desc
  /\ IF req.act = "activate" /\ req.name = "" THEN TRUE
     ELSE /\ DName(req) \in DOMAIN desc[req.mod]
          /\ req.act # "activate" => desc[req.mod][DName(req)].kind = (IF req.act = "do" THEN "cmd" ELSE "param")

(* e = [req, prev, cls, value, real_ok, imp, strict]                                      *)
(*   prev    the value last seen on the wire for the parameter (Null if none)              *)
(*   cls     "ok" or the error class of the reply                                          *)
(*   value   the value carried by an ok reply (as abstract JSON)                           *)
(*   real_ok the datatype rebuilt from the described datainfo (frappy.datatypes.           *)
(*           get_datatype) imports + validates the payload                                  *)
(*   imp     the rebuilt datatype imports the value of the reply                            *)
(*   strict  the generator knows that nothing but the datainfo can refuse (no limit        *)
(*           parameters, no hooks, scripted driver)                                         *)
(* result: the name of the broken clause, "" if none                                        *)
JudgeValue(dt, e, payload, prev) ==
  IF dt.t = "other" THEN ""
  ELSE LET V == Validate(dt, payload, prev) IN
       IF ~V.ok
       THEN IF e.cls = "ok" THEN "datainfo.rejects"                \* the node accepts what the datainfo excludes
            ELSE IF e.real_ok THEN "rebuilt.disagrees" ELSE ""     \* (the error class is C04's business)
       ELSE IF e.cls \in NeverForValid \ (IF e.strict THEN {} ELSE {"InternalError"})
            THEN "datainfo.accepts"                                \* the node refuses what the datainfo admits
            ELSE IF e.strict /\ e.cls # "ok" THEN "datainfo.accepts"   \* (a real driver may fail on its own: not strict)
            ELSE IF ~e.real_ok THEN "rebuilt.disagrees"
            ELSE ""

ConstNames(desc, req) == {w \in DOMAIN desc[req.mod] : /\ desc[req.mod][w].kind = "param" /\ desc[req.mod][w].const # Null
                                                       /\ (req.name = "" \/ req.name = w)}
(* "describe <module>" / "describe <module>:<accessible>": the part of the structure report, *)
(* for described names only; e.same: the reply is identical to that part of the full report   *)
(* DescriptionStable: the structure report is a function of the class chain and the configuration only.  "describe"  *)
(* of the whole node (req.mod = "") after ANY history - reads, changes, polls (the poller calling read_<p>), driver   *)
(* side assignments, read errors - is identical to the first report (e.same compares the full report).               *)
JudgeDescribe(desc, e) ==
  LET req == e.req IN
  IF req.mod = "" THEN (IF e.cls = "ok" /\ e.same THEN "" ELSE "DescriptionStable")
  ELSE IF req.mod \in DOMAIN desc /\ (req.name = "" \/ req.name \in DOMAIN desc[req.mod])
  THEN (IF e.cls = "ok" /\ e.same THEN "" ELSE "describe.part")
  ELSE (IF e.cls \in NoSuch THEN "" ELSE "undescribed.reachable")

Judge(desc, e) ==
  LET req == e.req IN
  IF req.act = "describe" THEN JudgeDescribe(desc, e)
  \* internal history steps (no request): the poller calls read_<p>, the driver assigns a value; only what they
  \* announce is judged (JudgeUpdates)
  ELSE IF req.act \in {"poll", "assign"} THEN ""
  ELSE IF ~Known(desc, req) THEN (IF e.cls \in NoSuch THEN "" ELSE "undescribed.reachable")
  ELSE IF req.act = "activate"
       THEN IF e.cls \in NoSuch /\ (req.name = "" \/ desc[req.mod][req.name].kind = "param") THEN "described.unreachable"
            \* the snapshot an activate delivers shows every constant concerned, as described, never as an error
            ELSE IF e.cls = "ok" /\ \E w \in ConstNames(desc, req) :
                       ~\E i \in 1 .. Len(e.upd) : /\ e.upd[i].mod = req.mod /\ e.upd[i].name = w
                                                     /\ ~e.upd[i].err /\ e.upd[i].v = desc[req.mod][w].const
                 THEN "constant.snapshot"
            ELSE ""
  ELSE LET d == desc[req.mod][DName(req)] IN
    CASE req.act = "read" ->
           IF e.cls \in NoSuch THEN "described.unreachable"
           ELSE IF d.const # Null THEN (IF e.cls = "ok" /\ e.value = d.const THEN "" ELSE "constant.read")
           ELSE IF e.cls = "ok" /\ ~(e.imp /\ Importable(d.dt, e.value)) THEN "emitted.importable"
           ELSE ""
      [] req.act = "change" ->
           IF e.cls \in NoSuch THEN "described.unreachable"
           ELSE IF d.ro \/ d.const # Null THEN (IF e.cls = "ReadOnly" THEN "" ELSE "readonly.flag")
           ELSE IF e.cls = "ReadOnly" THEN "readonly.flag"
           ELSE LET j == JudgeValue(d.dt, e, req.payload, e.prev) IN
                IF j # "" THEN j
                ELSE IF e.cls = "ok" /\ ~(e.imp /\ Importable(d.dt, e.value)) THEN "emitted.importable"
                ELSE ""
      [] req.act = "do" ->
           IF e.cls \in NoSuch THEN "described.unreachable"
           ELSE IF d.arg = NoDt
                THEN (IF IsNull(req.payload) THEN (IF e.cls \in NeverForValid THEN "datainfo.accepts" ELSE "")
                      ELSE IF e.cls = "ok" THEN "datainfo.rejects" ELSE "")
           ELSE IF IsNull(req.payload) THEN (IF e.cls = "ok" THEN "datainfo.rejects" ELSE "")
           ELSE JudgeValue(d.arg, e, req.payload, Null)

(* updates received while a request was served: only described parameters, importable values *)
JudgeUpdates(desc, e) ==
  IF \E i \in 1 .. Len(e.upd) :
        ~(e.upd[i].mod \in DOMAIN desc /\ e.upd[i].name \in DOMAIN desc[e.upd[i].mod]
          /\ desc[e.upd[i].mod][e.upd[i].name].kind = "param")
  THEN "update.undescribed"
  ELSE IF \E i \in 1 .. Len(e.upd) :      \* whatever is announced for a constant is the described constant
        LET dd == desc[e.upd[i].mod][e.upd[i].name] IN dd.const # Null /\ (e.upd[i].err \/ e.upd[i].v # dd.const)
  THEN "constant.snapshot"
  ELSE IF \E i \in 1 .. Len(e.upd) :
        ~e.upd[i].err /\ ~(e.upd[i].imp /\ Importable(desc[e.upd[i].mod][e.upd[i].name].dt, e.upd[i].v))
  THEN "update.importable"
  ELSE ""

(* ---- class hierarchies: SECoP base class and Feature mixins ---- *)
(* The generated class is VMod(direct features.., VLim, VMid(mid features.., VBase(base features.., <base>)))  *)
(* A feature plan is a sequence of [name, how]: a Feature mixin (the real frappy.features.HasOffset or a       *)
(* generated class VFeatA / VFeatB with one parameter) mixed in "direct"ly, or inherited through one ("mid")   *)
(* or two ("base") intermediate classes.  The description has to name, in MRO order, every class of the MRO     *)
(* that has Feature as a direct base, and the highest SECoP base class.                                         *)
FeatPar(wire, dt, init, f) ==
  [kind |-> "param", wire |-> wire, dt |-> dt, ro |-> FALSE, const |-> Null, init |-> init, lim |-> NoLim,
   hooks |-> <<>>, drv |-> "absent", ret |-> Null, rd |-> "absent", rret |-> Null, islimit |-> FALSE, level |-> "X",
   feature |-> f]
FeatAccs == [VFeatA |-> [fa |-> FeatPar("_fa", DTi, Num(3), "VFeatA")],
             VFeatB |-> [fb |-> FeatPar("_fb", DTs, SAb, "VFeatB")],
             HasOffset |-> [offset |-> FeatPar("_offset", [t |-> "double", lo |-> -1000000, hi |-> 1000000], Num(0), "HasOffset")]]
RECURSIVE AddFeats(_, _)
AddFeats(accs, plan) == IF plan = <<>> THEN accs ELSE AddFeats(accs @@ FeatAccs[plan[1].name], Tail(plan))
WithFeatures(sh, plan) == [m \in DOMAIN sh |-> AddFeats(sh[m], plan)]
HowSeq(plan, how) == LET sel == SelectSeq(plan, LAMBDA e : e.how = how) IN MkSeq([i \in 1 .. Len(sel) |-> sel[i].name], Len(sel))
FeaturesOf(plan) == HowSeq(plan, "direct") \o HowSeq(plan, "mid") \o HowSeq(plan, "base")
IfaceOf(base) == IF base = "Module" THEN <<>> ELSE <<base>>
F(name, how) == [name |-> name, how |-> how]
Variants == <<[feats |-> <<>>, base |-> "Module"],
              [feats |-> <<F("VFeatA", "direct")>>, base |-> "Module"],
              [feats |-> <<F("VFeatA", "mid")>>, base |-> "Module"],
              [feats |-> <<F("HasOffset", "base")>>, base |-> "Readable"],
              [feats |-> <<F("VFeatA", "direct"), F("VFeatB", "mid")>>, base |-> "Module"],
              [feats |-> <<F("HasOffset", "mid"), F("VFeatA", "base")>>, base |-> "Drivable"],
              [feats |-> <<F("VFeatB", "base")>>, base |-> "Writable"],
              [feats |-> <<F("HasOffset", "direct"), F("VFeatB", "direct")>>, base |-> "Module"],
              [feats |-> <<>>, base |-> "Drivable"]>>

(* the describe record d = [desc, expect |-> [m |-> [wires, iface, features, units, props]], iface, features, units, props, node, expnode, *)
(*                          stable, strict, expdesc (Null if not known)]                         *)
Structure(d) ==
  IF ~d.strict THEN "StrictJSON"
  ELSE IF ~d.stable THEN "Stable"
  ELSE IF DOMAIN d.desc # DOMAIN d.expect THEN "ExactlyExported.modules"
  ELSE IF \E m \in DOMAIN d.desc : DOMAIN d.desc[m] # SeqSet(d.expect[m].wires) THEN "ExactlyExported.accessibles"
  ELSE IF \E m \in DOMAIN d.desc : d.iface[m] # d.expect[m].iface THEN "InterfaceClassMatches"
  ELSE IF \E m \in DOMAIN d.desc : d.features[m] # d.expect[m].features THEN "FeaturesMatch"
  ELSE IF \E m \in DOMAIN d.desc : d.units[m] # d.expect[m].units THEN "MainUnitSubstituted"
  \* node level: exactly modules, equipment_id, firmware, description and the custom (underscore) node properties,
  \* with the configured values; module and accessible level: description, group, visibility, meaning as configured
  ELSE IF d.node # d.expnode THEN "NodeProperties"
  ELSE IF \E m \in DOMAIN d.desc : d.props[m] # d.expect[m].props THEN "PropertiesMatch"
  ELSE IF d.expdesc # Null /\ d.expdesc # d.desc THEN "DescriptionFaithful"
  ELSE ""

(* ---- design-level theorem: Dispatch honours Described(shape) ---- *)
RECURSIVE SetSeq(_)
SetSeq(S) == IF S = {} THEN <<>> ELSE LET x == CHOOSE y \in S : TRUE IN <<x>> \o SetSeq(S \ {x})
TargetAcc(req) == shape[req.mod][CHOOSE a \in DOMAIN shape[req.mod] : shape[req.mod][a].wire = DName(req)]
IsKnown(req) == req.act # "none" /\ Known(Described(shape), req)
EventsOf(c, o) ==
  LET req == o.req
      known == IsKnown(req) /\ ~(req.act = "activate" /\ req.name = "")     \* (a single accessible is addressed)
      acc == TargetAcc(req)
      isp == known /\ acc.kind = "param"
      dt == IF isp THEN DescDt(acc.dt) ELSE IF known THEN acc.arg ELSE NoDt    \* what a client rebuilds
      prev == IF isp /\ acc.const = Null THEN c[req.mod][CHOOSE a \in DOMAIN shape[req.mod] : shape[req.mod][a].wire = DName(req)] ELSE Null
  IN {[req |-> req, prev |-> prev, cls |-> k,
       value |-> IF o.reply.ok THEN o.reply.v ELSE Null,
       real_ok |-> IF known /\ dt # NoDt /\ ~(req.act = "do" /\ IsNull(req.payload)) THEN Validate(dt, req.payload, prev).ok ELSE TRUE,
       imp |-> TRUE,
       strict |-> isp /\ acc.hooks = <<>> /\ acc.lim.kind = "none" /\ acc.drv # "raise" /\ acc.dt.t # "limits",
       upd |-> IF o.hassnap
               THEN SetSeq({[mod |-> u.mod, name |-> u.name, v |-> u.v, imp |-> TRUE, err |-> (u.v = ErrVal)] : u \in o.snap})
               ELSE IF o.upd # Null
               THEN <<[mod |-> o.upd.mod, name |-> o.upd.name, v |-> o.upd.v, imp |-> TRUE, err |-> (o.upd.v = ErrVal)]>>
               ELSE <<>>]
      : k \in (IF o.reply.ok THEN {"ok"} ELSE o.reply.cls)}
(* in the model the description is a function of the shape, and the shape never changes *)
DescriptionStable == [][Described(shape)' = Described(shape)]_vars
DescriptionTrue ==
  [][\A e \in EventsOf(cache, last') : Judge(Described(shape), e) = "" /\ JudgeUpdates(Described(shape), e) = ""]_vars
=============================================================================
