SPECIFICATION GSpec
CONSTANTS
  Names = {"a", "b"}
  Missing = "zz"
  MaxMods = 2
  MaxEdges = 9
INVARIANT Emit1
CHECK_DEADLOCK FALSE
