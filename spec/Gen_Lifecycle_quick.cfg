SPECIFICATION GSpec
CONSTANTS
  Names = {"a", "b"}
  Missing = "zz"
  MaxMods = 2
INVARIANT Emit1
CHECK_DEADLOCK FALSE
