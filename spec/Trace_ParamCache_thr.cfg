SPECIFICATION TSpec
CONSTANTS
  Params = {"p1", "p2", "p3", "p4"}
  Mod2 = {}
  Vals = {"a", "b", "c", "d"}
  Errs = {"e1", "e2", "e3", "e4"}
  Invs = {"i1", "i2"}
  Conns = {"c1", "c2", "c3", "cb"}
  OmitChoices = {0}
  InitStamps = {0}
  NoDefault = {}
  InitScopeSets = {{}}
  HiddenChoices = {{}}
  ActScopes = {}
  RepKinds = {"ReadOk", "ReadRaise", "ReadInvalid", "AssignInvalid", "Activate"}
  MaxNow = 1000000
CONSTRAINT Track
INVARIANT StreamReconstructs
INVARIANT RecoveryNeverSuppressed
POSTCONDITION Verdicts
CHECK_DEADLOCK FALSE
