------------------------------ MODULE MC_Config ------------------------------
(* design check of the node start-up rule over a small catalogue of module configurations *)
EXTENDS Config
CONSTANT NMods
E(par, prop, ty, n) == [par |-> par, prop |-> prop, form |-> "P", v |-> [ty |-> ty, n |-> n, m |-> 0]]
Base == {E("mp", "value", "int", 6), E("n", "value", "int", 10), E("r1", "value", "int", 4), E("r2", "value", "int", 6)}
MCCfgs == { Base,                                               \* healthy, one configured write
            Base \cup {E("a", "value", "int", 100), E("a", "max", "int", 120)},   \* two writes, limit override
            Base \cup {E("a", "value", "int", 300)},            \* outside: loose
            Base \cup {E("a", "value", "str", 0)},              \* wrong type
            Base \cup {E("zz", "value", "int", 2), E("b", "foo", "int", 2)},      \* two errors
            {E("n", "value", "int", 10)},                       \* missing mandatory
            Base \cup {E("a", "min", "int", 160), E("a", "max", "int", 40)} }     \* inverted
ModNames == {"m1", "m2", "m3"}
MCInit == \E ms \in {s \in SUBSET ModNames : Cardinality(s) = NMods} :
            \E c \in [ms -> MCCfgs], k \in [ms -> {"polled", "unpolled", "onio", "noclass"}] : NInit(c, k)
MCSpec == MCInit /\ [][NNext]_nvars
=============================================================================
