SPECIFICATION RepSpec
CONSTANTS
  Params = {"p1", "p2"}
  Mod2 = {}
  Vals = {"a", "b"}
  Errs = {"e1"}
  Invs = {"i1"}
  Conns = {"c1", "c2"}
  OmitChoices = {0, 2, 999999999}
  InitStamps = {0}
  NoDefault = {"p1"}
  InitScopeSets = {{}, {"all"}}
  HiddenChoices = {{}}
  ActScopes = {"all", "p1"}
  RepKinds = {"ReadOk", "ReadRaise", "ReadInvalid", "AssignInvalid", "Activate", "Deactivate", "Drop", "ReadNested"}
  MaxNow = 3
CONSTRAINT TimeBound
INVARIANT TypeOK
INVARIANT StreamReconstructs
INVARIANT RecoveryNeverSuppressed
PROPERTY Ordered
PROPERTY RecoveryAnnounced
PROPERTY Isolation
PROPERTY Frame
PROPERTY ScopeIndependence
CHECK_DEADLOCK FALSE
