SPECIFICATION Spec
CONSTANTS
  Nodes = {"A", "B"}
  Order <- OrderAB
  ModsOf <- ModsAB
  Params = {"value"}
  Values = {0, 1}
  UpErrs = {"hw"}
  Conns = {"c1", "c2"}
  StartDown = {}
  ReqArgs <- OneArg
  ReqConns <- OneConn
  WaitSteps = {2, 12}
  ReadErrChoice = {TRUE, FALSE}
  GiveUpErrChoice = {TRUE, FALSE}
INVARIANT TypeOK
INVARIANT ViewIsCache
INVARIANT Mirror
INVARIANT GoneShowsNoValue
INVARIANT HiddenStaysHidden
INVARIANT RoutedToOwner
INVARIANT AtMostOneRoute
INVARIANT OnlyActiveReceive
INVARIANT RestartOnlyIfChanged
PROPERTY ExactlyOnce
PROPERTY SnapshotIsCache
CONSTRAINT Level7
CHECK_DEADLOCK FALSE
