SPECIFICATION GSpec
CONSTANTS
  Mods = {"m1", "m2"}
  PNames = {"value", "target", "x", "y"}
  ExtraM = {"zz"}
  ExtraP = {"cmd"}
  CmdP = {"cmd"}
  DescCmds = {"cmd", "stop", "_stop"}
  Wires = {"w1", "wbad"}
  ValidW = {"w1"}
  ValidWB = {}
  Variants = {"a"}
  OtherDescs = {}
  ENames = {"ProtocolError", "NoSuchModule", "NoSuchParameter", "NoSuchCommand", "CommandFailed", "CommandRunning", "ReadOnly", "RangeError", "WrongType", "BadJSON", "CommunicationFailed", "TimeoutError", "HardwareError", "IsBusy", "IsError", "Disabled", "Impossible", "ReadFailed", "OutOfRange", "NotImplemented", "InternalError", "Bogus", "BadValue"}
  KnownE = {"ProtocolError", "NoSuchModule", "NoSuchParameter", "NoSuchCommand", "CommandFailed", "CommandRunning", "ReadOnly", "RangeError", "WrongType", "BadJSON", "CommunicationFailed", "TimeoutError", "HardwareError", "IsBusy", "IsError", "Disabled", "Impossible", "ReadFailed", "OutOfRange", "NotImplemented"}
  Texts = {"tm"}
  PrefTexts = {}
  PrefClass = "RangeError"
  PrefRest = "t1"
  Stamps = {999}
  MaxNow = 2
  Shapes = {"ok"}
  LevelKinds = {"node", "module", "param"}
  Kinds = {"updateItem"}
  Behs = {"ok"}
  ErrBehs = {}
  InitDescs <- GenInit
  Descs <- GenInit
  GIdents <- GIdentsC
  GActions = {"error_update", "error_read", "error_change"}
  GLevels <- GLevelsE
  EmitOneIn = 1
  MaxCbs = 3
  MaxWait = 1
  Depth = 2
CONSTRAINT GBound
INVARIANT Emit1
CHECK_DEADLOCK FALSE
