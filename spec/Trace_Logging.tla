---------------------------- MODULE Trace_Logging ----------------------------
(* code -> spec: executions recorded from the real dispatcher / RemoteLogHandler / MainLogger / HasComlog *)
(* must be behaviours of Logging; one JVM validates a whole batch of traces.                             *)
(* A trace may start with a "boot" event carrying the configuration the node was started with.           *)
EXTENDS Logging, Json, IOUtils, TLCExt, SequencesExt
Traces == JsonDeserialize(IOEnv.TRACE_FILE)
NT == Len(Traces)
VARIABLES t, l,
          devs,     \* names of the deviations this trace needed (a deviation is a violation unless it is a known finding)
          virgin    \* [Files -> 0 .. MaxDay]: day on which the handler of the file was created, 0 once it has written
ASSUME \A i \in 1 .. NT : TLCSet(i, 1)

Ev == Traces[t][l]
Has(e, f) == f \in DOMAIN e
DefaultCfg == CHOOSE c \in CfgOne : TRUE
TInit == /\ t \in 1 .. NT /\ l = 1 /\ devs = {}
         /\ level = [mc \in Mods \X Conns |-> Off]
         /\ alive = Conns
         /\ last = None
         /\ cfg = IF Traces[t][1].ev = "boot" THEN Traces[t][1].cfg ELSE DefaultCfg
         /\ day = 1
         /\ dated = [f \in Files |-> {}]
         /\ hday = [f \in Files |-> 1]
         /\ virgin = [f \in Files |-> 1]

LevelsMatch(e) == ~e.haslevel \/ \A m \in Mods, c \in Conns : level'[<<m, c>>] = e.level[m][c]
(* observed local sinks (events of worlds without local sinks do not carry them) *)
SinksMatch(e) == Has(e, "sinks") => last'.sinks = ToSet(e.sinks)
DatedMatch(e) == Has(e, "dated") => /\ day' = e.day
                                    /\ \A f \in Files : dated'[f] = ToSet(e.dated[f])

IntendedLast(e) ==
    CASE e.ev = "emit" -> [kind |-> "emit", to |-> Receivers(e.mod, e.lvl), mod |-> e.mod, lvl |-> e.lvl,
                           sinks |-> ModSinks(e.lvl)]
      [] e.ev = "mainemit" -> [kind |-> "mainemit", to |-> {}, lvl |-> e.lvl, sinks |-> MainSinks(e.lvl)]
      [] e.ev = "comlog" -> [kind |-> "comlog", to |-> Receivers(e.mod, "comlog"), mod |-> e.mod, lvl |-> "comlog",
                             sinks |-> ComSinks(e.mod)]
Written == virgin' = [f \in Files |-> IF f \in last'.sinks THEN 0 ELSE virgin[f]]

(* DEVIATIONS of the code                                                                                       *)
(* Dev_LostAfterMidnight: mlzlog opens a log file with the first record but closes it unconditionally at the    *)
(*   first rollover: a file handler that did not write anything on the day of its creation never writes at all  *)
(* Dev_TextSwitchOn: HasComlog tests generalConfig.comlog for truth, a config file gives text: "False" / "0"    *)
(*   switch the communication log on (the boot event tells how the switch was spelled)                          *)
TextOff == /\ Traces[t][1].ev = "boot" /\ Has(Traces[t][1], "comlog_off_as_text") /\ Traces[t][1].comlog_off_as_text
           /\ ~cfg.gcomlog /\ cfg.mcomlog /\ cfg.ginit
Deviating(e) ==
    LET il == IntendedLast(e)
        extra == IF e.ev = "comlog" /\ TextOff THEN {e.mod} ELSE {}
        reached == il.sinks \cup extra
        lost == {f \in reached \cap Files : virgin[f] # 0 /\ virgin[f] < day}
        used == (IF extra # {} THEN {"Dev_TextSwitchOn"} ELSE {}) \cup (IF lost # {} THEN {"Dev_LostAfterMidnight"} ELSE {})
    IN /\ used # {}
       /\ last' = [il EXCEPT !.sinks = reached \ lost]
       /\ Write(reached \ lost)
       /\ UNCHANGED <<level, alive, cfg, day>>
       /\ devs' = devs \cup used

TStep ==
  /\ l <= Len(Traces[t])
  /\ l' = l + 1 /\ t' = t
  /\ \/ /\ Ev.ev = "boot" /\ l = 1
        /\ UNCHANGED <<rvars, devs, virgin>>
     \/ /\ Ev.ev = "logging"
        /\ LoggingReq(Ev.conn, Ev.target, Ev.lvl)
        /\ last'.ok = Ev.ok
        /\ UNCHANGED <<devs, virgin>>
     \/ /\ Ev.ev = "emit"
        /\ \/ Emit(Ev.mod, Ev.lvl) /\ UNCHANGED devs
           \/ Deviating(Ev)
        /\ last'.to = ToSet(Ev.to)
        /\ Written
     \/ /\ Ev.ev = "mainemit"
        /\ \/ MainEmit(Ev.lvl) /\ UNCHANGED devs
           \/ Deviating(Ev)
        /\ Written
     \/ /\ Ev.ev = "comlog"
        /\ \/ ComLog(Ev.mod) /\ UNCHANGED devs
           \/ Deviating(Ev)
        /\ last'.to = ToSet(Ev.to)
        /\ Written
     \/ /\ Ev.ev = "nextday" /\ NextDay /\ UNCHANGED <<devs, virgin>>
     \/ /\ Ev.ev = "reinit" /\ ReInit /\ UNCHANGED devs
        \* every communicator gets a new comlog file handler
        /\ virgin' = [f \in Files |-> IF f \in ComMods THEN day ELSE virgin[f]]
     \/ /\ Ev.ev = "ident" /\ Ident(Ev.conn) /\ UNCHANGED <<devs, virgin>>
     \/ /\ Ev.ev = "disconnect" /\ Disconnect(Ev.conn) /\ UNCHANGED <<devs, virgin>>
  /\ LevelsMatch(Ev)
  /\ Ev.ev \in {"emit", "mainemit", "comlog"} => SinksMatch(Ev)
  /\ DatedMatch(Ev)

TSpec == TInit /\ [][TStep]_<<rvars, t, l, devs, virgin>>

Track == TLCSet(t, IF l > TLCGet(t) THEN l ELSE TLCGet(t))
Done == (l = Len(Traces[t]) + 1) => PrintT(<<"DEVS", t, ToJson(devs)>>)
Verdicts == \A i \in 1 .. NT :
   IF TLCGet(i) = Len(Traces[i]) + 1 THEN PrintT(<<"ACCEPT", i>>)
   ELSE PrintT(<<"REJECT", i, TLCGet(i), "event not explained by Logging">>)
=============================================================================
