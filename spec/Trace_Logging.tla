---------------------------- MODULE Trace_Logging ----------------------------
(* code -> spec: executions recorded from the real dispatcher / RemoteLogHandler *)
(* must be behaviours of Logging; one JVM validates a whole batch of traces.     *)
EXTENDS Logging, Json, IOUtils, TLCExt, SequencesExt
Traces == JsonDeserialize(IOEnv.TRACE_FILE)
NT == Len(Traces)
VARIABLES t, l
ASSUME \A i \in 1 .. NT : TLCSet(i, 1)

Ev == Traces[t][l]
TInit == RInit /\ t \in 1 .. NT /\ l = 1

LevelsMatch(e) == ~e.haslevel \/ \A m \in Mods, c \in Conns : level'[<<m, c>>] = e.level[m][c]

TStep ==
  /\ l <= Len(Traces[t])
  /\ l' = l + 1 /\ t' = t
  /\ \/ /\ Ev.ev = "logging"
        /\ LoggingReq(Ev.conn, Ev.target, Ev.lvl)
        /\ last'.ok = Ev.ok
     \/ /\ Ev.ev = "emit"
        /\ Emit(Ev.mod, Ev.lvl)
        /\ last'.to = ToSet(Ev.to)
     \/ /\ Ev.ev = "ident" /\ Ident(Ev.conn)
     \/ /\ Ev.ev = "disconnect" /\ Disconnect(Ev.conn)
  /\ LevelsMatch(Ev)

TSpec == TInit /\ [][TStep]_<<rvars, t, l>>

Track == TLCSet(t, IF l > TLCGet(t) THEN l ELSE TLCGet(t))
Verdicts == \A i \in 1 .. NT :
   IF TLCGet(i) = Len(Traces[i]) + 1 THEN PrintT(<<"ACCEPT", i>>)
   ELSE PrintT(<<"REJECT", i, TLCGet(i), "event not explained by Logging">>)
=============================================================================
