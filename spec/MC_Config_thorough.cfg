SPECIFICATION MCSpec
CONSTANTS
  NMods = 3
INVARIANT NTypeOK
INVARIANT NoHalfModule
INVARIANT RefusedWhole
INVARIANT NeverIgnored
INVARIANT DecideFirst
INVARIANT WritesBeforePoll
INVARIANT WritesBeforeReady
PROPERTY WriteOnce
CHECK_DEADLOCK FALSE
