SPECIFICATION MCSpec
CONSTANTS
  NMods = 3
INVARIANT NTypeOK
INVARIANT NoHalfModule
INVARIANT RefusedWhole
INVARIANT NeverIgnored
INVARIANT DecideFirst
INVARIANT WritesBeforePoll
PROPERTY WriteOnce
CHECK_DEADLOCK FALSE
