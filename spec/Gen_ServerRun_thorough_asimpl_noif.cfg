SPECIFICATION GSpec
CONSTANTS
  NIf = 2
  Kinds = {"ok", "fail"}
  Req = {"res1", "shut1"}
  Repaired = FALSE
  FixNoIf = TRUE
  Crashes = FALSE
  MaxSteps = 160
CONSTRAINT Bound
INVARIANT Emit
CHECK_DEADLOCK FALSE
