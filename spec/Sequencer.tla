------------------------------ MODULE Sequencer ------------------------------
(* X02 (growth).  frappy/lib/sequence.py: SequencerMixin / Step.                *)
(* A driver hands a list of steps to start_sequence; a thread of its own calls   *)
(* the step functions in order, repeats a step while it returns true ("wait      *)
(* step"), sleeps `waittime` after every call, looks at the stop flag, ends on   *)
(* an exception, and polls the module when it is done.  read_status reports      *)
(* BUSY 'moving: <step>' exactly while a sequence is alive, afterwards the        *)
(* outcome (error / stopped / idle).                                              *)
(*                                                                                *)
(* What the docstrings promise and this module states:                            *)
(*   - steps run in list order, a step is repeated while it returns true, the    *)
(*     store object is handed from call to call (modelled by the call counter n),*)
(*   - one sequence at a time: start_sequence while one is alive is refused,     *)
(*   - the stop flag is examined after every call AND after every wait: once a   *)
(*     stop has been accepted no further step function is entered,                *)
(*   - an exception in a step (or in its cleanup) ends the sequence with an       *)
(*     error status (ERROR if fault_on_error else WARN); the module stays usable, *)
(*   - a stopped sequence reports 'stopped while <step>' (step still repeating)   *)
(*     or 'stopped after <step>' (ERROR if fault_on_stop else WARN),              *)
(*   - when the thread is done it polls the module: the cached status leaves BUSY.*)
(*   - when no sequence is alive and the last one neither failed nor was stopped,  *)
(*     the status is what the documented hook readHwStatus() returns; a module    *)
(*     that only defines the formerly documented _ext_state() is plain IDLE.      *)
(* Loose (not promised): the status text before the first step is active and      *)
(* between a wait and the next call; whether a stop that arrives during the wait  *)
(* after the very last call is still reported; whether cleanup runs when a stop   *)
(* is noticed after the wait; whether a start after a fault_on_error fault is     *)
(* refused ("a manual reset is required") or accepted.                            *)
EXTENDS Naturals, Sequences, FiniteSets, TLC

CONSTANTS Kinds,          \* step kinds used in sequences (subset of AllKinds)
          MaxLen,         \* sequences have 1 .. MaxLen steps
          Hooks,          \* subset of {"none", "hw", "ext"}: the module has no idle-status hook / readHwStatus()
                          \* (the documented hook) / only _ext_state() (a name that is not a hook: ignored)
          FaultModes      \* subset of {"ee","ew","we","ww"}: init_sequencer(fault_on_error, fault_on_stop),
                          \* 1st letter: an error gives ERROR / WARN, 2nd letter: a stop gives ERROR / WARN

AllKinds == {"d", "ad", "aad", "r", "ar", "dc", "adc", "adx", "d2"}

(* what the step function does at its 1st, 2nd, .. call: "again" = returns true *)
Script(kd) == CASE kd = "d"   -> <<"done">>
                [] kd = "d2"  -> <<"done">>
                [] kd = "ad"  -> <<"again", "done">>
                [] kd = "aad" -> <<"again", "again", "done">>
                [] kd = "r"   -> <<"raise">>
                [] kd = "ar"  -> <<"again", "raise">>
                [] kd = "dc"  -> <<"done">>
                [] kd = "adc" -> <<"again", "done">>
                [] kd = "adx" -> <<"again", "done">>
(* Step(..., cleanup=f): called when the sequence is stopped at this step *)
Cleanup(kd) == IF kd \in {"dc", "adc"} THEN "ok" ELSE IF kd = "adx" THEN "raise" ELSE "none"
(* waittime of the step in ticks *)
Wait(kd) == IF kd = "d2" THEN 2 ELSE 1
MaxWait == 2

Seqs == UNION {[1 .. len -> Kinds] : len \in 1 .. MaxLen}

VARIABLES seq,        \* the sequence being (or last) executed
          k, i,       \* current step (1-based), number of completed calls of it
          n,          \* calls of step functions in this run (the store is handed on)
          pc,         \* "none" no sequence alive | "call" | "in" | "sleep" | "cleanup"
          res,        \* what the last call returned
          stopflag,
          out,        \* outcome of the last finished sequence
          owed,       \* finished sequence threads that have not yet polled the module
          cached,     \* status parameter as last polled
          last,       \* result of the last client operation
          fm,         \* fault mode of this module (never changes)
          hook        \* idle-status hook of this module (never changes)

svars == <<seq, k, i, n, pc, res, stopflag, out, owed, cached, last, fm, hook>>
FaultOnError == fm \in {"ee", "ew"}
FaultOnStop == fm \in {"ee", "we"}

alive == pc # "none"
NoOut == [kind |-> "none", k |-> 0, mode |-> "none"]
Idle == [code |-> "IDLE", word |-> "", k |-> 0]
(* "Implement this to return a custom state tuple when the sequence is not active": the hook's answer *)
HookStatus == [code |-> "WARN", word |-> "hook", k |-> 0]

(* ---- what read_status returns, as a function of the state ---- *)
Sev(flag) == IF flag THEN "ERROR" ELSE "WARN"
StatusOf(p, o, kk) ==
    IF p # "none" THEN [code |-> "BUSY", word |-> "moving", k |-> kk]
    ELSE CASE o.kind = "none"    -> IF hook = "hw" THEN HookStatus ELSE Idle
           [] o.kind = "error"   -> [code |-> Sev(FaultOnError), word |-> "during", k |-> o.k]
           [] o.kind = "stopped" -> [code |-> Sev(FaultOnStop), word |-> o.mode, k |-> o.k]
Status == StatusOf(pc, out, k)
(* the text is promised while a step is active (being called, waiting, cleaning up) and when idle *)
TextBinding(p) == p \in {"none", "in", "sleep", "cleanup"}

SInit == /\ seq = <<>> /\ k = 0 /\ i = 0 /\ n = 0 /\ pc = "none" /\ res = "none"
         /\ stopflag = FALSE /\ out = NoOut /\ owed = 0 /\ cached = Idle
         /\ last = [op |-> "none", ok |-> TRUE]
         /\ fm \in FaultModes /\ hook \in Hooks

(* ---- client operations ---- *)
Refuse == /\ last' = [op |-> "start", ok |-> FALSE]
          /\ UNCHANGED <<seq, k, i, n, pc, res, stopflag, out, owed, cached, fm, hook>>

Start(s) ==
    IF alive THEN Refuse                      \* IsBusyError, nothing changes
    ELSE \/ /\ seq' = s /\ k' = 1 /\ i' = 0 /\ n' = 0 /\ pc' = "call" /\ res' = "none"
            /\ stopflag' = FALSE /\ out' = NoOut
            /\ last' = [op |-> "start", ok |-> TRUE]
            /\ UNCHANGED <<owed, cached, fm, hook>>
         \/ /\ out.kind = "error" /\ FaultOnError     \* "a manual reset is required": may be refused
            /\ Refuse

Stop == /\ stopflag' = (stopflag \/ alive)
        /\ last' = [op |-> "stop", ok |-> TRUE]
        /\ UNCHANGED <<seq, k, i, n, pc, res, out, owed, cached, fm, hook>>

(* ---- the sequence thread ---- *)
Terminate(o) == pc' = "none" /\ out' = o /\ owed' = owed + 1

StopHere(r) ==
    LET o == [kind |-> "stopped", k |-> k, mode |-> IF r = "again" THEN "while" ELSE "after"]
    IN IF Cleanup(seq[k]) = "none" THEN Terminate(o)
       ELSE pc' = "cleanup" /\ out' = o /\ UNCHANGED owed

Call == /\ pc = "call"
        /\ pc' = "in" /\ n' = n + 1
        /\ UNCHANGED <<seq, k, i, res, stopflag, out, owed, cached, last, fm, hook>>

Ret == /\ pc = "in"
       /\ LET r == Script(seq[k])[i + 1] IN
          /\ res' = r
          /\ IF r = "raise" THEN Terminate([kind |-> "error", k |-> k, mode |-> "step"])
             ELSE IF stopflag THEN StopHere(r)
             ELSE pc' = "sleep" /\ UNCHANGED <<out, owed>>
       /\ UNCHANGED <<seq, k, i, n, stopflag, cached, last, fm, hook>>

CleanupAct ==
    /\ pc = "cleanup"
    /\ IF Cleanup(seq[k]) = "raise" THEN Terminate([kind |-> "error", k |-> k, mode |-> "cleanup"])
       ELSE Terminate(out)
    /\ UNCHANGED <<seq, k, i, n, res, stopflag, cached, last, fm, hook>>

More == res = "again" \/ k < Len(seq)       \* another call would follow the wait

Wake ==
    /\ pc = "sleep"
    /\ \/ /\ stopflag                          \* a stop that arrived during the wait is honoured
          /\ \/ StopHere(res)
             \/ Terminate([kind |-> "stopped", k |-> k, mode |-> IF res = "again" THEN "while" ELSE "after"])
          /\ UNCHANGED <<k, i>>
       \/ /\ ~(stopflag /\ More)               \* ... it must be when another call would follow
          /\ IF res = "again" THEN i' = i + 1 /\ pc' = "call" /\ UNCHANGED <<k, out, owed>>
             ELSE IF k < Len(seq) THEN k' = k + 1 /\ i' = 0 /\ pc' = "call" /\ UNCHANGED <<out, owed>>
             ELSE Terminate(NoOut) /\ UNCHANGED <<k, i>>
    /\ UNCHANGED <<seq, n, res, stopflag, cached, last, fm, hook>>

(* DEVIATION of the code before cc0eb0a (never part of SNext; used by Trace_Sequencer and by        *)
(* MC_Sequencer_asimpl.cfg, which is expected to violate StopNoNewStep): the flag is examined    *)
(* only after a call, so a stop that arrives during the wait lets the next call begin           *)
Dev_LateStop ==
    /\ pc = "sleep" /\ stopflag /\ More
    /\ pc' = "call"
    /\ IF res = "again" THEN i' = i + 1 /\ k' = k ELSE k' = k + 1 /\ i' = 0
    /\ UNCHANGED <<seq, n, res, stopflag, out, owed, cached, last, fm, hook>>

(* a finished thread polls the module (doPoll): the status parameter is refreshed *)
EndPoll == /\ owed > 0
           /\ owed' = owed - 1
           /\ cached' = Status
           /\ UNCHANGED <<seq, k, i, n, pc, res, stopflag, out, last, fm, hook>>

Thread == Call \/ Ret \/ CleanupAct \/ Wake \/ EndPoll
SNext == (\E s \in Seqs : Start(s)) \/ Stop \/ Thread
SSpec == SInit /\ [][SNext]_svars
FairSpec == SSpec /\ WF_svars(Thread)
AsImplSpec == SInit /\ [][SNext \/ Dev_LateStop]_svars

(* ---------------- properties of the design ---------------- *)
TypeOK == /\ pc \in {"none", "call", "in", "sleep", "cleanup"}
          /\ alive => (seq \in Seqs /\ k \in 1 .. Len(seq) /\ i + 1 \in DOMAIN Script(seq[k]))
          /\ res \in {"none", "again", "done", "raise"}
          /\ stopflag \in BOOLEAN /\ owed \in Nat
          /\ out.kind \in {"none", "error", "stopped"}

(* steps run in list order, each at most once per run (a repeated wait step counts as one) *)
InOrder == [][(alive /\ alive') => (k' = k /\ i' \in {i, i + 1}) \/ (k' = k + 1 /\ i' = 0)]_svars
(* one sequence at a time: a start while one is alive is refused and changes nothing *)
OneAtATime == [][\A s \in Seqs : (alive /\ Start(s)) =>
                    (last'.ok = FALSE /\ UNCHANGED <<seq, k, i, n, pc, res, stopflag, out>>)]_svars
(* after a stop has been accepted no step function is entered once the flag was examined:    *)
(* the flag is examined when a call returns and when a wait ends                                *)
StopNoNewStep == [][(stopflag /\ pc \in {"in", "sleep"}) => pc' \in {pc, "cleanup", "none"}]_svars
(* ... and the sequence thread is gone after a bounded number of its own steps (fair thread)  *)
StopEnds == (stopflag /\ alive) ~> ~alive
EveryRunEnds == alive ~> ~alive
(* an exception ends the sequence, is reported, and the module can be started again *)
ErrorEnds == [][(pc = "in" /\ Script(seq[k])[i + 1] = "raise" /\ pc' # pc) =>
                   (pc' = "none" /\ out'.kind = "error" /\ out'.k = k)]_svars
ErrorReported == (~alive /\ out.kind = "error") => Status.code = Sev(FaultOnError) /\ Status.word = "during"
Restartable == (~alive /\ ~(out.kind = "error" /\ FaultOnError)) => \A s \in Seqs : ENABLED (Start(s) /\ last'.ok)
(* busy exactly while a sequence is alive *)
BusyIffAlive == (Status.code = "BUSY") <=> alive
(* when no thread is left and none owes its poll, the status parameter shows the outcome *)
CachedSettles == [][(owed = 1 /\ owed' = 0 /\ ~alive) => cached'.code # "BUSY"]_svars
(* the call counter (store) runs over exactly the calls of this run *)
StoreCounts == alive => n >= (k - 1) + i
(* model checking: the environment starts a new sequence only after the previous thread has polled *)
(* (keeps `owed` bounded without cutting steps of the thread)                                      *)
StartWhenPolled == (pc = "none" /\ pc' = "call") => owed = 0
=============================================================================
