SPECIFICATION GSpec
CONSTANTS
  NMods = 3
  Choices = {1, 2, 5, 6, 10}
  Splits = {0, 2}
  Scen = {"plain1", "share1", "twice1", "plain2", "twice2", "plain3", "plain4"}
INVARIANT Emit1
CHECK_DEADLOCK FALSE
