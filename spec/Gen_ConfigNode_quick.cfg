SPECIFICATION GSpec
CONSTANTS
  NMods = 3
  Choices = {1, 2, 4, 5, 6}
  Splits = {0, 2}
  Modes = {"plain", "share", "twice"}
INVARIANT Emit1
CHECK_DEADLOCK FALSE
