------------------------ MODULE Trace_DiscoveryServer ------------------------
(* code -> spec: lives of the real frappy.server.Server on a fake bind layer.          *)
(*   boot     cfg listening announce answers ok error                                   *)
(*   restart      listening announce answers ok error                                   *)
(*   shutdown     listening          answers ok error                                   *)
(* listening = configured indices of the TCP ports really bound now (0: a port that is  *)
(* not configured), answers / announce = <<g, i>> per message: g = generation of the    *)
(* identity it carries, i = configured index of the port it names (0: none);            *)
(* ok = every message is well-formed, <= 508 bytes, names the node, answers go to the   *)
(* requester.  The answers are those to a broadcast request sent after the operation.   *)
EXTENDS DiscoveryServer, Json, IOUtils, TLCExt, SequencesExt, FiniteSetsExt
Traces == JsonDeserialize(IOEnv.TRACE_FILE)
NT == Len(Traces)
VARIABLES t, l
ASSUME \A i \in 1 .. NT : TLCSet(i, 1)
Ev == Traces[t][l]
Pairs(s) == {<<s[k][1], s[k][2]>> : k \in 1 .. Len(s)}

(* judged on the state AFTER the operation *)
Clauses(e, c, ph, g) ==
   << <<e.ev \o ".no_error", e.error = "">>,
      <<e.ev \o ".listening", ToSet(e.listening) = (IF ph = "up" THEN TcpOpened(c) ELSE {})>>,
      <<e.ev \o ".messages_wellformed", e.ok>>,
      <<e.ev \o ".answers_current_identity", \A p \in Pairs(e.answers) : p[1] = g>>,
      <<e.ev \o ".answers_port_listened", \A p \in Pairs(e.answers) : p[2] \in ToSet(e.listening)>>,
      <<e.ev \o ".one_answer_per_port", Len(e.answers) = Cardinality(Pairs(e.answers))>>,
      <<e.ev \o ".answers", Pairs(e.answers) = Demanded(c, ph, g)>>,
      <<e.ev \o ".announce", e.ev = "shutdown" \/
            (Pairs(e.announce) \subseteq Demanded(c, ph, g) /\ Len(e.announce) = Cardinality(Pairs(e.announce)))>> >>
FirstFalse(cl) == LET bad == {j \in 1 .. Len(cl) : ~ cl[j][2]}
                  IN IF bad = {} THEN "" ELSE cl[Min(bad)][1]

TInit == /\ t \in 1 .. NT /\ l = 1
         /\ cfg = Traces[t][1].cfg /\ phase = "down" /\ gen = 0 /\ live = {} /\ last = [kind |-> "none"]
TStep == /\ l <= Len(Traces[t])
         /\ l' = l + 1 /\ t' = t
         /\ \/ Ev.ev = "boot" /\ Boot
            \/ Ev.ev = "restart" /\ Restart
            \/ Ev.ev = "shutdown" /\ Shutdown
         /\ FirstFalse(Clauses(Ev, cfg, phase', gen')) = ""
TSpec == TInit /\ [][TStep]_<<wvars, t, l>>

Track == TLCSet(t, IF l > TLCGet(t) THEN l ELSE TLCGet(t))
(* replays the operations of trace i up to event k to name the failing clause *)
RECURSIVE StateAt(_, _)
StateAt(i, k) ==      \* <<phase, gen>> after event k
   IF k = 0 THEN <<"down", 0>>
   ELSE LET s == StateAt(i, k - 1)
            e == Traces[i][k]
        IN IF e.ev = "boot" THEN (IF Opened(Traces[i][1].cfg) = {} THEN <<"stopped", 0>> ELSE <<"up", 1>>)
           ELSE IF e.ev = "restart" THEN <<s[1], s[2] + 1>>
           ELSE <<"stopped", s[2]>>
Why(i, k) == LET s == StateAt(i, k)
                 w == FirstFalse(Clauses(Traces[i][k], Traces[i][1].cfg, s[1], s[2]))
             IN IF w = "" THEN "operation not enabled in DiscoveryServer" ELSE w
Verdicts == \A i \in 1 .. NT :
   IF TLCGet(i) = Len(Traces[i]) + 1 THEN PrintT(<<"ACCEPT", i>>)
   ELSE PrintT(<<"REJECT", i, TLCGet(i), Why(i, TLCGet(i))>>)
=============================================================================
