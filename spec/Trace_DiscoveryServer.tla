------------------------ MODULE Trace_DiscoveryServer ------------------------
(* code -> spec: lives of the real frappy.server.Server on a fake bind layer.          *)
(*   boot     cfg up held listening announce probed answers ok error                    *)
(*   restart      up held listening announce probed answers ok error                    *)
(*   shutdown             listening          probed answers ok error                    *)
(*   run                  listening announce probed answers ok error                    *)
(*   stop_responder       listening          probed answers ok error   tear-down steps  *)
(*   close_iface   i      listening          probed answers ok error   of the restart / *)
(*                                                     shutdown event that follows them *)
(* held = the new responder thread was stopped before its first statement (or inside    *)
(* its first sendto) and waits for "run"; probed = no thread was pending after the      *)
(* operation, so a broadcast request was sent and answers holds the replies;            *)
(* cfg = schemes, up = indices of the interfaces scripted to come up at this (re)start, *)
(* unicast = per socket still bound in the SO_REUSEPORT group the answers <<g, i>> to a  *)
(* request delivered to that socket only;                                               *)
(* listening = configured indices of the TCP ports really bound now (0: a port that is  *)
(* not configured), answers / announce = <<g, i>> per message: g = generation of the    *)
(* identity it carries, i = configured index of the port it names (0: none);            *)
(* ok = every message is well-formed, <= 508 bytes, names the node, answers go to the   *)
(* requester.  The answers are those to a broadcast request sent after the operation.   *)
EXTENDS DiscoveryServer, Json, IOUtils, TLCExt, SequencesExt, FiniteSetsExt
Traces == JsonDeserialize(IOEnv.TRACE_FILE)
NT == Len(Traces)
VARIABLES t, l
ASSUME \A i \in 1 .. NT : TLCSet(i, 1)
Ev == Traces[t][l]
Pairs(s) == {<<s[k][1], s[k][2]>> : k \in 1 .. Len(s)}

(* judged on the state AFTER the operation *)
Clauses(e, c, u, ph, g, cr) ==
   << <<e.ev \o ".no_error", e.error = "">>,
      <<e.ev \o ".listening", ToSet(e.listening) = (IF ph \in {"up", "closing"} THEN Tcp(c) \cap u ELSE {})>>,
      <<e.ev \o ".messages_wellformed", e.ok>>,
      <<e.ev \o ".probed_when_quiet", e.probed = (cr = {})>>,
      <<e.ev \o ".answers_current_identity", \A p \in Pairs(e.answers) : p[1] = g>>,
      <<e.ev \o ".answers_port_listened", \A p \in Pairs(e.answers) : p[2] \in ToSet(e.listening)>>,
      <<e.ev \o ".one_answer_per_port", Len(e.answers) = Cardinality(Pairs(e.answers))>>,
      <<e.ev \o ".answers", e.probed => IF ph = "closing" THEN Pairs(e.answers) \subseteq Demanded(c, u, ph, g)
                                                    ELSE Pairs(e.answers) = Demanded(c, u, ph, g)>>,
      \* a unicast request reaches ONE socket of the reuse-port group - whichever: it must be answered all the same
      <<e.ev \o ".every_request_answered", \A k \in 1 .. Len(e.unicast) :
            /\ Len(e.unicast[k]) = Cardinality(Pairs(e.unicast[k]))
            /\ IF ph = "closing" THEN Pairs(e.unicast[k]) \subseteq Demanded(c, u, ph, g)
               ELSE Pairs(e.unicast[k]) = Demanded(c, u, ph, g)>>,
      <<e.ev \o ".announce", e.ev \in {"shutdown", "stop_responder", "close_iface"} \/
            (Pairs(e.announce) \subseteq Demanded(c, u, ph, g) /\ Len(e.announce) = Cardinality(Pairs(e.announce)))>> >>
FirstFalse(cl) == LET bad == {j \in 1 .. Len(cl) : ~ cl[j][2]}
                  IN IF bad = {} THEN "" ELSE cl[Min(bad)][1]

TInit == /\ t \in 1 .. NT /\ l = 1
         /\ cfg = Traces[t][1].cfg /\ up = {} /\ ever = {} /\ phase = "down" /\ gen = 0 /\ live = {}
         /\ created = {} /\ closed = {} /\ rstopped = FALSE
         /\ given = <<>> /\ last = [kind |-> "none"]
TStep == /\ l <= Len(Traces[t])
         /\ l' = l + 1 /\ t' = t
         /\ \/ Ev.ev = "boot" /\ phase = "down" /\ Come("boot", ToSet(Ev.up), Ev.held)
            \/ Ev.ev = "stop_responder" /\ StopResponder
            \/ Ev.ev = "close_iface" /\ CloseInterface(Ev.i)
            \/ Ev.ev = "restart" /\ TornDown /\ Come("restart", ToSet(Ev.up), Ev.held)
            \/ Ev.ev = "shutdown" /\ Shutdown
            \/ Ev.ev = "run" /\ RunAll
         /\ FirstFalse(Clauses(Ev, cfg, up', phase', gen', created')) = ""
TSpec == TInit /\ [][TStep]_<<wvars, t, l>>

Track == TLCSet(t, IF l > TLCGet(t) THEN l ELSE TLCGet(t))
(* replays the operations of trace i up to event k to name the failing clause *)
RECURSIVE StateAt(_, _)
StateAt(i, k) ==      \* <<phase, gen, up, created>> after event k
   IF k = 0 THEN <<"down", 0, {}, {}>>
   ELSE LET s == StateAt(i, k - 1)
            e == Traces[i][k]
        IN CASE e.ev \in {"boot", "restart"} ->
                  (IF ToSet(e.up) = {} THEN <<"stopped", s[2], {}, s[4]>>
                   ELSE <<"up", s[2] + 1, ToSet(e.up), IF e.held THEN s[4] \cup {s[2] + 1} ELSE s[4]>>)
             [] e.ev = "run" -> <<s[1], s[2], s[3], {}>>
             [] e.ev = "stop_responder" -> <<"closing", s[2], s[3], s[4]>>
             [] e.ev = "close_iface" -> <<"closing", s[2], s[3] \ {e.i}, s[4]>>
             [] OTHER -> <<"stopped", s[2], {}, s[4]>>
Why(i, k) == LET s == StateAt(i, k)
                 w == FirstFalse(Clauses(Traces[i][k], Traces[i][1].cfg, s[3], s[1], s[2], s[4]))
             IN IF w = "" THEN "operation not enabled in DiscoveryServer" ELSE w
Verdicts == \A i \in 1 .. NT :
   IF TLCGet(i) = Len(Traces[i]) + 1 THEN PrintT(<<"ACCEPT", i>>)
   ELSE PrintT(<<"REJECT", i, TLCGet(i), Why(i, TLCGet(i))>>)
=============================================================================
