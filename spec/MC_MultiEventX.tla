---------------------------- MODULE MC_MultiEventX ----------------------------
(* The contract MultiEventX on its own: threads call the object freely (MaxCalls calls in all) , effect points  *)
(* and returns interleave in every order, the clock ticks.  Checked: the contract's invariants, every action of   *)
(* it is taken (-coverage), and a call in flight can always make progress except a wait() without any limit       *)
(* while something is outstanding (NoContractDeadlock).                                                            *)
EXTENDS MultiEventX
CONSTANTS Ids, ActIds, RaisingActs, NewTimeouts, WaitTimeouts, Dto, MaxCalls, MaxTime
VARIABLE ncalls
mvars == <<xvars, ncalls>>

MInit == XInit /\ dto = Dto /\ ncalls = 0
Still == now' = now
MBegin(th) ==
   /\ ncalls < MaxCalls /\ ncalls' = ncalls + 1 /\ Still
   /\ \/ \E e \in Ids \ created, to \in NewTimeouts : /\ \A y \in Threads : ~(call[y].op = "new" /\ call[y].e = e)
                                                     /\ Begin(th, now, "new", e, "", to, "")
      \/ \E e \in created : Begin(th, now, "set", e, "", 0, "") \/ Begin(th, now, "clear", e, "", 0, "")
                            \/ Begin(th, now, "isset", e, "", 0, "")
      \/ \E a \in ActIds : /\ a \notin Range(queued) \cup Range(ran) \cup dropped
                           /\ \A y \in Threads : ~(call[y].op = "queue" /\ call[y].a = a)
                           /\ Begin(th, now, "queue", "", a, 0, "")
      \/ \E to \in WaitTimeouts : Begin(th, now, "wait", "", "", to, "")
      \/ Begin(th, now, "wfor", "", "", 0, "") \/ Begin(th, now, "deadline", "", "", 0, "") \/ Begin(th, now, "mset", "", "", 0, "")
      \/ Begin(th, now, "setname", "", "", 0, "x") \/ Begin(th, now, "mforce", "", "", 0, "") \/ Begin(th, now, "mclear", "", "", 0, "")
MLin(th) == Lin(th, now) /\ Still /\ UNCHANGED ncalls
MAct(th) == flusher = th /\ Act(th, Head(queued), Head(queued) \in RaisingActs, now) /\ Still /\ UNCHANGED ncalls
MRet(th) == /\ \/ RetPlain(th) \/ RetNew(th, call[th].ires) \/ RetNames(th, call[th].sres)
               \/ RetDeadline(th, call[th].ires) \/ RetFlag(th, call[th].bres)
               \/ \E b \in BOOLEAN : RetWait(th, b, now)
               \/ RetRefused(th)
            /\ Still /\ UNCHANGED ncalls
(* a wait whose limit is reached returns before the clock goes on *)
Due(th) == call[th].op = "wait" /\ call[th].st = "snapped" /\ (WaitFalseOK(call[th], now) \/ WaitTrueOK(call[th], now))
MTick == /\ now < MaxTime /\ now' = now + 1 /\ \A th \in Threads : ~Due(th)
         /\ UNCHANGED <<pending, created, dl, nm, queued, ran, dropped, flusher, qsince, call, dto, defname, ncalls>>
MNext == MTick \/ \E th \in Threads : MBegin(th) \/ MLin(th) \/ MAct(th) \/ MRet(th)
MSpec == MInit /\ [][MNext]_mvars

(* whoever is inside a call can move, or somebody else can (the flusher), or it is a wait that may last for ever / until a tick *)
CanMove(th) == ENABLED MLin(th) \/ ENABLED MAct(th) \/ ENABLED MRet(th)
NoContractDeadlock ==
   \A th \in Threads : call[th].st # "idle" =>
      \/ CanMove(th) \/ (flusher \notin {None, th} /\ CanMove(flusher))
      \/ (call[th].op = "wait" /\ call[th].st = "snapped" /\ (StuckOK(th) \/ call[th].lo > now))
WaitLimitSane == \A th \in Threads : (call[th].op = "wait" /\ call[th].st = "snapped" /\ call[th].lo # Inf) => call[th].lo <= call[th].hi
=============================================================================
