SPECIFICATION GSpec
CONSTANTS
  Threads = {"main", "w1", "w2"}
  Inf = 1000000
  Slack = 0
  Ids <- Ids3
  ActIds <- Acts1
  RaisingActs = {}
  NewTimeouts = {0, 5}
  NewNames = {"", "mod"}
  DefNames = {"dflt", ""}
  WaitTimeouts = {0, 1000000}
  Dto = 2
  Waiters = {"w1"}
  Depth = 5
  MaxTicks = 1
  MaxClears = 0
  MaxWaits = 1
  MaxDirect = 1
  MaxSetNames = 1
INVARIANT Emit
INVARIANT GenInv
CHECK_DEADLOCK FALSE
