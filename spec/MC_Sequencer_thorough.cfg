SPECIFICATION FairSpec
CONSTANTS
  Kinds = {"d2", "aad", "ar", "dc", "adc", "adx"}
  MaxLen = 2
  Hooks = {"hw", "ext"}
  FaultModes = {"ee", "ew", "we", "ww"}
ACTION_CONSTRAINT StartWhenPolled
INVARIANT TypeOK
INVARIANT ErrorReported
INVARIANT Restartable
INVARIANT BusyIffAlive
INVARIANT StoreCounts
PROPERTY InOrder
PROPERTY OneAtATime
PROPERTY StopNoNewStep
PROPERTY ErrorEnds
PROPERTY CachedSettles
PROPERTY StopEnds
PROPERTY EveryRunEnds
CHECK_DEADLOCK FALSE
