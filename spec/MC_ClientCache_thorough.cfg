SPECIFICATION Spec
CONSTANTS
  Mods = {"m1", "m2"}
  PNames = {"value", "target", "x"}
  ExtraM = {"zz"}
  ExtraP = {"zz"}
  CmdP = {"zz"}
  DescCmds = {"cmd", "stop", "_stop"}
  Wires = {"w1", "w2", "wbad"}
  ValidW = {"w1", "w2"}
  ValidWB = {"w2"}
  Variants = {"a"}
  OtherDescs = {}
  ENames = {"HardwareError", "Bogus"}
  KnownE = {"HardwareError"}
  Texts = {"t1", "tp"}
  PrefTexts = {"tp"}
  PrefClass = "RangeError"
  PrefRest = "t1"
  Stamps = {5, 999}
  MaxNow = 2
  Shapes = {"ok", "okq", "short"}
  LevelKinds = {"node", "module", "param"}
  Kinds = {"updateEvent", "updateItem"}
  Behs = {"ok", "oneshot", "raise"}
  ErrBehs = {"raise"}
  InitDescs <- StdInit
  Descs <- StdDescs
  MaxCbs = 3
  MaxWait = 2
  Depth = 3
CONSTRAINT Bound
INVARIANT TypeOK
INVARIANT NoFuture
INVARIANT LastImport
INVARIANT RegisterSeesCache
INVARIANT ReleasedSeesNew
PROPERTY Ignored
PROPERTY ExactlyOnce
PROPERTY Frame
PROPERTY Isolation
CHECK_DEADLOCK FALSE
