SPECIFICATION DSpec
CONSTANTS
  Atomic = FALSE
  Orders = {"busy_first"}
INVARIANT DTypeOK
INVARIANT BusyWhileRunning
INVARIANT QuiescentNotBusy
CHECK_DEADLOCK FALSE
