SPECIFICATION LSpec
CONSTANTS
  Kinds = {"minmax", "min", "max", "limits"}
  Lo = 0
  Hi = 4
  PVals = {0, 1, 2, 3, 4, 5}
  LVals = {0, 1, 2, 3, 4}
  ForbSets = {{}, {3}}
  HookExcs = {"badvalue", "hardware", "other"}
  Inits = {4, 13, 31}
INVARIANT TypeOK
PROPERTY AcceptedInside
PROPERTY InvertedTupleRefused
PROPERTY NothingUnderInverted
PROPERTY RefusedKeeps
PROPERTY ValueWritesKeepLimits
CHECK_DEADLOCK FALSE
