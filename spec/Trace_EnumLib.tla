--------------------------- MODULE Trace_EnumLib ---------------------------
(* code -> spec: recorded programs over up to three enums (registers) executed on the real frappy.lib.enum.    *)
(* Every event carries the call and its projected result `out`; the result must be the one EnumLib demands      *)
(* (switch set {}), or the one of exactly one deviation switch - then the deviation records itself in `devs`    *)
(* (Dev_FloatTrunc, Dev_Mutable, Dev_PowMember, Dev_ReservedName) and the harness reports the trace unless an   *)
(* (only Dev_Mutable is still open; the other three were repaired and are violations if they come back)        *)
(* open finding carries that signature.  The registers follow the specification; a register whose enum was      *)
(* successfully attacked (Dev_Mutable) is dropped (the harness does not use it any more).                       *)
EXTENDS EnumLib, Json, IOUtils, TLCExt
Traces == JsonDeserialize(IOEnv.TRACE_FILE)
NT == Len(Traces)
NR == 3
VARIABLES t, l, regs, devs
tvars == <<t, l, regs, devs>>
ASSUME \A j \in 1 .. NT : TLCSet(j, 1)
Ev == Traces[t][l]
NoReg == [ok |-> FALSE, nm |-> "", map |-> NoMap]
RE(r) == [nm |-> regs[r].nm, map |-> regs[r].map]

TInit == /\ cur = Null /\ pieces = <<>> /\ act = [a |-> "init"]
         /\ t \in 1 .. NT /\ l = 1 /\ regs = [r \in 1 .. NR |-> NoReg] /\ devs = {}

Judge(F(_), out) ==
  \/ out = F({}) /\ devs' = devs
  \/ out # F({}) /\ \E d \in AllDevs : F({d}) = out /\ devs' = devs \cup {"Dev_" \o d}
Pure(res, out) == out = res /\ devs' = devs
(* an operand that claims to be a member of the register's own enum must be one *)
OwnOK(e, x) == x.ty = "own" => (x.s \in DOMAIN e.map /\ e.map[x.s] = x.v)
Has(r, mn) == regs[r].ok /\ mn \in DOMAIN regs[r].map

TStep ==
  /\ l <= Len(Traces[t])
  /\ l' = l + 1 /\ t' = t
  /\ UNCHANGED vars
  /\ \/ /\ Ev.ev = "new" /\ (Ev.par = "enum" => regs[Ev.src].ok)
        /\ LET parent == IF Ev.par = "enum" THEN RE(Ev.src) ELSE [nm |-> "", map |-> NoMap]
               F(S) == Build(S, Ev.nm, Ev.nmok, Ev.par, parent, Ev.dp, Ev.kp)
           IN /\ Judge(F, Ev.out)
              /\ regs' = IF Ev.out.r = "enum"
                         THEN [regs EXCEPT ![Ev.reg] = [ok |-> TRUE, nm |-> F({}).s,
                                                        map |-> BuiltMap({}, Ev.par, parent, Ev.dp, Ev.kp)]]
                         ELSE regs
     \/ /\ Ev.ev = "proj" /\ regs[Ev.reg].ok /\ Pure(EnumR(RE(Ev.reg)), Ev.out) /\ UNCHANGED regs
     \/ /\ Ev.ev = "ren" /\ regs[Ev.reg].ok
        /\ regs' = [regs EXCEPT ![Ev.reg].nm = Ev.nm]
        /\ Pure(EnumR([nm |-> Ev.nm, map |-> regs[Ev.reg].map]), Ev.out)
     \/ /\ Ev.ev = "look" /\ regs[Ev.reg].ok /\ OwnOK(RE(Ev.reg), Ev.key)
        /\ Pure(Lookup(RE(Ev.reg), Ev.how, Ev.key), Ev.out) /\ UNCHANGED regs
     \/ /\ Ev.ev = "sib" /\ Has(Ev.reg, Ev.mn) /\ Pure(Sibling(RE(Ev.reg), Ev.mn, Ev.key), Ev.out) /\ UNCHANGED regs
     \/ /\ Ev.ev = "rep" /\ regs[Ev.reg].ok /\ Pure(StrR(EnumRepr(RE(Ev.reg))), Ev.out) /\ UNCHANGED regs
     \/ /\ Ev.ev = "cmp" /\ Has(Ev.reg, Ev.mn) /\ OwnOK(RE(Ev.reg), Ev.x)
        /\ LET F(S) == CmpOp(S, RE(Ev.reg), Ev.mn, Ev.op, Ev.side, Ev.x) IN Judge(F, Ev.out)
        /\ UNCHANGED regs
     \/ /\ Ev.ev = "cmp3" /\ Has(Ev.reg, Ev.mn) /\ OwnOK(RE(Ev.reg), Ev.x)
        /\ LET F(S) == CmpDirect(S, RE(Ev.reg), Ev.mn, Ev.x) IN Judge(F, Ev.out)
        /\ UNCHANGED regs
     \/ /\ Ev.ev = "et_look" /\ regs[Ev.reg].ok /\ DOMAIN regs[Ev.reg].map # {} /\ OwnOK(RE(Ev.reg), Ev.key)
        /\ LET F(S) == ViaCopy(S, RE(Ev.reg), TypeLookup(RE(Ev.reg), Ev.key)) IN Judge(F, Ev.out)
        /\ UNCHANGED regs
     \/ /\ Ev.ev = "ar" /\ Has(Ev.reg, Ev.mn) /\ OwnOK(RE(Ev.reg), Ev.x) /\ Ev.op \in BinOps
        /\ LET F(S) == Arith(S, RE(Ev.reg), Ev.mn, Ev.op, Ev.side, Ev.x) IN Judge(F, Ev.out)
        /\ UNCHANGED regs
     \/ /\ Ev.ev = "iop" /\ Has(Ev.reg, Ev.mn) /\ Pure(InPlace({}, RE(Ev.reg), Ev.mn, Ev.op), Ev.out) /\ UNCHANGED regs
     \/ /\ Ev.ev = "cv" /\ Has(Ev.reg, Ev.mn) /\ Ev.what \in ConvOps
        /\ Pure(Conv(RE(Ev.reg), Ev.mn, Ev.what), Ev.out) /\ UNCHANGED regs
     \/ /\ Ev.ev = "mut" /\ regs[Ev.reg].ok /\ Ev.kind \in EnumMuts \cup MemberMuts
        /\ LET F(S) == MutRes(S, RE(Ev.reg), Ev.kind) IN Judge(F, Ev.out)
        /\ regs' = IF Ev.out.r = "accepted" THEN [regs EXCEPT ![Ev.reg] = NoReg] ELSE regs
     \/ /\ Ev.ev = "eqe" /\ regs[Ev.reg].ok /\ regs[Ev.reg2].ok
        /\ Pure(BoolR(regs[Ev.reg].map = regs[Ev.reg2].map), Ev.out) /\ UNCHANGED regs

TSpec == TInit /\ [][TStep]_<<vars, tvars>>

Track == TLCSet(t, IF l > TLCGet(t) THEN l ELSE TLCGet(t))
Done == (l = Len(Traces[t]) + 1) => PrintT(<<"DEVS", t, ToJson(devs)>>)
Sound == \A r \in 1 .. NR : regs[r].ok => Bijection(RE(r))
Verdicts == \A j \in 1 .. NT :
   IF TLCGet(j) = Len(Traces[j]) + 1 THEN PrintT(<<"ACCEPT", j>>)
   ELSE PrintT(<<"REJECT", j, TLCGet(j), "result not allowed by EnumLib">>)
=============================================================================
