--------------------------- MODULE Gen_MultiEventX ---------------------------
(* spec -> code: behaviours of the contract MultiEventX with a driver thread ("main") that makes complete      *)
(* calls one after the other, threads w1, w2 that sit in wait(), and clock ticks; every step carries the        *)
(* expected results and the expected observable state; replayed on the real MultiEvent under the deterministic *)
(* scheduler (harness/props/x04.py).  A step of the driver is a chain of contract actions (begin, effect,      *)
(* actions run, return) - `phase` walks through it, `hist` gets one entry per completed step, after every      *)
(* waiter that can return has returned ("settle").                                                              *)
EXTENDS MultiEventX, Json
CONSTANTS Ids,            \* sequence of sub-event ids, created in this order
          ActIds,         \* sequence of action ids, queued in this order
          RaisingActs,
          NewTimeouts,    \* time-out argument of new(): 0 = none given (default time-out)
          NewNames,       \* name argument of new(): "" = none given
          DefNames,       \* values assigned to multievent.name
          WaitTimeouts,   \* argument of wait(): Inf = none
          Dto,            \* default_timeout of the MultiEvent (Inf = none)
          Waiters, Depth, MaxTicks, MaxClears, MaxWaits, MaxSetNames,
          MaxDirect       \* how often set() / clear() of the MultiEvent itself are tried
VARIABLES hist, phase, cur, ticks, wl
gvars == <<hist, phase, cur, ticks, wl>>
Main == "main"
WT == Waiters \cup {Main}

Cur0 == [act |-> "none", th |-> Main, e |-> "", a |-> "", to |-> 0, name |-> "", ires |-> 0]
Cnt(a) == Cardinality({j \in DOMAIN hist : hist[j].act = a})
NQueued == Len(ran) + Len(queued) + Cardinality(dropped)

GInit == /\ XInit /\ dto = Dto
         /\ hist = <<>> /\ phase = "idle" /\ cur = Cur0 /\ ticks = 0
         /\ wl = [w \in WT |-> [n |-> 0, res |-> FALSE, vt |-> 0]]

Obs == [pend |-> Names(pending), npend |-> Cardinality(pending), dl |-> MaxDl(pending), mset |-> (pending = {}),
        ran |-> ran, nq |-> Len(queued), now |-> now,
        isset |-> {e \in created : e \notin pending},
        blocked |-> {w \in WT : call[w].st = "snapped"},
        wl |-> wl]

TimeStill == now' = now
Blocked(w) == call[w].op = "wait" /\ call[w].st = "snapped"
CanTrue(w) == Blocked(w) /\ call[w].sawQuiet /\ Quiet
CanFalse(w) == Blocked(w) /\ ~CanTrue(w) /\ call[w].lo # Inf /\ call[w].lo <= now
Limits == {call[w].lo : w \in {x \in WT : Blocked(x)}} \ {Inf}
MinLimit == CHOOSE d \in Limits : \A x \in Limits : d <= x

(* ---- the driver chooses its next call *)
Choose ==
   /\ phase = "idle" /\ Len(hist) < Depth /\ call[Main].st = "idle"
   /\ \/ /\ Cardinality(created) < Len(Ids)
         /\ \E to \in NewTimeouts, n \in NewNames :
              /\ cur' = [Cur0 EXCEPT !.act = "new", !.e = Ids[Cardinality(created) + 1], !.to = to, !.name = n]
              /\ Begin(Main, now, "new", Ids[Cardinality(created) + 1], "", to, n)
      \/ \E e \in created : /\ cur' = [Cur0 EXCEPT !.act = "set", !.e = e]
                            /\ Begin(Main, now, "set", e, "", 0, "")
      \/ \E e \in created \ pending : /\ Cnt("clear") < MaxClears
                                      /\ cur' = [Cur0 EXCEPT !.act = "clear", !.e = e]
                                      /\ Begin(Main, now, "clear", e, "", 0, "")
      \/ /\ NQueued < Len(ActIds)
         /\ cur' = [Cur0 EXCEPT !.act = "queue", !.a = ActIds[NQueued + 1]]
         /\ Begin(Main, now, "queue", "", ActIds[NQueued + 1], 0, "")
      \/ \E n \in DefNames : /\ Cnt("setname") < MaxSetNames
                             /\ cur' = [Cur0 EXCEPT !.act = "setname", !.name = n]
                             /\ Begin(Main, now, "setname", "", "", 0, n)
      \/ \E o \in {"mforce", "mclear"} : /\ Cnt("mforce") + Cnt("mclear") < MaxDirect
                                         /\ cur' = [Cur0 EXCEPT !.act = o]
                                         /\ Begin(Main, now, o, "", "", 0, "")
      \/ \E to \in WaitTimeouts : \E w \in WT :
              /\ Cnt("wait") < MaxWaits /\ call[w].st = "idle"
              /\ w = Main => (pending = {} \/ to # Inf \/ MaxDl(pending) # Inf)     \* the driver must come back
              /\ cur' = [Cur0 EXCEPT !.act = "wait", !.th = w, !.to = to]
              /\ Begin(w, now, "wait", "", "", to, "")
   /\ phase' = IF cur'.act \in {"mforce", "mclear"} THEN "ret" ELSE "lin"
   /\ TimeStill /\ UNCHANGED <<hist, ticks, wl>>

Tick == /\ phase = "idle" /\ Len(hist) < Depth /\ ticks < MaxTicks
        /\ now' = now + 1 /\ ticks' = ticks + 1 /\ cur' = [Cur0 EXCEPT !.act = "tick"] /\ phase' = "settle"
        /\ UNCHANGED <<pending, created, dl, nm, queued, ran, dropped, flusher, qsince, call, dto, defname, hist, wl>>

Effect_ == /\ phase = "lin" /\ Lin(cur.th, now)
           /\ phase' = IF flusher' = cur.th THEN "flush" ELSE "ret"
           /\ TimeStill /\ UNCHANGED <<hist, cur, ticks, wl>>
Flush == /\ phase = "flush" /\ Act(cur.th, Head(queued), Head(queued) \in RaisingActs, now)
         /\ phase' = IF flusher' = None THEN "ret" ELSE "flush"
         /\ TimeStill /\ UNCHANGED <<hist, cur, ticks, wl>>
Return ==
   /\ phase = "ret" /\ phase' = "settle" /\ TimeStill /\ UNCHANGED <<hist, ticks>>
   /\ IF cur.act = "wait"
      THEN UNCHANGED <<pending, created, dl, nm, queued, ran, dropped, flusher, qsince, call, dto, defname, cur, wl>>
      ELSE /\ cur' = [cur EXCEPT !.ires = call[cur.th].ires]
           /\ RetPlain(cur.th) \/ RetNew(cur.th, call[cur.th].ires) \/ RetRefused(cur.th)
           /\ UNCHANGED wl

(* ---- every waiter that can return does so before anything else happens; a blocked driver lets the clock run *)
WReturn(w, res) ==
   /\ RetWait(w, res, now)
   /\ wl' = [wl EXCEPT ![w] = [n |-> @.n + 1, res |-> res, vt |-> now]]
   /\ TimeStill /\ UNCHANGED <<hist, cur, ticks, phase>>
Settle ==
   /\ phase = "settle"
   /\ IF \E w \in WT : CanTrue(w) \/ CanFalse(w)
      THEN \E w \in WT : (CanTrue(w) /\ WReturn(w, TRUE)) \/ (CanFalse(w) /\ WReturn(w, FALSE))
      ELSE IF Blocked(Main) /\ Limits # {}
      THEN /\ now' = MinLimit
           /\ UNCHANGED <<pending, created, dl, nm, queued, ran, dropped, flusher, qsince, call, dto, defname, gvars>>
      ELSE /\ hist' = Append(hist, cur @@ [exp |-> Obs]) /\ phase' = "idle" /\ cur' = Cur0
           /\ TimeStill
           /\ UNCHANGED <<pending, created, dl, nm, queued, ran, dropped, flusher, qsince, call, dto, defname, ticks, wl>>

GNext == Choose \/ Tick \/ Effect_ \/ Flush \/ Return \/ Settle
GSpec == GInit /\ [][GNext]_<<xvars, gvars>>

(* constants a configuration file cannot express *)
Ids2 == <<"e1", "e2">>
Ids3 == <<"e1", "e2", "e3">>
Acts0 == <<>>
Acts1 == <<"a1">>
Acts3 == <<"a1", "a2", "a3">>

Emit == (phase = "idle" /\ Len(hist) = Depth) => PrintT(<<"BEH", ToJson(hist)>>)
(* the contract's own invariants hold along the generated behaviours *)
GenInv == ActionsOnce /\ QueuedOnlyWhilePending /\ FlusherHasWork /\ PendingCreated
=============================================================================
