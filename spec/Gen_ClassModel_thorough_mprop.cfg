SPECIFICATION GSpec
CONSTANTS
  NClasses = 4
  NInsts = 1
  Bodies = {}
  Cfgs = {"mvis"}
  Muts = {}
  DescIds = {"d"}
  MaxBases = 1
  MaxMuts = 0
  MaxLevel = 99
  Depth = 5
  RootP = {"new"}
  MixinP = {}
  DerivedP = {}
  DerivedC = {}
  DerivedM = {"bare", "bare2", "prop", "slow", "slow2"}
  DerivedW = {}
  MaxOverrides = 1
  MaxRoots = 1
CONSTRAINT GBound
INVARIANT Emit1
CHECK_DEADLOCK FALSE
