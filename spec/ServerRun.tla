------------------------------ MODULE ServerRun ------------------------------
(* X06 - the run loop of a frappy node, code-shaped: one action per step of Server.run(), restart(),      *)
(* shutdown(), _interfaceThread and of the discovery responder thread (frappy/server.py).  Generations    *)
(* are counted.  Two designs, selected by constants:                                                       *)
(*   Repaired = FALSE : the code as pinned.  `_restart` is read and written by run(), restart() and       *)
(*                      shutdown() without a lock; restart() / shutdown() act on what is registered in    *)
(*                      self.interfaces / self.discovery at the moment of the call.                        *)
(*   Repaired = TRUE  : the proposed repair (/tmp/X06-fixes): one lock for the loop head, the             *)
(*                      registration of an interface, the creation of the responder and the whole of      *)
(*                      restart() / shutdown(); a flag `stopping` that makes late comers give up.          *)
(*   FixNoIf          : 'no interface started' shuts the modules down before run() returns (98cfad6).     *)
(* TLC checks the properties below on the repaired design (must hold) and on the pinned one (must fail:   *)
(* MC_ServerRun_asimpl_*.cfg - each failure is a finding reproduced on the real code by x06.py).          *)
EXTENDS Integers, Sequences, FiniteSets, TLC

CONSTANTS NIf,        \* number of configured interfaces
          Kinds,      \* what may happen to an interface at a (re)start: "ok", "fail", "late" (up after the time-out)
          Req,        \* requester threads: a subset of {"res1", "res2", "res3", "shut1", "shut2"}
          Repaired, FixNoIf,
          Crashes     \* BOOLEAN: a serving loop may fail

Ifs == 1 .. NIf
RKind == [r \in Req |-> IF r \in {"res1", "res2", "res3"} THEN "restart" ELSE "shutdown"]
Restarters == {r \in Req : RKind[r] = "restart"}
Stoppers == {r \in Req : RKind[r] = "shutdown"}
MaxGen == 1 + Cardinality(Restarters)
Gens == 1 .. MaxGen

VARIABLES gen, mpc, kind, rflag, stopping, lock, mods, ifdict, reg, regord, ipc, isreq, isdone, trig, failed,
          discAttr, discOpen, given, dthr, rpc, rdict, rseen, rsize, rcur,
          hooks, downlog, reports, ann,
          \* witnesses of the properties (written, never read by the design)
          annOK, portsOK, bootAfterShut, rexc, racc, crashed

vars == <<gen, mpc, kind, rflag, stopping, lock, mods, ifdict, reg, regord, ipc, isreq, isdone, trig, failed,
          discAttr, discOpen, given, dthr, rpc, rdict, rseen, rsize, rcur, hooks, downlog, reports, ann,
          annOK, portsOK, bootAfterShut, rexc, racc, crashed>>

mainv == <<gen, mpc, kind, mods, hooks, downlog, reports, ann, annOK, bootAfterShut>>
ifv == <<ipc, isdone, trig, failed, crashed>>     \* (+ reg, regord: the dictionary self.interfaces, in insertion order)
reqv == <<rpc, rdict, rseen, rsize, rcur, rexc, racc>>
discv == <<discAttr, discOpen, given, dthr, portsOK>>

Init == /\ gen = 0 /\ mpc = "loop" /\ kind = [i \in Ifs |-> "ok"] /\ rflag = TRUE /\ stopping = FALSE
        /\ lock = "free" /\ mods = [g \in Gens |-> "none"] /\ ifdict = 0 /\ reg = {} /\ regord = <<>>
        /\ ipc = [i \in Ifs |-> "none"] /\ isreq = [i \in Ifs |-> FALSE] /\ isdone = [i \in Ifs |-> FALSE]
        /\ trig = {} /\ failed = {} /\ discAttr = 0 /\ discOpen = {} /\ given = [g \in Gens |-> {}]
        /\ dthr = [g \in Gens |-> "none"]
        /\ rpc = [r \in Req |-> "idle"] /\ rdict = [r \in Req |-> 0] /\ rseen = [r \in Req |-> {}]
        /\ rsize = [r \in Req |-> 0] /\ rcur = [r \in Req |-> 0]
        /\ hooks = [g \in Gens |-> 0] /\ downlog = 0 /\ reports = {} /\ ann = {}
        /\ annOK = TRUE /\ portsOK = TRUE /\ bootAfterShut = FALSE /\ rexc = [r \in Req |-> FALSE]
        /\ racc = [r \in Req |-> -1] /\ crashed = {}

(* an interface whose socket is open / which accepts connections *)
SocketOpen(i) == ipc[i] \in {"bound", "registered", "preserve", "serving", "served", "skip", "crashed"}
Accepting(i) == ipc[i] \in {"bound", "registered", "preserve", "serving"}
ShutdownReturned == \E r \in Stoppers : rpc[r] = "done"

------------------------------------------------------------------------------
(* the thread executing run() *)

NewGeneration == /\ gen' = gen + 1
                 /\ bootAfterShut' = (bootAfterShut \/ ShutdownReturned)

(* pinned: `while self._restart:` and `self._restart = False` are two steps *)
M_LoopTest == /\ ~Repaired /\ mpc = "loop"
              /\ mpc' = IF rflag THEN "clear" ELSE "logdown"
              /\ UNCHANGED <<gen, kind, rflag, stopping, lock, mods, ifdict, reg, regord, hooks, downlog, reports, ann,
                             annOK, bootAfterShut>> /\ UNCHANGED <<ifv, isreq, reqv, discv>>
M_Clear == /\ ~Repaired /\ mpc = "clear"
           /\ rflag' = FALSE /\ mpc' = "cfg" /\ NewGeneration
           /\ UNCHANGED <<kind, stopping, lock, mods, ifdict, reg, regord, hooks, downlog, reports, ann, annOK>>
           /\ UNCHANGED <<ifv, isreq, reqv, discv>>
(* repaired: with self._lock: test, clear, reset `stopping`, fresh self.interfaces *)
M_LoopHead == /\ Repaired /\ mpc = "loop" /\ lock = "free"
              /\ IF rflag
                 THEN /\ rflag' = FALSE /\ stopping' = FALSE /\ mpc' = "cfg" /\ NewGeneration
                      /\ ifdict' = gen + 1 /\ reg' = {} /\ regord' = <<>>
                 ELSE /\ mpc' = "logdown" /\ UNCHANGED <<rflag, stopping, gen, bootAfterShut, ifdict, reg, regord>>
              /\ UNCHANGED <<kind, lock, mods, hooks, downlog, reports, ann, annOK>>
              /\ UNCHANGED <<ifv, isreq, reqv, discv>>

(* _processCfg: modules created and started; what will happen to the interfaces this time is chosen here *)
M_Cfg == /\ mpc = "cfg"
         /\ mods' = [mods EXCEPT ![gen] = "started"]
         /\ kind' \in [Ifs -> Kinds]
         /\ (\E i \in Ifs : kind'[i] = "late") => (\E i \in Ifs : kind'[i] = "ok")
         /\ mpc' = IF Repaired THEN "spawn" ELSE "dict"
         /\ UNCHANGED <<gen, rflag, stopping, lock, ifdict, reg, regord, hooks, downlog, reports, ann, annOK, bootAfterShut>>
         /\ UNCHANGED <<ifv, isreq, reqv, discv>>
(* pinned: self.interfaces = {} *)
M_Dict == /\ mpc = "dict"
          /\ ifdict' = gen /\ reg' = {} /\ regord' = <<>> /\ mpc' = "spawn"
          /\ UNCHANGED <<gen, kind, rflag, stopping, lock, mods, hooks, downlog, reports, ann, annOK, bootAfterShut>>
          /\ UNCHANGED <<ifv, isreq, reqv, discv>>
(* with lock: one thread per interface *)
M_Spawn == /\ mpc = "spawn" /\ lock = "free"
           /\ ipc' = [i \in Ifs |-> "new"] /\ isreq' = [i \in Ifs |-> FALSE] /\ isdone' = [i \in Ifs |-> FALSE]
           /\ trig' = {} /\ failed' = {} /\ crashed' = {} /\ mpc' = "wait"
           /\ UNCHANGED <<gen, kind, rflag, stopping, lock, mods, ifdict, reg, regord, hooks, downlog, reports, ann, annOK,
                          bootAfterShut>> /\ UNCHANGED <<reqv, discv>>
(* interfaces_started.wait(): all triggers (M_WaitAll), or the 12 s time-out (only a late interface makes it elapse) *)
WaitOver == \A i \in Ifs : i \in trig \/ (kind[i] = "late" /\ ipc[i] = "begun")
M_Wait == /\ mpc = "wait"
          /\ WaitOver
          /\ mpc' = "report"
          /\ UNCHANGED <<gen, kind, rflag, stopping, lock, mods, ifdict, reg, regord, hooks, downlog, reports, ann, annOK,
                         bootAfterShut>> /\ UNCHANGED <<ifv, isreq, reqv, discv>>
(* error lines for every interface that failed or has not answered in time; then the decision *)
ToReport == failed \cup (Ifs \ trig)
M_Report == /\ mpc = "report"
            /\ reports' = ToReport
            /\ mpc' = IF reg = {} /\ ~Repaired THEN "noif" ELSE "prop"
            /\ UNCHANGED <<gen, kind, rflag, stopping, lock, mods, ifdict, reg, regord, hooks, downlog, ann, annOK,
                           bootAfterShut>> /\ UNCHANGED <<ifv, isreq, reqv, discv>>
M_WaitAll == M_Wait /\ \A i \in Ifs : i \in trig
M_WaitTimeout == M_Wait /\ \E i \in Ifs : i \notin trig
M_NoIf == /\ mpc = "noif" /\ ~Repaired
          /\ mpc' = IF FixNoIf THEN "noifdown" ELSE "returned"
          /\ UNCHANGED <<gen, kind, rflag, stopping, lock, mods, ifdict, reg, regord, hooks, downlog, reports, ann, annOK,
                         bootAfterShut>> /\ UNCHANGED <<ifv, isreq, reqv, discv>>
(* 98cfad6: shutdown_modules() before the return (it first waits for the poll threads: the interface threads, which *)
(* have all failed, are over by then)                                                                              *)
M_NoIfDown == /\ mpc = "noifdown"
              /\ \A i \in Ifs : ipc[i] = "end"
              /\ mods' = [mods EXCEPT ![gen] = "down"] /\ mpc' = "returned"
              /\ UNCHANGED <<gen, kind, rflag, stopping, lock, ifdict, reg, regord, hooks, downlog, reports, ann, annOK,
                             bootAfterShut>> /\ UNCHANGED <<ifv, isreq, reqv, discv>>
(* _interfaces property and 'startup done with interface(s)' *)
M_Prop == /\ mpc = "prop" /\ ~Repaired
          /\ ann' = reg /\ annOK' = (annOK /\ reg \subseteq {i \in Ifs : Accepting(i) \/ i \in crashed})
          /\ mpc' = "disc"
          /\ UNCHANGED <<gen, kind, rflag, stopping, lock, mods, ifdict, reg, regord, hooks, downlog, reports, bootAfterShut>>
          /\ UNCHANGED <<ifv, isreq, reqv, discv>>
(* repaired: with self._lock: nothing was asked to stop and something listens: property, log line, responder; *)
(* nothing listens: 'no interface started', and who comes late gives up                                       *)
M_PropDisc == /\ mpc = "prop" /\ Repaired /\ lock = "free"
              /\ IF stopping \/ reg = {}
                 THEN /\ UNCHANGED <<ann, annOK, discv>>
                      /\ stopping' = TRUE
                 ELSE /\ ann' = reg /\ annOK' = (annOK /\ reg \subseteq {i \in Ifs : Accepting(i) \/ i \in crashed})
                      /\ discAttr' = gen /\ discOpen' = discOpen \cup {gen}
                      /\ given' = [given EXCEPT ![gen] = reg] /\ dthr' = [dthr EXCEPT ![gen] = "created"]
                      /\ UNCHANGED <<portsOK, stopping>>
              /\ mpc' = "join"
              /\ UNCHANGED <<gen, kind, rflag, lock, mods, ifdict, reg, regord, hooks, downlog, reports, bootAfterShut>>
              /\ UNCHANGED <<ifv, isreq, reqv>>
(* self.discovery = UDPListener(...); mkthread(self.discovery.run) *)
M_Disc == /\ mpc = "disc"
          /\ discAttr' = gen /\ discOpen' = discOpen \cup {gen}
          /\ given' = [given EXCEPT ![gen] = reg] /\ dthr' = [dthr EXCEPT ![gen] = "created"]
          /\ UNCHANGED portsOK
          /\ mpc' = "join"
          /\ UNCHANGED <<gen, kind, rflag, stopping, lock, mods, ifdict, reg, regord, hooks, downlog, reports, ann, annOK,
                         bootAfterShut>> /\ UNCHANGED <<ifv, isreq, reqv>>
(* for t in iface_threads: t.join() *)
(* repaired: the wind-down has begun - from now on restart requests are ignored *)
M_Join == /\ mpc = "join" /\ (Repaired => lock = "free")
          /\ \A i \in Ifs : ipc[i] = "end"
          /\ mpc' = "shutmods" /\ stopping' = (stopping \/ Repaired)
          /\ UNCHANGED <<gen, kind, rflag, lock, mods, ifdict, reg, regord, hooks, downlog, reports, ann, annOK,
                         bootAfterShut>> /\ UNCHANGED <<ifv, isreq, reqv, discv>>
M_ShutMods == /\ mpc = "shutmods"
              /\ mods' = [mods EXCEPT ![gen] = "down"] /\ mpc' = "hooktest"
              /\ UNCHANGED <<gen, kind, rflag, stopping, lock, ifdict, reg, regord, hooks, downlog, reports, ann, annOK,
                             bootAfterShut>> /\ UNCHANGED <<ifv, isreq, reqv, discv>>
(* if self._restart: self.restart_hook() *)
M_HookTest == /\ mpc = "hooktest"
              /\ hooks' = IF rflag THEN [hooks EXCEPT ![gen] = @ + 1] ELSE hooks
              /\ mpc' = "loop"
              /\ UNCHANGED <<gen, kind, rflag, stopping, lock, mods, ifdict, reg, regord, downlog, reports, ann, annOK,
                             bootAfterShut>> /\ UNCHANGED <<ifv, isreq, reqv, discv>>
M_LogDown == /\ mpc = "logdown"
             /\ downlog' = downlog + 1 /\ mpc' = "returned"
             /\ UNCHANGED <<gen, kind, rflag, stopping, lock, mods, ifdict, reg, regord, hooks, reports, ann, annOK,
                            bootAfterShut>> /\ UNCHANGED <<ifv, isreq, reqv, discv>>

Main == M_LoopTest \/ M_Clear \/ M_LoopHead \/ M_Cfg \/ M_Dict \/ M_Spawn \/ M_Wait \/ M_Report \/ M_NoIf \/ M_NoIfDown
        \/ M_Prop \/ M_PropDisc \/ M_Disc \/ M_Join \/ M_ShutMods \/ M_HookTest \/ M_LogDown

------------------------------------------------------------------------------
(* _interfaceThread of interface i *)

IfUnch == UNCHANGED <<mainv, rflag, stopping, lock, ifdict, reqv, discv>>

(* the thread begins *)
I_Begin(i) == /\ ipc[i] = "new"
              /\ ipc' = [ipc EXCEPT ![i] = "begun"]
              /\ UNCHANGED <<reg, regord, isreq, isdone, trig, failed, crashed>> /\ IfUnch
(* with cls(...) as interface: the constructor binds (a late one only after the time-out has elapsed) *)
I_Construct(i) == /\ ipc[i] = "begun"
                  /\ kind[i] = "late" => mpc \notin {"spawn", "wait"}
                  /\ ipc' = [ipc EXCEPT ![i] = IF kind[i] = "fail" THEN "excfail" ELSE "bound"]
                  /\ UNCHANGED <<reg, regord, isreq, isdone, trig, failed, crashed>> /\ IfUnch
(* with lock: self.interfaces[iface] = interface - the repaired design gives up when a stop was requested *)
I_Register(i) == /\ ipc[i] = "bound" /\ lock = "free"
                 /\ IF Repaired /\ stopping
                    THEN ipc' = [ipc EXCEPT ![i] = "skip"] /\ UNCHANGED <<reg, regord>>
                    ELSE ipc' = [ipc EXCEPT ![i] = "registered"] /\ reg' = reg \cup {i} /\ regord' = Append(regord, i)
                 /\ UNCHANGED <<isreq, isdone, trig, failed, crashed>> /\ IfUnch
I_Trigger(i) == /\ ipc[i] \in {"registered", "skip"}
                /\ trig' = trig \cup {i}
                /\ ipc' = [ipc EXCEPT ![i] = IF @ = "skip" THEN "served" ELSE "preserve"]
                /\ UNCHANGED <<reg, regord, isreq, isdone, failed, crashed>> /\ IfUnch
(* serve_forever: clears the 'is shut down' event, loops until asked to stop *)
I_ServeBegin(i) == /\ ipc[i] = "preserve"
                   /\ isdone' = [isdone EXCEPT ![i] = FALSE] /\ ipc' = [ipc EXCEPT ![i] = "serving"]
                   /\ UNCHANGED <<reg, regord, isreq, trig, failed, crashed>> /\ IfUnch
I_ServeEnd(i) == /\ ipc[i] = "serving" /\ isreq[i]
                 /\ isreq' = [isreq EXCEPT ![i] = FALSE] /\ isdone' = [isdone EXCEPT ![i] = TRUE]
                 /\ ipc' = [ipc EXCEPT ![i] = "served"]
                 /\ UNCHANGED <<reg, regord, trig, failed, crashed>> /\ IfUnch
I_Crash(i) == /\ Crashes /\ ipc[i] = "serving" /\ ~isreq[i]
              /\ isdone' = [isdone EXCEPT ![i] = TRUE] /\ ipc' = [ipc EXCEPT ![i] = "crashed"]
              /\ crashed' = crashed \cup {i}
              /\ UNCHANGED <<reg, regord, isreq, trig, failed>> /\ IfUnch
(* server_close() by `with` *)
I_Close(i) == /\ ipc[i] \in {"served", "crashed"}
              /\ ipc' = [ipc EXCEPT ![i] = IF @ = "crashed" THEN "excfail" ELSE "closing"]
              /\ UNCHANGED <<reg, regord, isreq, isdone, trig, failed, crashed>> /\ IfUnch
(* with lock: interfaces.remove(iface)   resp.   failed[iface] = e; start_cb() *)
I_Finish(i) == /\ ipc[i] \in {"closing", "excfail"} /\ lock = "free"
               /\ failed' = IF ipc[i] = "excfail" THEN failed \cup {i} ELSE failed
               /\ trig' = IF ipc[i] = "excfail" THEN trig \cup {i} ELSE trig
               /\ ipc' = [ipc EXCEPT ![i] = "ending"]
               /\ UNCHANGED <<reg, regord, isreq, isdone, crashed>> /\ IfUnch
(* the thread function returns *)
I_End(i) == /\ ipc[i] = "ending"
            /\ ipc' = [ipc EXCEPT ![i] = "end"]
            /\ UNCHANGED <<reg, regord, isreq, isdone, trig, failed, crashed>> /\ IfUnch

Iface(i) == I_Begin(i) \/ I_Construct(i) \/ I_Register(i) \/ I_Trigger(i) \/ I_ServeBegin(i) \/ I_ServeEnd(i) \/ I_Crash(i)
            \/ I_Close(i) \/ I_Finish(i) \/ I_End(i)

------------------------------------------------------------------------------
(* the discovery responder thread of generation g: start-up broadcast, then answers until its socket is closed *)
D_Run(g) == /\ dthr[g] = "created"
            /\ IF g \in discOpen
               THEN /\ dthr' = [dthr EXCEPT ![g] = "running"]
                    /\ portsOK' = (portsOK /\ g = gen /\ given[g] \subseteq {i \in Ifs : Accepting(i) \/ i \in crashed})
               ELSE dthr' = [dthr EXCEPT ![g] = "ended"] /\ UNCHANGED portsOK
            /\ UNCHANGED <<mainv, rflag, stopping, lock, ifdict, reg, regord, ifv, isreq, reqv, discAttr, discOpen, given>>
D_End(g) == /\ dthr[g] = "running" /\ g \notin discOpen
            /\ dthr' = [dthr EXCEPT ![g] = "ended"]
            /\ UNCHANGED <<mainv, rflag, stopping, lock, ifdict, reg, regord, ifv, isreq, reqv, discAttr, discOpen, given,
                           portsOK>>

------------------------------------------------------------------------------
(* a thread calling restart() or shutdown() *)

ReqUnch == UNCHANGED <<mainv, ifdict, reg, regord, ifv, given, dthr, portsOK>>

R_Begin(r) == /\ rpc[r] = "idle"
              /\ rpc' = [rpc EXCEPT ![r] = IF Repaired THEN "lock" ELSE IF RKind[r] = "restart" THEN "test" ELSE "set"]
              /\ UNCHANGED <<rflag, stopping, lock, isreq, discAttr, discOpen, rdict, rseen, rsize, rcur, rexc, racc>>
              /\ ReqUnch
(* pinned restart(): if not self._restart: *)
R_Test(r) == /\ rpc[r] = "test"
             /\ rpc' = [rpc EXCEPT ![r] = IF rflag THEN "done" ELSE "set"]
             /\ racc' = [racc EXCEPT ![r] = IF rflag THEN -2 ELSE @]
             /\ UNCHANGED <<rflag, stopping, lock, isreq, discAttr, discOpen, rdict, rseen, rsize, rcur, rexc>>
             /\ ReqUnch
(* pinned: self._restart = True / False *)
R_Set(r) == /\ rpc[r] = "set"
            /\ rflag' = (RKind[r] = "restart")
            /\ racc' = [racc EXCEPT ![r] = gen]
            /\ rpc' = [rpc EXCEPT ![r] = "disc"]
            /\ UNCHANGED <<stopping, lock, isreq, discAttr, discOpen, rdict, rseen, rsize, rcur, rexc>>
            /\ ReqUnch
(* repaired: with self._lock: decide *)
R_Acquire(r) == /\ rpc[r] = "lock" /\ lock = "free"
                /\ IF RKind[r] = "restart" /\ stopping
                   THEN /\ rpc' = [rpc EXCEPT ![r] = "done"] /\ racc' = [racc EXCEPT ![r] = -2]
                        /\ UNCHANGED <<rflag, stopping, lock>>
                   ELSE /\ lock' = r /\ stopping' = TRUE /\ rflag' = (RKind[r] = "restart")
                        /\ racc' = [racc EXCEPT ![r] = gen]
                        /\ rpc' = [rpc EXCEPT ![r] = "disc"]
                /\ UNCHANGED <<isreq, discAttr, discOpen, rdict, rseen, rsize, rcur, rexc>>
                /\ ReqUnch
(* if self.discovery: self.discovery.shutdown() *)
R_Disc(r) == /\ rpc[r] = "disc"
             /\ discOpen' = discOpen \ {discAttr}
             /\ rpc' = [rpc EXCEPT ![r] = "iter"]
             /\ UNCHANGED <<rflag, stopping, lock, isreq, discAttr, rdict, rseen, rsize, rcur, rexc, racc>>
             /\ ReqUnch
(* for iface in self.interfaces.values():   - the attribute does not exist before the first generation (pinned) *)
R_Iter(r) == /\ rpc[r] = "iter"
             /\ IF ifdict = 0
                THEN /\ rexc' = [rexc EXCEPT ![r] = ~Repaired]
                     /\ rpc' = [rpc EXCEPT ![r] = IF Repaired THEN "rel" ELSE "done"]
                     /\ UNCHANGED <<rdict, rsize, rseen>>
                ELSE /\ rdict' = [rdict EXCEPT ![r] = ifdict] /\ rsize' = [rsize EXCEPT ![r] = Cardinality(reg)]
                     /\ rseen' = [rseen EXCEPT ![r] = {}] /\ rpc' = [rpc EXCEPT ![r] = "next"]
                     /\ UNCHANGED rexc
             /\ UNCHANGED <<rflag, stopping, lock, isreq, discAttr, discOpen, rcur, racc>>
             /\ ReqUnch
(* next element of the dictionary: an old dictionary holds only interfaces that have ended (no-ops); a dictionary *)
(* that grew while it is iterated raises RuntimeError; iface.shutdown() sets the request ...                      *)
Finished(r) == [rpc EXCEPT ![r] = IF Repaired THEN "rel" ELSE "done"]
R_Next(r) == /\ rpc[r] = "next"
             /\ IF rdict[r] # ifdict THEN rpc' = Finished(r) /\ UNCHANGED <<rexc, rcur, isreq>>
                ELSE IF Cardinality(reg) # rsize[r]
                     THEN rpc' = [rpc EXCEPT ![r] = "done"] /\ rexc' = [rexc EXCEPT ![r] = TRUE] /\ UNCHANGED <<rcur, isreq>>
                ELSE IF reg \subseteq rseen[r] THEN rpc' = Finished(r) /\ UNCHANGED <<rexc, rcur, isreq>>
                ELSE LET k == CHOOSE j \in DOMAIN regord : regord[j] \notin rseen[r]
                                        /\ \A j2 \in 1 .. j - 1 : regord[j2] \in rseen[r]         \* (insertion order)
                         i == regord[k] IN
                        /\ rcur' = [rcur EXCEPT ![r] = i] /\ isreq' = [isreq EXCEPT ![i] = TRUE]
                        /\ rpc' = [rpc EXCEPT ![r] = "waitif"] /\ UNCHANGED rexc
             /\ UNCHANGED <<rflag, stopping, lock, discAttr, discOpen, rdict, rseen, rsize, racc>>
             /\ ReqUnch
(* ... and waits until the serving loop has been left *)
R_WaitIf(r) == /\ rpc[r] = "waitif" /\ (isdone[rcur[r]] \/ rdict[r] # ifdict)
               /\ rseen' = [rseen EXCEPT ![r] = @ \cup {rcur[r]}]
               /\ rpc' = [rpc EXCEPT ![r] = "next"]
               /\ UNCHANGED <<rflag, stopping, lock, isreq, discAttr, discOpen, rdict, rsize, rcur, rexc, racc>>
               /\ ReqUnch
R_Release(r) == /\ rpc[r] = "rel"
                /\ lock' = "free" /\ rpc' = [rpc EXCEPT ![r] = "done"]
                /\ UNCHANGED <<rflag, stopping, isreq, discAttr, discOpen, rdict, rseen, rsize, rcur, rexc, racc>>
                /\ ReqUnch

ReqStep(r) == R_Test(r) \/ R_Set(r) \/ R_Acquire(r) \/ R_Disc(r) \/ R_Iter(r) \/ R_Next(r) \/ R_WaitIf(r) \/ R_Release(r)

------------------------------------------------------------------------------
Next == Main \/ (\E i \in Ifs : Iface(i)) \/ (\E g \in Gens : D_Run(g) \/ D_End(g))
        \/ (\E r \in Req : R_Begin(r) \/ ReqStep(r))

Fair == /\ WF_vars(Main)
        /\ \A i \in Ifs : WF_vars(I_Begin(i) \/ I_Construct(i) \/ I_Register(i) \/ I_Trigger(i) \/ I_ServeBegin(i) \/ I_ServeEnd(i)
                                  \/ I_Close(i) \/ I_Finish(i) \/ I_End(i))
        /\ \A g \in Gens : WF_vars(D_Run(g) \/ D_End(g))
        /\ \A r \in Req : WF_vars(ReqStep(r))
Spec == Init /\ [][Next]_vars /\ Fair

------------------------------------------------------------------------------
(* G1 an interface has its socket open only while the modules of its generation are started *)
ModulesBeforeListen == \A i \in Ifs : SocketOpen(i) => (gen >= 1 /\ mods[gen] = "started")
(* G2 what is announced is what listens *)
AnnounceExact == annOK /\ portsOK
(* G4 / S2 when run() has returned nothing is left *)
CleanEnd == mpc = "returned" =>
              /\ \A g \in Gens : mods[g] # "started"
              /\ \A i \in Ifs : ipc[i] \in {"none", "ending", "end"}
(* G5 a generation begins when the previous one is completely down, the hook called once *)
GenerationOrder == (mpc = "cfg" /\ gen > 1) =>
                      /\ mods[gen - 1] = "down" /\ hooks[gen - 1] = 1
                      /\ discOpen = {}
                      /\ \A i \in Ifs : ipc[i] = "end"
OneResponder == Cardinality(discOpen) <= 1
(* S1 *)
ShutdownFinal == ~bootAfterShut
(* E1 *)
RequestsReturn == \A r \in Req : ~rexc[r]
(* exactly one generation per accepted restart request *)
OneGenPerRestart == gen <= 1 + Cardinality({r \in Restarters : racc[r] >= 0})
(* S2 a shutdown request is never lost *)
ShutdownHonoured == \A r \in Stoppers : (rpc[r] = "done") ~> (mpc = "returned")
(* R2 an accepted restart request leads to a new generation unless a shutdown was requested *)
RestartHonoured == \A r \in Restarters :
                      (rpc[r] = "done" /\ racc[r] >= 0) ~> (gen > racc[r] \/ \E q \in Stoppers : rpc[q] # "idle" \/ mpc = "returned")
(* no thread waits for ever *)
Terminates == \A r \in Req : (rpc[r] # "idle") ~> (rpc[r] = "done")
TypeOK == /\ gen \in 0 .. MaxGen /\ lock \in {"free"} \cup Req /\ reg \subseteq Ifs /\ downlog \in 0 .. 1
          /\ \A g \in Gens : hooks[g] \in 0 .. 1
=============================================================================
