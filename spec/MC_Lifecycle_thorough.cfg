SPECIFICATION MC3Spec
CONSTANTS
  Names = {"a", "b", "c"}
  Missing = "zz"
  MaxMods = 3
  MaxEdges = 2
INVARIANT ReadyMeansStarted
INVARIANT RefusedClean
INVARIANT ShutdownOrder
INVARIANT NotStuck
CHECK_DEADLOCK FALSE
