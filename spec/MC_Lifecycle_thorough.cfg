SPECIFICATION MCSpec
CONSTANTS
  Names = {"a", "b", "c"}
  Missing = "zz"
  MaxMods = 3
INVARIANT ReadyMeansStarted
INVARIANT RefusedClean
INVARIANT ShutdownOrder
INVARIANT NotStuck
CHECK_DEADLOCK FALSE
