SPECIFICATION Spec
CONSTANTS
  Families = {"A1", "B", "C1", "E"}
PROPERTY DescriptionTrue
CHECK_DEADLOCK FALSE
