SPECIFICATION Spec
CONSTANTS
  Families = {"A1", "B", "C0", "E", "K"}
PROPERTY DescriptionTrue
CHECK_DEADLOCK FALSE
