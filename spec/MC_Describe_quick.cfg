SPECIFICATION Spec
CONSTANTS
  Families = {"A1", "B", "C0", "E0", "K0", "R"}
PROPERTY DescriptionTrue
PROPERTY DescriptionStable
CHECK_DEADLOCK FALSE
