SPECIFICATION Spec
CONSTANTS
  Families = {"A1", "B", "C1"}
PROPERTY DescriptionTrue
CHECK_DEADLOCK FALSE
