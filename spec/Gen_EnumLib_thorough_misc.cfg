SPECIFICATION GSpec
VIEW GView
CONSTANTS
  Names = {"a", "b", "c"}
  IntVals <- IV_quick
  Specials = {"none", "ref"}
  DispNames = {"", "x"}
  MaxPieces = 2
  MaxExt = 1
  MaxDepth = 2
  AsImpl = {}
  Families = {"look", "conv", "mut", "eqe", "etype"}
CHECK_DEADLOCK FALSE
