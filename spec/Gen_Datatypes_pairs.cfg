SPECIFICATION Spec
CONSTANTS
  Tier <- GTier
  Shard <- GShard
  NShards <- GNShards
INVARIANT EmitPairs
CHECK_DEADLOCK FALSE
