SPECIFICATION Spec
CONSTANTS
  Tier = "x-quick"
  Shard = 0
  NShards = 1
INVARIANT CmdRoundTrip
CHECK_DEADLOCK FALSE
