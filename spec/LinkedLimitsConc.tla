-------------------------- MODULE LinkedLimitsConc --------------------------
(* C18, concurrent variant of LinkedLimits (design level): thread W writes a  *)
(* value to p while thread L writes limit parameters of the same module.  The *)
(* generated write method validates, runs the check hooks (the automatic      *)
(* limit check among them), calls the driver and stores the value - all under *)
(* the module's access lock, which write_<p>_min / _max / _limits take as     *)
(* well (frappy/modulebase.py new_wfunc, checkLimits).  Locked = FALSE is the *)
(* variant in which validation and checks run before the lock is taken: TLC   *)
(* must find a value accepted outside the limits current at acceptance.       *)
EXTENDS Integers, TLC
CONSTANTS Locked, Vs, Ls          \* values written to p, values written to the upper limit

VARIABLES hi, val, wpc, wv, lpc, lv, lock
vars == <<hi, val, wpc, wv, lpc, lv, lock>>

Init == /\ hi = 10 /\ val = 0
        /\ wpc = "idle" /\ wv \in Vs /\ lpc = "idle" /\ lv \in Ls /\ lock = "free"

WEnter ==  /\ wpc = "idle" /\ Locked /\ lock = "free" /\ lock' = "W" /\ wpc' = "check"
           /\ UNCHANGED <<hi, val, wv, lpc, lv>>
WSkip ==   /\ wpc = "idle" /\ ~Locked /\ wpc' = "check" /\ UNCHANGED <<hi, val, wv, lpc, lv, lock>>
WCheck ==  /\ wpc = "check"                       \* the automatic limit check
           /\ wpc' = (IF wv <= hi THEN (IF Locked THEN "write" ELSE "lock") ELSE "refused")
           /\ lock' = (IF wv > hi /\ Locked THEN "free" ELSE lock)
           /\ UNCHANGED <<hi, val, wv, lpc, lv>>
WLock ==   /\ wpc = "lock" /\ lock = "free" /\ lock' = "W" /\ wpc' = "write"
           /\ UNCHANGED <<hi, val, wv, lpc, lv>>
WAccept == /\ wpc = "write" /\ val' = wv /\ wpc' = "accepted" /\ lock' = "free"
           /\ UNCHANGED <<hi, wv, lpc, lv>>
LEnter ==  /\ lpc = "idle" /\ lock = "free" /\ lock' = "L" /\ lpc' = "write"
           /\ UNCHANGED <<hi, val, wpc, wv, lv>>
LSet ==    /\ lpc = "write" /\ hi' = lv /\ lpc' = "done" /\ lock' = "free"
           /\ UNCHANGED <<val, wpc, wv, lv>>
Next == WEnter \/ WSkip \/ WCheck \/ WLock \/ WAccept \/ LEnter \/ LSet
Spec == Init /\ [][Next]_vars

(* a value is accepted only inside the limits that are current when it is accepted *)
AcceptedWithinCurrent == [][WAccept => wv <= hi]_vars
=============================================================================
