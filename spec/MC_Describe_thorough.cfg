SPECIFICATION Spec
CONSTANTS
  Families = {"A", "B", "C1", "C2"}
PROPERTY DescriptionTrue
CHECK_DEADLOCK FALSE
