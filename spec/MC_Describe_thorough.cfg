SPECIFICATION Spec
CONSTANTS
  Families = {"A", "B", "C1", "C2", "E"}
PROPERTY DescriptionTrue
PROPERTY DescriptionStable
CHECK_DEADLOCK FALSE
