SPECIFICATION GSpec
CONSTANTS
  MaxIf = 3
  MaxGen = 2
  RestartRule = "stop_old"
  PortRule = "opened"
  ShutdownRule = "close_always"
INVARIANT Emit1
CHECK_DEADLOCK FALSE
