SPECIFICATION GSpec
CONSTANTS
  Threads = {"a", "b", "w"}
  Script <- Scen_server
  InitEv <- Init_server
  MaxTime = 3
  Inf = 99
  RaisingActs = {}
  FixLock = FALSE
  FixInit = FALSE
  FixIsSet = FALSE
  Locked = TRUE
  DetTime = TRUE
VIEW View
INVARIANT Emit
CHECK_DEADLOCK FALSE
