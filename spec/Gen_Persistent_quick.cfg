SPECIFICATION GSpec
CONSTANTS
  Params = {"P1", "P2"}
  Vals = {"v0", "v1"}
  NChunks = 2
  AutoChoices = {{"P1"}}
  HwChoices = {{"P2"}}
  Faults = {"crash", "ioerror"}
  Corruptions = {}
  Dev = {}
  Depth = 8
  MaxChanges = 2
  MaxSaves = 1
  MaxFaults = 1
  MaxStarts = 2
  MaxCorrupt = 1
  FirstCfgs = {0}
  StartCfgs = {0, 1}
  CfgVals = {"v1"}
CONSTRAINT Bound
INVARIANT Emit1
CHECK_DEADLOCK FALSE
