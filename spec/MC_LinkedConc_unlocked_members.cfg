SPECIFICATION Spec
CONSTANTS
  Writers = {"w1", "w2", "w3"}
  Locked = FALSE
  Modes = {"members"}
INVARIANT ConsistentAtRest
PROPERTY AnnouncedConsistent
CHECK_DEADLOCK FALSE
