SPECIFICATION RSpec
CONSTANTS
  Conns = {"c1"}
  Mods = {"m1"}
  Used = {"comlog", "info", "off"}
  ComMods = {"m1"}
  Configs <- CfgDaysQuick
  MaxDay = 3
INVARIANT TypeOK
INVARIANT ExactSinks
INVARIANT ComlogNeverInMainFile
INVARIANT ComlogOnceInComlogFile
INVARIANT RetentionOK
PROPERTY SinksIsolated
PROPERTY RolloverKeepsNewest
PROPERTY CfgFixed
CHECK_DEADLOCK FALSE
