------------------------------ MODULE EnumLib ------------------------------
(* frappy/lib/enum.py : Enum / EnumMember as a finite partial bijection  name <-> int  plus a display name.   *)
(*                                                                                                          *)
(* An enum is  [nm |-> display name, map |-> function member name -> int].  Everything the library does is   *)
(* transcribed as a pure function of such values (the library promises immutability, so there is nothing     *)
(* else):                                                                                                    *)
(*   Build      construction from a dict / keyword pieces / another Enum (extension), piece by piece (Add)    *)
(*   Lookup     e(key), e[key], e.key, e[x].key          for names, ints, bools, floats, numeric strings,      *)
(*              None, unhashables, own members and members of another enum                                     *)
(*   CmpOp      member ==, !=, <, <=, >, >= other  (and reflected)                                            *)
(*   Arith      member op other, other op member, unary operators, conversions (int, float, index, bool,      *)
(*              hash, repr, str, format)                                                                      *)
(*   MutRes     every attempt to change an enum or a member after construction is refused (TypeError)         *)
(*                                                                                                          *)
(* S (a set of switch names) selects, operator by operator, between what the documentation / obvious intent   *)
(* promises (S = {}) and what the code did when this module was written.  FloatTrunc, PowMember and             *)
(* ReservedName have been repaired since (f02e183, ca45173, 9899e9c): their switches stay as the exact          *)
(* description of the regression - an execution that needs one is a VIOLATION; "Mutable" is still what the      *)
(* code does (open finding, recorded and not repaired: drivers may rely on nameless enums being changeable):    *)
(*   "FloatTrunc"    __cmp__ converts the other operand with int(): a float is truncated, member(1) == 1.5     *)
(*   "Mutable"       only __setitem__/__setattr__/__delitem__ are guarded and only while the display name is   *)
(*                   non-empty: dict mutators (clear, pop, popitem, update, setdefault, |=) and del e.name /   *)
(*                   del e.members / del member.attr go through, an unnamed enum is never frozen               *)
(*   "PowMember"     __pow__ / __rpow__ do not unwrap a member operand (every other operator does)             *)
(*   "ReservedName"  EnumMember.__setattr__ asks getattr(self, 'name') whether it is initialised; while the     *)
(*                   slot is empty that falls through to __getattr__, which finds the sibling member called     *)
(*                   'name' (truthy unless its value is 0): every member created after it is refused            *)
(* "NoDupValue" is not a deviation of the code but a deliberately broken design (vacuity: Bijection must fail). *)
EXTENDS Integers, Sequences, FiniteSets, TLC
CONSTANTS Names,        \* member names of the alphabet (may contain "name")
          IntVals,      \* integer values of construction pieces and operands
          Specials,     \* further piece values / operands: subset of SpecialNames
          DispNames,    \* display names ("" = unnamed)
          MaxPieces,    \* pieces per construction call
          MaxExt,       \* pieces per extension call
          MaxDepth,     \* constructions on top of each other (extension depth)
          AsImpl        \* switches: {} = as documented
VARIABLES cur,          \* the enum under test: [ok, nm, map, depth]
          pieces,       \* every piece of the successful constructions that led to it, in order
          act           \* the last action
vars == <<cur, pieces, act>>
View == <<cur, act>>        \* (pieces is history: one representative path per enum)

(* value alphabets for the configurations (a .cfg cannot write a negative number) *)
IV_small == {0, 1, -1}
IV_quick == {0, 1, 2, -1}
IV_thorough == {0, 1, 2, 5, -1}

AllDevs == {"FloatTrunc", "Mutable", "PowMember", "ReservedName"}

(* ------------------------------------------------------------------------------------------ values *)
(* python values crossing the interface:  ty \in int | bool | float (v = twice the number) | str (s) |          *)
(* numstr (str(v)) | none | list (unhashable) | mem (member s = v of the fixed enum Other) | own (member s = v  *)
(* of the enum the operation is applied to)                                                                    *)
V(ty, v, s) == [ty |-> ty, v |-> v, s |-> s]
(* results:  r \in mem (s = v) | int v | bool v | frac v / w | pair <<v, w>> | str s | exc s | enum (s, m) | ok *)
R(r, v, w, s) == [r |-> r, v |-> v, w |-> w, s |-> s, m |-> <<>>, k |-> <<>>]
Exc(c) == R("exc", 0, 0, c)
IntR(v) == R("int", v, 0, "")
BoolR(b) == R("bool", IF b THEN 1 ELSE 0, 0, "")
StrR(s) == R("str", 0, 0, s)

NoMap == <<>>
Other == [nm |-> "o", map |-> ("a" :> 1) @@ ("b" :> 5) @@ ("q" :> 2) @@ ("z" :> 7)]

Vals(map) == {map[n] : n \in DOMAIN map}
MaxOf(T) == CHOOSE x \in T : \A y \in T : y <= x
NameOf(map, v) == CHOOSE n \in DOMAIN map : map[n] = v
Injective(map) == \A n1, n2 \in DOMAIN map : map[n1] = map[n2] => n1 = n2
(* smallest number >= from that is not a value yet *)
FirstFree(map, from) == CHOOSE v \in from .. (from + Cardinality(DOMAIN map)) :
                           v \notin Vals(map) /\ \A w \in from .. (v - 1) : w \in Vals(map)

RECURSIVE SortedNames(_)
SortedNames(map) == IF DOMAIN map = {} THEN <<>>
                    ELSE LET n == CHOOSE x \in DOMAIN map : \A o \in DOMAIN map : map[x] <= map[o]
                         IN <<n>> \o SortedNames([x \in DOMAIN map \ {n} |-> map[x]])
(* members in the order of their values (Enum.members) *)
Members(map) == LET sn == SortedNames(map) IN [j \in 1 .. Len(sn) |-> [n |-> sn[j], v |-> map[sn[j]]]]

(* ------------------------------------------------------------------------------------ construction *)
IntV(v) == [err |-> "", v |-> v]
BadV(c) == [err |-> c, v |-> 0]
(* the value a piece  k = val  gets: None -> one more than the largest value so far (1 for the first member);     *)
(* the name of a member defined before -> the smallest free number above that member's value; otherwise it must   *)
(* be integral (bool, int, integral float, a member: its value); a numeric string / fractional float is refused    *)
(* with TypeError, any other string with ValueError (int('zz')), an unhashable value with TypeError                *)
Resolve(map, val) ==
  CASE val.ty = "none"   -> IntV(IF DOMAIN map = {} THEN 1 ELSE MaxOf(Vals(map)) + 1)
    [] val.ty = "str"    -> IF val.s \in DOMAIN map THEN IntV(FirstFree(map, map[val.s])) ELSE BadV("ValueError")
    [] val.ty = "numstr" -> BadV("TypeError")
    [] val.ty = "float"  -> IF val.v % 2 = 0 THEN IntV(val.v \div 2) ELSE BadV("TypeError")
    [] val.ty = "list"   -> BadV("TypeError")
    [] OTHER             -> IntV(val.v)          \* int, bool, mem, own

St(err, map) == [err |-> err, map |-> map]
(* one piece: refused if the name exists with another value or the value exists under another name;           *)
(* repeating an existing pair is allowed and changes nothing                                                   *)
Add(S, map, k, val) ==
  LET r == Resolve(map, val) IN
  IF r.err # "" THEN St(r.err, map)
  ELSE IF k \in DOMAIN map /\ map[k] # r.v THEN St("TypeError", map)
  ELSE IF "NoDupValue" \notin S /\ \E n \in DOMAIN map : map[n] = r.v /\ n # k THEN St("TypeError", map)
  ELSE IF "ReservedName" \in S /\ "name" \in DOMAIN map /\ map["name"] # 0 THEN St("TypeError", map)
  ELSE St("", (k :> r.v) @@ map)

RECURSIVE Fold(_, _, _)
Fold(S, st, ps) == IF ps = <<>> \/ st.err # "" THEN st
                   ELSE Fold(S, Add(S, st.map, Head(ps).k, Head(ps).val), Tail(ps))

AsPieces(map) == LET ms == Members(map) IN [j \in 1 .. Len(ms) |-> [k |-> ms[j].n, val |-> V("int", ms[j].v, "")]]
(* what can be seen of an enum: display name, members in value order, and the lookup table (each member under     *)
(* its value and under its name, nothing else)                                                                  *)
KeyTable(map) == LET ms == Members(map) IN
  [j \in 1 .. 2 * Len(ms) |-> LET x == ms[(j + 1) \div 2] IN
      IF j % 2 = 1 THEN [int |-> TRUE, ki |-> x.v, ks |-> "", n |-> x.n, v |-> x.v]
      ELSE [int |-> FALSE, ki |-> 0, ks |-> x.n, n |-> x.n, v |-> x.v]]
EnumR(e) == [r |-> "enum", v |-> 0, w |-> 0, s |-> e.nm, m |-> Members(e.map), k |-> KeyTable(e.map)]

(* Enum(nm, parent, **kp):  nmok = FALSE: the first argument is neither a string nor a dict / Enum;            *)
(* par \in none | dict (pieces dp) | enum (parent) | bad (a list of names, a python enum.Enum, an int);         *)
(* keyword pieces called 'name' / 'parent' collide with the signature of __init__ (python refuses the call).    *)
(* All members of an Enum parent are added first (in the order of their values), then the dict, then the        *)
(* keywords; without a name the new enum takes the name of its Enum parent.  A refused construction yields      *)
(* an exception and nothing else.                                                                              *)
NewName(nm, par, parent) == IF nm = "" /\ par = "enum" THEN parent.nm ELSE nm
Build(S, nm, nmok, par, parent, dp, kp) ==
  IF ~nmok \/ par = "bad" \/ \E j \in DOMAIN kp : kp[j].k \in {"name", "parent"} THEN Exc("TypeError")
  ELSE LET start == IF par = "enum" THEN AsPieces(parent.map) ELSE IF par = "dict" THEN dp ELSE <<>>
           st == Fold(S, St("", NoMap), start \o kp)
       IN IF st.err # "" THEN Exc(st.err) ELSE EnumR([nm |-> NewName(nm, par, parent), map |-> st.map])
BuiltMap(S, par, parent, dp, kp) ==
  Fold(S, St("", NoMap), (IF par = "enum" THEN AsPieces(parent.map) ELSE IF par = "dict" THEN dp ELSE <<>>) \o kp).map

(* ------------------------------------------------------------------------------------------ lookup *)
MemR(e, n) == R("mem", e.map[n], 0, n)
ByVal(e, v) == IF v \in Vals(e.map) THEN MemR(e, NameOf(e.map, v)) ELSE Exc("KeyError")
(* how \in call | item | attr :  e(key), e[key], getattr(e, key).  Keys are names or values; a value may come as  *)
(* any number equal to it (True, 1.0) or as a member with that value - also a member of another enum, whatever    *)
(* its name (dict lookup: hash and == of a member are those of its value).  Numeric strings are not values.       *)
(* The attribute 'name' of an enum is its display name, not a member.                                             *)
(* What the docstring shows are names and ints only.  For Enum('x', a=1):  (True) and (1.0) give member a,  ('1')  *)
(* and (1.5) raise KeyError, (other_enum.q) with q = 1 gives member a.  None of this is documented; it follows    *)
(* from Enum being a dict and is kept as the specification because the answer is always THE member whose value    *)
(* equals the key as a number (LookupTotal), never a wrong member and never another exception class.              *)
Lookup(e, how, key) ==
  LET miss == IF how = "attr" THEN "AttributeError" ELSE "KeyError" IN
  CASE key.ty = "str"    -> IF how = "attr" /\ key.s = "name" THEN StrR(e.nm)
                            ELSE IF key.s \in DOMAIN e.map THEN MemR(e, key.s) ELSE Exc(miss)
    [] key.ty \in {"int", "bool", "mem", "own"} -> ByVal(e, key.v)
    [] key.ty = "float"  -> IF key.v % 2 = 0 THEN ByVal(e, key.v \div 2) ELSE Exc("KeyError")
    [] key.ty = "list"   -> Exc("TypeError")
    [] OTHER             -> Exc(miss)             \* numstr, none
(* e[mn].key : the sibling member of that name; name / value / enum are the member's own attributes *)
Sibling(e, mn, key) ==
  IF key = "name" THEN StrR(mn) ELSE IF key = "value" THEN IntR(e.map[mn])
  ELSE IF key \in DOMAIN e.map THEN MemR(e, key) ELSE Exc("AttributeError")

(* -------------------------------------------------------------------------------------- comparison *)
Sign(d) == IF d < 0 THEN -1 ELSE IF d > 0 THEN 1 ELSE 0
TruncHalf(h) == IF h >= 0 THEN h \div 2 ELSE -((-h) \div 2)          \* int(x) for x = h / 2
(* three-way comparison of the member's value mv with x: numbers, members (of any enum: by value) and numeric     *)
(* strings by value, the name of a member of the same enum by that member's value; anything else (unknown name,   *)
(* None, a list) counts as greater than every member ("XXX" in the code)                                          *)
Cmp3(S, e, mv, x) ==
  CASE x.ty \in {"int", "bool", "mem", "own", "numstr"} -> Sign(mv - x.v)
    [] x.ty = "float" -> IF "FloatTrunc" \in S THEN Sign(mv - TruncHalf(x.v)) ELSE Sign(2 * mv - x.v)
    [] x.ty = "str" /\ x.s \in DOMAIN e.map -> Sign(mv - e.map[x.s])
    [] OTHER -> -1
(* equality: numbers and members by value, strings by NAME (a numeric string is never equal) *)
EqM(S, e, mn, x) ==
  CASE x.ty \in {"int", "bool", "mem", "own"} -> e.map[mn] = x.v
    [] x.ty \in {"str", "numstr"} -> x.ty = "str" /\ x.s = mn
    [] OTHER -> Cmp3(S, e, e.map[mn], x) = 0
CmpB(S, e, mn, op, x) ==
  LET c == Cmp3(S, e, e.map[mn], x) IN
  CASE op = "eq" -> EqM(S, e, mn, x) [] op = "ne" -> ~EqM(S, e, mn, x)
    [] op = "lt" -> c = -1 [] op = "le" -> c < 1 [] op = "gt" -> c = 1 [] op = "ge" -> c > -1
Mirror(op) == CASE op = "lt" -> "gt" [] op = "le" -> "ge" [] op = "gt" -> "lt" [] op = "ge" -> "le" [] OTHER -> op
(* side = "r": the member is the right operand (x op member): python falls back to the mirrored method *)
CmpOp(S, e, mn, op, side, x) == BoolR(CmpB(S, e, mn, IF side = "r" THEN Mirror(op) ELSE op, x))
(* member.__cmp__(x): the three-way comparison itself (python 2 heritage, still callable) *)
CmpDirect(S, e, mn, x) == IntR(Cmp3(S, e, e.map[mn], x))
(* the number (in halves) a numeric operand stands for *)
Halves(x) == IF x.ty = "float" THEN x.v ELSE 2 * x.v
Numeric(x) == x.ty \in {"int", "bool", "float", "mem", "own"}
HashInt(v) == IF v = -1 THEN -2 ELSE v                                \* CPython: hash(-1) = -2

(* -------------------------------------------------------------------------------------- arithmetic *)
RECURSIVE Pow(_, _), GCD(_, _), Bits(_, _, _, _)
Pow(a, b) == IF b = 0 THEN 1 ELSE a * Pow(a, b - 1)
Abs(a) == IF a < 0 THEN -a ELSE a
GCD(a, b) == IF b = 0 THEN a ELSE GCD(b, a % b)
FDiv(a, b) == IF b > 0 THEN a \div b ELSE (-a) \div (-b)               \* python's floor division
FMod(a, b) == a - b * FDiv(a, b)
FracR(a, b) == LET g == GCD(Abs(a), Abs(b)) sg == IF b < 0 THEN -1 ELSE 1
               IN R("frac", (sg * a) \div g, Abs(b) \div g, "")
(* bitwise operators on two's complement numbers of 10 bits (|a| < 512) *)
NB == 10
To2(a) == IF a < 0 THEN a + Pow(2, NB) ELSE a
From2(a) == IF a >= Pow(2, NB - 1) THEN a - Pow(2, NB) ELSE a
Bits(f, a, b, n) == IF n = 0 THEN 0
                    ELSE LET x == a % 2 y == b % 2
                             z == CASE f = "and" -> x * y [] f = "or" -> x + y - x * y [] f = "xor" -> (x + y) % 2
                         IN z + 2 * Bits(f, a \div 2, b \div 2, n - 1)
BitOp(f, a, b) == From2(Bits(f, To2(a), To2(b), NB))

PyInt(op, a, b) ==
  CASE op = "add" -> IntR(a + b) [] op = "sub" -> IntR(a - b) [] op = "mul" -> IntR(a * b)
    [] op = "truediv" -> IF b = 0 THEN Exc("ZeroDivisionError") ELSE FracR(a, b)
    [] op = "floordiv" -> IF b = 0 THEN Exc("ZeroDivisionError") ELSE IntR(FDiv(a, b))
    [] op = "mod" -> IF b = 0 THEN Exc("ZeroDivisionError") ELSE IntR(FMod(a, b))
    [] op = "divmod" -> IF b = 0 THEN Exc("ZeroDivisionError") ELSE R("pair", FDiv(a, b), FMod(a, b), "")
    [] op = "pow" -> IF b >= 0 THEN IntR(Pow(a, b))
                     ELSE IF a = 0 THEN Exc("ZeroDivisionError") ELSE FracR(1, Pow(a, -b))
    [] op = "lshift" -> IF b < 0 THEN Exc("ValueError") ELSE IntR(a * Pow(2, b))
    [] op = "rshift" -> IF b < 0 THEN Exc("ValueError") ELSE IntR(FDiv(a, Pow(2, b)))
    [] op \in {"and", "or", "xor"} -> IntR(BitOp(op, a, b))
BinOps == {"add", "sub", "mul", "truediv", "floordiv", "mod", "divmod", "pow", "lshift", "rshift", "and", "or", "xor"}
(* member op x (side "l") / x op member (side "r"); x is an int or a member (of any enum): a member stands for   *)
(* its value, the result is what python computes for the two ints                                               *)
Arith(S, e, mn, op, side, x) ==
  IF op = "pow" /\ x.ty \in {"mem", "own"} /\ "PowMember" \in S THEN Exc("TypeError")
  ELSE IF side = "l" THEN PyInt(op, e.map[mn], x.v) ELSE PyInt(op, x.v, e.map[mn])
(* in-place operators are forbidden: a member is a constant *)
InPlace(S, e, mn, op) == Exc("TypeError")

RECURSIVE Join(_)
Join(ms) == IF ms = <<>> THEN ""
            ELSE ms[1].n \o "=" \o ToString(ms[1].v) \o (IF Len(ms) > 1 THEN ", " ELSE "") \o Join(Tail(ms))
MemRepr(e, mn) == "<" \o (IF e.nm # "" THEN e.nm \o "." ELSE "") \o mn \o " (" \o ToString(e.map[mn]) \o ")>"
EnumRepr(e) == "Enum('" \o e.nm \o "', " \o Join(Members(e.map)) \o ")"
ConvOps == {"int", "float", "index", "bool", "hash", "repr", "str", "fmt_d", "fmt_g", "fmt_", "neg", "pos", "abs",
            "invert", "name", "value", "enumname", "pow3"}
Conv(e, mn, what) ==
  LET v == e.map[mn] IN
  CASE what \in {"int", "index", "value", "pos"} -> IntR(v)
    [] what = "float" -> R("frac", v, 1, "")
    [] what = "bool" -> BoolR(v # 0)
    [] what = "hash" -> IntR(HashInt(v))
    [] what \in {"repr", "str", "fmt_"} -> StrR(MemRepr(e, mn))
    [] what \in {"fmt_d", "fmt_g"} -> StrR(ToString(v))
    [] what = "neg" -> IntR(-v) [] what = "abs" -> IntR(Abs(v)) [] what = "invert" -> IntR(-v - 1)
    [] what = "name" -> StrR(mn) [] what = "enumname" -> StrR(e.nm)
    [] what = "pow3" -> IntR(FMod(Pow(v, 2), 3))                       \* pow(member, 2, 3)

(* ------------------------------------------------------------------------- EnumType as a client *)
(* EnumType(e) keeps a COPY of e (equal, same display name; e itself is never touched, also not by set_name);     *)
(* dt(key) is the lookup e[key] with the refusals turned into SECoP errors: RangeError for an int / str that is    *)
(* no member, WrongTypeError for anything else                                                                   *)
TypeLookup(e, key) ==
  LET r == Lookup(e, "item", key) IN
  IF r.r # "exc" THEN r
  ELSE IF key.ty \in {"int", "bool", "str", "numstr"} THEN Exc("RangeError") ELSE Exc("WrongTypeError")
TypeExport(e, key) == LET r == TypeLookup(e, key) IN IF r.r = "mem" THEN IntR(r.v) ELSE r
(* (the copy is a construction from an Enum parent: under "ReservedName" it can fail) *)
ViaCopy(S, e, res) == LET c == Build(S, "", TRUE, "enum", e, <<>>, <<>>) IN IF c.r = "exc" THEN c ELSE res

(* ---------------------------------------------------------------------------------- immutability *)
(* "You can neither modify members nor Enums. You only can create an extended Enum."  The one exception the     *)
(* code base relies on is the display name (EnumType.set_name -> e.name = ...).                                   *)
EnumMuts == {"setitem_new", "setitem_old", "delitem", "setattr_new", "setattr_old", "del_name", "del_members",
             "clear", "pop", "popitem", "update", "setdefault", "ior", "reinit"}
MemberMuts == {"m_set_name", "m_set_value", "m_set_enum", "m_set_new", "m_del_value", "m_del_name", "m_iadd", "m_ior"}
AcceptedByCode(e, kind) ==
  \/ kind \in {"clear", "pop", "popitem", "update", "setdefault", "ior", "del_name", "del_members",
               "m_del_value", "m_del_name"}
  \/ e.nm = "" /\ kind \in {"setitem_new", "setitem_old", "setattr_new", "setattr_old", "reinit"}
MutRes(S, e, kind) == IF "Mutable" \in S /\ AcceptedByCode(e, kind) THEN R("accepted", 0, 0, "") ELSE Exc("TypeError")

(* ------------------------------------------------------------------------- laws (checked by TLC) *)
(* name <-> value is a bijection and lookups by name and by value are inverse to each other *)
Bijection(e) ==
  /\ Injective(e.map)
  /\ \A n \in DOMAIN e.map : /\ Lookup(e, "item", V("int", e.map[n], "")) = MemR(e, n)
                             /\ Lookup(e, "call", V("str", 0, n)) = MemR(e, n)
(* every lookup returns THE member of that name / value or raises KeyError / AttributeError / TypeError *)
LookupTotal(e, how, key) ==
  LET r == Lookup(e, how, key) IN
  \/ r.r = "exc" /\ r.s \in {"KeyError", "AttributeError", "TypeError"}
       /\ (key.ty = "str" => key.s \notin DOMAIN e.map)
       /\ (Numeric(key) => \A n \in DOMAIN e.map : 2 * e.map[n] # Halves(key))
  \/ r.r = "mem" /\ r.s \in DOMAIN e.map /\ e.map[r.s] = r.v
       /\ (key.ty = "str" => r.s = key.s) /\ (Numeric(key) => 2 * r.v = Halves(key))
  \/ r.r = "str" /\ how = "attr" /\ key.ty = "str" /\ key.s = "name"
(* a member compares like its value: exactly one of <, ==, > holds, <= and >= are their unions, == means the      *)
(* same number; whatever is equal has the same hash *)
CmpConsistent(S, e, mn, x) ==
  LET b(op) == CmpB(S, e, mn, op, x) IN
  Numeric(x) =>
    /\ Cardinality({op \in {"lt", "eq", "gt"} : b(op)}) = 1
    /\ b("le") = (b("lt") \/ b("eq")) /\ b("ge") = (b("gt") \/ b("eq")) /\ b("ne") = ~b("eq")
    /\ b("eq") = (2 * e.map[mn] = Halves(x))
    /\ b("lt") = (2 * e.map[mn] < Halves(x))
HashConsistent(S, e, mn, x) ==
  (Numeric(x) /\ CmpB(S, e, mn, "eq", x)) => 2 * e.map[mn] = Halves(x)          \* equal numbers hash alike
(* compared with the name of a member of its own enum a member behaves as compared with that member *)
NameConsistent(S, e, mn, s) ==
  s \in DOMAIN e.map =>
     \A op \in {"eq", "ne", "lt", "le", "gt", "ge"} :
        CmpB(S, e, mn, op, V("str", 0, s)) = CmpB(S, e, mn, op, V("own", e.map[s], s))
(* every binary operator accepts a member as the other operand and treats it as its value *)
ArithUnwraps(S, e, mn, op, x) ==
  x.ty \in {"mem", "own"} => Arith(S, e, mn, op, "l", x) = Arith(S, e, mn, op, "l", V("int", x.v, ""))

(* ------------------------------------------------------------------------------- state machine *)
(* One enum under test: built by one call (New), extended by further calls (Extend: a NEW enum takes the place, *)
(* the old one stays what it was - the replay keeps and re-inspects every ancestor), renamed, attacked (Mutate). *)
SpecialNames == {"none", "ref", "zz", "numstr", "floatint", "floatfrac", "bool", "list", "mem"}
SpecialVals ==
  (IF "none" \in Specials THEN {V("none", 0, "")} ELSE {}) \cup
  (IF "ref" \in Specials THEN {V("str", 0, s) : s \in Names} ELSE {}) \cup
  (IF "zz" \in Specials THEN {V("str", 0, "zz")} ELSE {}) \cup
  (IF "numstr" \in Specials THEN {V("numstr", 1, "")} ELSE {}) \cup
  (IF "floatint" \in Specials THEN {V("float", 2, ""), V("float", 0, "")} ELSE {}) \cup
  (IF "floatfrac" \in Specials THEN {V("float", 3, ""), V("float", -1, "")} ELSE {}) \cup
  (IF "bool" \in Specials THEN {V("bool", 1, ""), V("bool", 0, "")} ELSE {}) \cup
  (IF "list" \in Specials THEN {V("list", 0, "")} ELSE {}) \cup
  (IF "mem" \in Specials THEN {V("mem", Other.map[s], s) : s \in {"b", "q"}} ELSE {})
PieceVals == {V("int", v, "") : v \in IntVals} \cup SpecialVals
Pieces == [k : Names, val : PieceVals]
DistinctNames(ps) == \A i, j \in DOMAIN ps : i # j => ps[i].k # ps[j].k
AllSeqs(n) == UNION {[1 .. j -> Pieces] : j \in 0 .. n}
PieceSeqs(n) == {ps \in AllSeqs(n) : DistinctNames(ps)}
Null == [ok |-> FALSE, nm |-> "", map |-> NoMap, depth |-> 0]
E(c) == [nm |-> c.nm, map |-> c.map]

Init == cur = Null /\ pieces = <<>> /\ act = [a |-> "init"]

(* Enum(nm, **kp) / Enum(nm, dict(dp), **kp) / Enum(dict(dp), **kp) / Enum(5) / Enum(nm, [names]) *)
NewForms == {"kw", "dict", "dictswap", "badname", "badpar"}
NewArgs(form, nm, dp, kp) ==
  /\ DistinctNames(dp) /\ DistinctNames(kp)          \* (a dict / keyword arguments cannot repeat a name)
  /\ form = "kw" => dp = <<>>
  /\ form = "dict" => (dp # <<>> \/ kp = <<>>)
  /\ form \in {"dictswap", "badname"} => nm = ""
  /\ form \in {"badname", "badpar"} => dp = <<>> /\ Len(kp) <= 1
NewRes(S, form, nm, dp, kp) ==
  Build(S, nm, form # "badname", CASE form = "kw" -> "none" [] form = "badname" -> "none" [] form = "badpar" -> "bad" [] OTHER -> "dict",
        Null, dp, kp)
New(form, nm, dp, kp) ==
  /\ ~cur.ok /\ NewArgs(form, nm, dp, kp)
  /\ LET r == NewRes(AsImpl, form, nm, dp, kp) IN
     IF r.r = "exc" THEN /\ UNCHANGED <<cur, pieces>> /\ act' = [a |-> "new", ok |-> FALSE]
     ELSE /\ cur' = [ok |-> TRUE, nm |-> r.s, map |-> BuiltMap(AsImpl, IF form = "kw" THEN "none" ELSE "dict", Null, dp, kp), depth |-> 1]
          /\ pieces' = dp \o kp
          /\ act' = [a |-> "new", ok |-> TRUE]

(* Enum(nm, cur, **kp) / Enum(cur, **kp): a new enum; the parent is not touched, whether the call succeeds or not *)
ExtForms == {"enum", "enumswap"}
ExtRes(S, form, nm, kp) == Build(S, nm, TRUE, "enum", E(cur), <<>>, kp)
Extend(form, nm, kp) ==
  /\ cur.ok /\ cur.depth < MaxDepth /\ (form = "enumswap" => nm = "")
  /\ LET r == ExtRes(AsImpl, form, nm, kp) IN
     IF r.r = "exc" THEN /\ UNCHANGED <<cur, pieces>> /\ act' = [a |-> "extend", ok |-> FALSE]
     ELSE /\ cur' = [ok |-> TRUE, nm |-> r.s, map |-> BuiltMap(AsImpl, "enum", E(cur), <<>>, kp), depth |-> cur.depth + 1]
          /\ pieces' = pieces \o kp
          /\ act' = [a |-> "extend", ok |-> TRUE]

(* e.name = nm (what EnumType.set_name does): the only change that is allowed *)
Rename(nm) == /\ cur.ok /\ nm # cur.nm /\ cur' = [cur EXCEPT !.nm = nm] /\ UNCHANGED pieces /\ act' = [a |-> "rename"]

(* an attempt to change the enum or one of its members: refused, nothing changes.  Under "Mutable" the code's      *)
(* behaviour: the attempt goes through (the model only records that the enum is not what it was: map lost)          *)
Mutate(kind) ==
  /\ cur.ok /\ (kind \in MemberMuts \cup {"pop", "popitem", "setitem_old", "setattr_old", "delitem"} => DOMAIN cur.map # {})
  /\ act' = [a |-> "mutate"]
  /\ UNCHANGED pieces
  /\ IF MutRes(AsImpl, E(cur), kind).r = "accepted" THEN cur' = [cur EXCEPT !.map = NoMap, !.nm = "?"]
     ELSE UNCHANGED cur

Next == \/ \E form \in NewForms, nm \in DispNames, ps \in AllSeqs(MaxPieces) : \E j \in 0 .. Len(ps) :
              New(form, nm, SubSeq(ps, 1, j), SubSeq(ps, j + 1, Len(ps)))
        \/ \E form \in ExtForms, nm \in DispNames, kp \in PieceSeqs(MaxExt) : Extend(form, nm, kp)
        \/ \E nm \in DispNames : Rename(nm)
        \/ \E kind \in EnumMuts \cup MemberMuts : Mutate(kind)
Spec == Init /\ [][Next]_vars

(* operand alphabet of the laws *)
Operands(e) == {V("int", v, "") : v \in IV_thorough \cup {3}} \cup {V("bool", 0, ""), V("bool", 1, "")}
               \cup {V("float", h, "") : h \in {-2, -1, 0, 1, 2, 3, 4, 11}}
               \cup {V("str", 0, s) : s \in Names \cup {"zz"}} \cup {V("numstr", 1, ""), V("numstr", 7, "")}
               \cup {V("none", 0, ""), V("list", 0, "")}
               \cup {V("mem", Other.map[s], s) : s \in DOMAIN Other.map}
               \cup {V("own", e.map[s], s) : s \in DOMAIN e.map}

TypeOK == /\ cur.ok \in BOOLEAN /\ cur.nm \in DispNames \cup {"?"} /\ DOMAIN cur.map \subseteq Names
          /\ \A n \in DOMAIN cur.map : cur.map[n] \in Int
IsBijection == cur.ok => Bijection(E(cur))
LookupsTotal == cur.ok => \A how \in {"call", "item", "attr"}, key \in Operands(E(cur)) :
                             (how = "attr" => key.ty \in {"str", "numstr"}) => LookupTotal(E(cur), how, key)
ComparesLikeItsValue == cur.ok => \A mn \in DOMAIN cur.map, x \in Operands(E(cur)) :
                             CmpConsistent(AsImpl, E(cur), mn, x) /\ HashConsistent(AsImpl, E(cur), mn, x)
NamesLikeMembers == cur.ok => \A mn \in DOMAIN cur.map, s \in Names : NameConsistent(AsImpl, E(cur), mn, s)
OperatorsUnwrap == cur.ok => \A mn \in DOMAIN cur.map, op \in BinOps, x \in Operands(E(cur)) :
                             ArithUnwraps(AsImpl, E(cur), mn, op, x)
(* building in one call from all the pieces gives the same enum as the chain of extensions that was used *)
OneCallEqualsChain == cur.ok /\ DistinctNames(pieces) =>
                        LET st == Fold(AsImpl, St("", NoMap), pieces) IN st.err = "" /\ st.map = cur.map
(* an enum is determined by its pairs, in whatever order they are given: rebuilding it from its own pairs in any   *)
(* order is accepted and gives the same enum (also: an Enum parent may be iterated in any order)                   *)
Perms(T) == {f \in [1 .. Cardinality(T) -> T] : \A i, j \in DOMAIN f : i # j => f[i] # f[j]}
OrderIndependent == cur.ok => \A f \in Perms(DOMAIN cur.map) :
                        LET st == Fold(AsImpl, St("", NoMap), [j \in DOMAIN f |-> [k |-> f[j], val |-> V("int", cur.map[f[j]], "")]])
                        IN st.err = "" /\ st.map = cur.map
(* extension keeps every pair of the parent; nothing but a successful construction changes the map; the name    *)
(* changes only by Rename or by a construction                                                                   *)
Grows == [][(act'.a = "extend" /\ cur.ok) => \A n \in DOMAIN cur.map : n \in DOMAIN cur'.map /\ cur'.map[n] = cur.map[n]]_vars
Frozen == [][(act'.a \in {"mutate", "rename"} \/ (act'.a \in {"new", "extend"} /\ ~act'.ok)) => cur'.map = cur.map /\ (act'.a # "rename" => cur' = cur)]_vars
=============================================================================
