\* documents X06-request-raises at design level: EXPECTED TO FAIL RequestsReturn
SPECIFICATION Spec
CONSTANTS
  NIf = 2
  Kinds = {"ok"}
  Req = {"res1", "shut1"}
  Repaired = FALSE
  FixNoIf = FALSE
  Crashes = FALSE
INVARIANT RequestsReturn
CHECK_DEADLOCK FALSE
