SPECIFICATION Spec
VIEW View
CONSTANTS
  Names = {"a", "b", "name"}
  IntVals <- IV_small
  Specials = {"none", "ref", "floatfrac"}
  DispNames = {"", "x"}
  MaxPieces = 2
  MaxExt = 1
  MaxDepth = 2
  AsImpl = {}
INVARIANT TypeOK
INVARIANT IsBijection
INVARIANT LookupsTotal
INVARIANT ComparesLikeItsValue
INVARIANT NamesLikeMembers
INVARIANT OperatorsUnwrap
INVARIANT OneCallEqualsChain
INVARIANT OrderIndependent
PROPERTY Grows
PROPERTY Frozen
CHECK_DEADLOCK FALSE
