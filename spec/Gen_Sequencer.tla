--------------------------- MODULE Gen_Sequencer ---------------------------
(* spec -> code: every behaviour of Sequencer up to Depth actions, each step with the expected   *)
(* observable state; replayed on the real SequencerMixin under the deterministic scheduler.       *)
EXTENDS Sequencer, Json
CONSTANTS Depth, MaxStarts, MaxRefused, MaxStops
VARIABLE hist

Count(a) == Cardinality({j \in DOMAIN hist : hist[j].act = a})
Refused == Cardinality({j \in DOMAIN hist : hist[j].act = "start" /\ ~hist[j].exp.ok})
ThreadActs == {j \in DOMAIN hist : hist[j].act \in {"call", "ret", "wake", "cleanup"}}
LastThreadAct == IF ThreadActs = {} THEN "none" ELSE hist[CHOOSE j \in ThreadActs : \A j2 \in ThreadActs : j2 <= j].act
RefSeq == CHOOSE s \in Seqs : Len(s) = 1

(* observable projection of the state after the step *)
Obs == LET st == StatusOf(pc', out', k') IN
       [alive |-> pc' # "none", code |-> st.code, word |-> st.word, k |-> st.k, tb |-> TextBinding(pc'),
        cached |-> cached', ok |-> last'.ok]
Rec(a, ev) == [act |-> a, ev |-> ev, exp |-> Obs,
               \* the step examines a stop that came during the wait / is the cleanup such an examination leads to
               late |-> \/ (pc = "sleep" /\ stopflag /\ More)
                        \/ (pc = "cleanup" /\ LastThreadAct = "wake"),
               fm |-> fm, hook |-> hook]
NoEv == [ev |-> "none"]

GInit == SInit /\ hist = <<>>
GNext ==
  \/ \E s \in Seqs : /\ IF alive THEN s = RefSeq ELSE Count("start") - Refused < MaxStarts
                     /\ Count("start") - Refused >= 1 => Len(s) = 1       \* later runs: one-step sequences
                     /\ Start(s)
                     /\ ~last'.ok => (s = RefSeq /\ Refused < MaxRefused)
                     /\ hist' = Append(hist, [seq |-> s] @@ Rec("start", NoEv))
  \/ /\ Count("stop") < MaxStops
     /\ Stop /\ hist' = Append(hist, Rec("stop", NoEv))
  \/ Call /\ hist' = Append(hist, Rec("call", [ev |-> "call", k |-> k, i |-> i, n |-> n + 1]))
  \/ Ret /\ hist' = Append(hist, Rec("ret", [ev |-> "ret", k |-> k, i |-> i, res |-> res']))
  \/ CleanupAct /\ hist' = Append(hist, Rec("cleanup", [ev |-> "cleanup", k |-> k, res |-> Cleanup(seq[k]),
                                                        again |-> (res = "again")]))
  \/ owed = 0 /\ Wake /\ hist' = Append(hist, Rec("wake", [ev |-> "wake", d |-> Wait(seq[k])]))
  \/ EndPoll /\ hist' = Append(hist, Rec("endpoll", [ev |-> "end"]))
GSpec == GInit /\ [][GNext]_<<svars, hist>>

Bound == TLCGet("level") <= Depth
Emit1 == (TLCGet("level") = Depth + 1 \/ ~ENABLED GNext) => PrintT(<<"BEH", ToJson(hist)>>)
=============================================================================
