SPECIFICATION FairSpec
CONSTANTS
  Kinds = {"d", "ad", "r", "adc"}
  MaxLen = 2
  Hooks = {"none", "hw"}
  FaultModes = {"ew"}
ACTION_CONSTRAINT StartWhenPolled
INVARIANT TypeOK
INVARIANT ErrorReported
INVARIANT Restartable
INVARIANT BusyIffAlive
INVARIANT StoreCounts
PROPERTY InOrder
PROPERTY OneAtATime
PROPERTY StopNoNewStep
PROPERTY ErrorEnds
PROPERTY CachedSettles
PROPERTY StopEnds
PROPERTY EveryRunEnds
CHECK_DEADLOCK FALSE
