\* documents X06-responder-leak at design level: EXPECTED TO FAIL GenerationOrder
SPECIFICATION Spec
CONSTANTS
  NIf = 1
  Kinds = {"ok"}
  Req = {"res1"}
  Repaired = FALSE
  FixNoIf = FALSE
  Crashes = FALSE
INVARIANT GenerationOrder
CHECK_DEADLOCK FALSE
