SPECIFICATION DSpec
CONSTANTS
  Atomic = FALSE
  Orders = {"start_first"}
INVARIANT DTypeOK
INVARIANT BusyWhileRunning
INVARIANT QuiescentNotBusy
CHECK_DEADLOCK FALSE
