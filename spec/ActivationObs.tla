---------------------------- MODULE ActivationObs ----------------------------
(* C08 at the level the property is stated: what connections receive vs. what the   *)
(* node's cache held.  Used to validate executions of the real dispatcher           *)
(* (Trace_ActivationObs); the code-shaped model is Activation.tla.                  *)
EXTENDS Naturals, Sequences, FiniteSets, TLC
CONSTANTS Conns

VARIABLES idx,      \* (p, v) -> position of value v in the order parameter p's cache changed (function as set of records)
          cur,      \* p -> current position (set of records [p, n])
          act,      \* [Conns -> set of scopes] confirmed active ('active' reply sent)
          ing,      \* [Conns -> set of scopes] activate request in progress
          maybe,    \* [Conns -> set of scopes] more specific scopes swept away by a module deactivate (property silent)
          held,     \* [Conns -> set of [p, n]] position of the last update the connection holds per parameter
          owed,     \* [Conns -> set of [p, n]] changes made while active, not yet delivered
          got,      \* [Conns -> set of p] parameters delivered since the running request began
          devs
avars == <<idx, cur, act, ing, maybe, held, owed, got, devs>>

InScope(p, pm, s) == s = "." \/ s = pm \/ s = p
Entitled(c, p, pm) == \E s \in act[c] \cup ing[c] \cup maybe[c] : InScope(p, pm, s)
Active(c, p, pm) == \E s \in act[c] : InScope(p, pm, s)
PosOf(p, v) == LET r == {x \in idx : x.p = p /\ x.v = v} IN IF r = {} THEN 0 ELSE (CHOOSE x \in r : TRUE).n
CurOf(p) == LET r == {x \in cur : x.p = p} IN IF r = {} THEN 0 ELSE (CHOOSE x \in r : TRUE).n
HeldOf(c, p) == LET r == {x \in held[c] : x.p = p} IN IF r = {} THEN 0 ELSE (CHOOSE x \in r : TRUE).n

AInit == /\ idx = {} /\ cur = {} /\ devs = {}
         /\ act = [c \in Conns |-> {}] /\ ing = [c \in Conns |-> {}] /\ maybe = [c \in Conns |-> {}]
         /\ held = [c \in Conns |-> {}] /\ owed = [c \in Conns |-> {}] /\ got = [c \in Conns |-> {}]

(* initial cache content, announced by the harness before the run *)
Seed(p, v) == /\ idx' = idx \cup {[p |-> p, v |-> v, n |-> 1]} /\ cur' = cur \cup {[p |-> p, n |-> 1]}
              /\ UNCHANGED <<act, ing, maybe, held, owed, got, devs>>

(* the cache changes (linearisation point: inside the module's update lock) *)
Store(p, pm, v) ==
   LET n == CurOf(p) + 1 IN
   /\ idx' = {x \in idx : ~(x.p = p /\ x.v = v)} \cup {[p |-> p, v |-> v, n |-> n]}
   /\ cur' = {x \in cur : x.p # p} \cup {[p |-> p, n |-> n]}
   /\ owed' = [c \in Conns |-> IF Active(c, p, pm) THEN owed[c] \cup {[p |-> p, pm |-> pm, n |-> n]} ELSE owed[c]]
   /\ UNCHANGED <<act, ing, maybe, held, got, devs>>

ReqBegin(c, kind, s, sm) ==
   /\ got' = [got EXCEPT ![c] = {}]
   /\ IF kind = "activate"
      THEN /\ ing' = [ing EXCEPT ![c] = @ \cup {s}]
           /\ UNCHANGED <<act, maybe, owed>>
      ELSE \* from the moment a deactivate / ident is being processed nothing is owed in its scope any more
           \* (a whole-node deactivate ends the whole-node scope only: what a module / parameter scope of the same
           \*  connection is owed stays owed)
           /\ owed' = [owed EXCEPT ![c] = IF kind = "ident" THEN {}
                                          ELSE IF s = "." THEN {x \in @ : \E s2 \in act[c] \ {"."} : InScope(x.p, x.pm, s2)}
                                          ELSE {x \in @ : ~(x.p = s \/ x.pm = s)}]
           /\ UNCHANGED <<act, ing, maybe>>
   /\ UNCHANGED <<idx, cur, held, devs>>

(* delivery of an update message to a connection *)
DeliverBase(c, p, v) ==
   /\ held' = [held EXCEPT ![c] = {x \in @ : x.p # p} \cup {[p |-> p, n |-> PosOf(p, v)]}]
   /\ owed' = [owed EXCEPT ![c] = {x \in @ : ~(x.p = p /\ x.n <= PosOf(p, v))}]
   /\ got' = [got EXCEPT ![c] = @ \cup {p}]
   /\ UNCHANGED <<idx, cur, act, ing, maybe>>
Deliver(c, p, pm, v) ==
   /\ PosOf(p, v) > 0                       \* a state the cache really held
   /\ Entitled(c, p, pm)                    \* NoLate
   /\ PosOf(p, v) >= HeldOf(c, p)           \* in the order the cache changed
   /\ DeliverBase(c, p, v) /\ UNCHANGED devs
(* deviations of the pinned code *)
Dev_StaleSnapshot(c, p, pm, v, by) ==       \* activate sends a snapshot value older than an update already sent
   /\ by = "snap" /\ PosOf(p, v) > 0 /\ Entitled(c, p, pm) /\ PosOf(p, v) < HeldOf(c, p)
   /\ DeliverBase(c, p, v) /\ devs' = devs \cup {"StaleSnapshot"}
Dev_LateUpdate(c, p, pm, v, by) ==          \* a broadcast computed before the deactivate arrives after its reply
   /\ by = "bcast" /\ PosOf(p, v) > 0 /\ ~Entitled(c, p, pm) /\ PosOf(p, v) >= HeldOf(c, p)
   /\ DeliverBase(c, p, v) /\ devs' = devs \cup {"LateUpdate"}

Reply(c, kind, s, sm, params) ==            \* params: the exported parameters in scope s (from the description)
   /\ IF kind = "activate"
      THEN /\ params \subseteq got[c]        \* SnapshotBeforeActive
           /\ act' = [act EXCEPT ![c] = @ \cup {s}] /\ ing' = [ing EXCEPT ![c] = @ \ {s}]
           /\ maybe' = [maybe EXCEPT ![c] = @ \ {s}]
      ELSE IF kind = "deactivate"
      THEN \* the matching scope ends.  A MODULE deactivate also sweeps away the parameter scopes of that module
           \* (the code says so explicitly; the property is silent: they stay entitled, nothing is owed to them any
           \* more).  A WHOLE-NODE deactivate ends the whole-node scope only: module and parameter scopes of the
           \* connection have not seen their matching deactivate and go on.
           /\ LET sub == IF s = "." THEN {} ELSE (act[c] \cap params) \ {s} IN
                /\ act' = [act EXCEPT ![c] = @ \ ({s} \cup sub)]
                /\ maybe' = [maybe EXCEPT ![c] = (@ \ {s}) \cup sub]
           /\ UNCHANGED ing
      ELSE /\ act' = [act EXCEPT ![c] = {}] /\ ing' = [ing EXCEPT ![c] = {}] /\ maybe' = [maybe EXCEPT ![c] = {}]
   /\ UNCHANGED <<idx, cur, held, owed, got, devs>>

(* an activate naming something that is not an exported module / parameter is refused and activates nothing *)
Refused(c, s) ==
   /\ ing' = [ing EXCEPT ![c] = @ \ {s}]
   /\ UNCHANGED <<idx, cur, act, maybe, held, owed, got, devs>>

(* quiescence: every active connection holds the current state and nothing is owed *)
Quiet(params) ==      \* params: set of [p, pm]
   /\ \A c \in Conns : \A x \in params : Active(c, x.p, x.pm) =>
          (HeldOf(c, x.p) = CurOf(x.p) \/ ("StaleSnapshot" \in devs /\ HeldOf(c, x.p) < CurOf(x.p)))
          \* (a connection left behind by the recorded stale-snapshot deviation is not reported twice)
   /\ \A c \in Conns : \A o \in owed[c] : \E x \in params : x.p = o.p /\ ~Active(c, x.p, x.pm)
   /\ UNCHANGED avars
=============================================================================
