SPECIFICATION Spec
CONSTANTS
  Callers = {"c1", "c2"}
  KeyOf <- SameKey
  MayIgnore = {}
  MaxUpd = 1
  Streaming = FALSE
  CanDrop = TRUE
  WithUser = FALSE
  T = 3
  H = 2
  UseLock = TRUE
  SafeJoin = TRUE
  Release = TRUE
  Recheck = TRUE
  defaultInitValue = defaultInitValue
INVARIANT OwnReply
INVARIANT AtMostOnce
INVARIANT NoSpuriousTimeout
INVARIANT ShutdownClean
INVARIANT NoWorkerLeft
CHECK_DEADLOCK FALSE
