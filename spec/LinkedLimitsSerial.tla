------------------------- MODULE LinkedLimitsSerial -------------------------
(* C18, concurrent writes of a value and of its limit parameters, seen from   *)
(* outside.  Check + acceptance of a value is one locked step together with   *)
(* the limit writes (LinkedLimitsConc, Locked), so the accepted operations    *)
(* take effect in ONE serial order - the order of their announced updates -   *)
(* and                                                                        *)
(*  - a value is announced (accepted) only inside the limits as of that       *)
(*    moment in the serial order;                                             *)
(*  - a refused value write was outside the limits at SOME moment between its *)
(*    call and its return; an accepted one was announced in between;          *)
(*  - the final state is the result of the serial order: p may lie outside    *)
(*    the final limits only because a limit was narrowed AFTER p was accepted *)
(*    (narrowing a limit below the current value is legal and changes nothing *)
(*    else).                                                                  *)
(* Jobs: [k |-> "p", v] write the value; [k |-> "min" / "max", v] and         *)
(* [k |-> "limits", a, b] write limit parameters (an inverted tuple is        *)
(* refused).                                                                  *)
EXTENDS Integers, Sequences, TLC
CONSTANTS Lo, Hi

VARIABLES lo, hi, val,           \* current limits and value
          job,                   \* job[w]: the job thread w is in, or [k |-> "none"]
          could,                 \* could[w]: w's value was outside the limits at some moment since its call
          done                   \* done[w]: the update of w's job was announced
svars == <<lo, hi, val, job, could, done>>
None == [k |-> "none"]

SInit(ths, l0, h0) == /\ lo = l0 /\ hi = h0 /\ val = Lo
                      /\ job = [w \in ths |-> None] /\ could = [w \in ths |-> FALSE] /\ done = [w \in ths |-> FALSE]

Outside(v, l, h) == l > h \/ v < l \/ v > h \/ v < Lo \/ v > Hi
(* after a change of the limits: which pending value writes may be refused now *)
Recheck(l, h) == could' = [w \in DOMAIN job |-> could[w] \/ (job[w].k = "p" /\ Outside(job[w].v, l, h))]

Call(w, j) ==
    /\ job[w] = None
    /\ job' = [job EXCEPT ![w] = j]
    /\ could' = [could EXCEPT ![w] = j.k = "p" /\ Outside(j.v, lo, hi)]
    /\ done' = [done EXCEPT ![w] = FALSE]
    /\ UNCHANGED <<lo, hi, val>>

(* thread w announces parameter p (a name: "p", "min", "max", "limits") with value v: its job takes effect *)
Announce(w, p, v) ==
    /\ job[w] # None /\ ~done[w] /\ job[w].k = p
    /\ done' = [done EXCEPT ![w] = TRUE]
    /\ CASE p = "p"      -> /\ v = job[w].v /\ ~Outside(v, lo, hi)      \* accepted => inside the current limits
                            /\ val' = v /\ UNCHANGED <<lo, hi, could>>
         [] p = "min"    -> /\ v = job[w].v /\ lo' = v /\ Recheck(v, hi) /\ UNCHANGED <<hi, val>>
         [] p = "max"    -> /\ v = job[w].v /\ hi' = v /\ Recheck(lo, v) /\ UNCHANGED <<lo, val>>
         [] p = "limits" -> /\ v = <<job[w].a, job[w].b>> /\ job[w].a <= job[w].b
                            /\ lo' = v[1] /\ hi' = v[2] /\ Recheck(v[1], v[2]) /\ UNCHANGED val
    /\ UNCHANGED job

Return(w, ok) ==
    /\ job[w] # None
    /\ IF ok THEN done[w]
       ELSE /\ ~done[w]
            /\ \/ job[w].k = "p" /\ could[w]
               \/ job[w].k = "limits" /\ job[w].a > job[w].b
    /\ job' = [job EXCEPT ![w] = None]
    /\ UNCHANGED <<lo, hi, val, could, done>>

Idle == \A w \in DOMAIN job : job[w] = None
=============================================================================
