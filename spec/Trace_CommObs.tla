---------------------------- MODULE Trace_CommObs ----------------------------
EXTENDS CommObs, Json, IOUtils, TLCExt
Traces == JsonDeserialize(IOEnv.TRACE_FILE)
NT == Len(Traces)
VARIABLES t, l
ASSUME \A i \in 1 .. NT : TLCSet(i, 1)
Ev == Traces[t][l]
TInit == CInit /\ t \in 1 .. NT /\ l = 1
TStep ==
  /\ l <= Len(Traces[t])
  /\ l' = l + 1 /\ t' = t
  /\ \/ void /\ UNCHANGED cvars            \* outside the environment assumption: nothing is judged any more
     \/ ~void /\ Ev.ev = "cfg" /\ Cfg(Ev.ncb, Ev.nsens)
     \/ ~void /\ Ev.ev = "hsend" /\ HostSend(Ev.g, Ev.t)
     \/ ~void /\ Ev.ev = "unsolicited" /\ Unsolicited
     \/ ~void /\ Ev.ev = "call" /\ Call(Ev.i, Ev.kind, Ev.gids, Ev.delays, Ev.t, Ev.faulty, Ev.exp)
     \/ ~void /\ Ev.ev = "drecv" /\ DevRecv(Ev.g, Ev.t)
     \/ ~void /\ Ev.ev = "drecv" /\ Dev_DelayNotHonoured(Ev.g, Ev.t)
     \/ ~void /\ Ev.ev = "dclose" /\ DevClose(Ev.t)
     \/ ~void /\ Ev.ev = "state" /\ State(Ev.connected)
     \/ ~void /\ Ev.ev = "ret" /\ Ev.ok /\ RetOk(Ev.i, Ev.got, Ev.t)
     \/ ~void /\ Ev.ev = "ret" /\ Ev.ok /\ Dev_LastDelayNotHonoured(Ev.i, Ev.got, Ev.t)
     \/ ~void /\ Ev.ev = "ret" /\ ~Ev.ok /\ RetFail(Ev.i, Ev.exc, Ev.t)
     \/ ~void /\ Ev.ev = "attempt" /\ Attempt(Ev.ok, Ev.t)
     \/ ~void /\ Ev.ev = "attempt" /\ Dev_NoRateLimit(Ev.ok, Ev.t)
     \/ ~void /\ Ev.ev = "callback" /\ Callback(Ev.name)
     \/ ~void /\ Ev.ev = "identfail" /\ IdentFail
     \/ ~void /\ Ev.ev = "udisc" /\ UserDisc
     \/ ~void /\ Ev.ev = "end" /\ EndOK(Ev.connected, Ev.unfinished, Ev.mustheal)
     \/ ~void /\ Ev.ev = "end" /\ Ev.trickle /\ Dev_NeverReturns(Ev.unfinished)
TSpec == TInit /\ [][TStep]_<<cvars, t, l>>
Track == TLCSet(t, IF l > TLCGet(t) THEN l ELSE TLCGet(t))
Done == (l = Len(Traces[t]) + 1) => PrintT(<<"DEVS", t, ToJson(IF void THEN {"ASSUME:stale-data-in-flight"} ELSE devs)>>)
Verdicts == \A i \in 1 .. NT :
   IF TLCGet(i) = Len(Traces[i]) + 1 THEN PrintT(<<"ACCEPT", i>>)
   ELSE PrintT(<<"REJECT", i, TLCGet(i), "event not allowed by CommObs">>)
=============================================================================
