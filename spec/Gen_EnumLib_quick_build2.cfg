SPECIFICATION GSpec
VIEW GView
CONSTANTS
  Names = {"a", "name"}
  IntVals <- IV_small
  Specials = {"none", "ref", "floatint", "floatfrac", "bool", "list", "mem"}
  DispNames = {"x"}
  MaxPieces = 2
  MaxExt = 1
  MaxDepth = 3
  AsImpl = {}
  Families = {"build"}
CHECK_DEADLOCK FALSE
