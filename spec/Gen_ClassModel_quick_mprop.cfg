SPECIFICATION GSpec
CONSTANTS
  NClasses = 3
  NInsts = 1
  Bodies = {}
  Cfgs = {"-"}
  Muts = {}
  DescIds = {"d"}
  MaxBases = 1
  MaxMuts = 0
  MaxLevel = 99
  Depth = 4
  RootP = {"new"}
  MixinP = {}
  DerivedP = {}
  DerivedC = {}
  DerivedM = {"bare", "bare2"}
  DerivedW = {}
  MaxOverrides = 1
  MaxRoots = 1
CONSTRAINT GBound
INVARIANT Emit1
CHECK_DEADLOCK FALSE
