SPECIFICATION SSpec
CONSTANTS
  MaxLen = 0
  ReadSize = 1
  Classes = {"idn"}
  MaxPend = 1
  Threads = {"req", "upd", "log"}
  UseLock = FALSE
  CheckRunning = TRUE
INVARIANT LinesWhole
CHECK_DEADLOCK FALSE
