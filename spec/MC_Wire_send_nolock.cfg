SPECIFICATION SSpec
CONSTANTS
  MaxLen = 0
  Classes = {"idn"}
  MaxPend = 1
  Threads = {"req", "upd", "log"}
  UseLock = FALSE
INVARIANT LinesWhole
CHECK_DEADLOCK FALSE
