SPECIFICATION GLSpec
CONSTANTS
  O = 20
  BLow = 0
  BHigh = 0
  MaxLen = 0
  NPorts = {0, 1, 2}
  Classes = {"discover", "object", "number", "string", "list", "null", "bool", "badutf8", "badjson", "empty", "oversized", "deep", "oversized_deep", "discover_extra"}
  Loose = {}
  Contained = {"discover", "object", "number", "string", "list", "null", "bool", "badutf8", "badjson", "empty", "oversized", "deep", "oversized_deep", "discover_extra"}
  DisableRule = "identity"
  AnnounceRule = "enabled"
  Depth = 3
CONSTRAINT Bound
INVARIANT EmitL
CHECK_DEADLOCK FALSE
