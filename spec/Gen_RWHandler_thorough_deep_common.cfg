SPECIFICATION GSpec
CONSTANTS
  Layouts <- GenCommon
  Impl <- NoDevs
  Depth = 6
  GenModes <- QuickModes
  GenBy = FALSE
CONSTRAINT Bound
ACTION_CONSTRAINT EmitStep
VIEW AbstractView
CHECK_DEADLOCK FALSE
