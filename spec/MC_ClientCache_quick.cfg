SPECIFICATION Spec
CONSTANTS
  Mods = {"m1", "m2"}
  PNames = {"value", "target", "x"}
  ExtraM = {}
  ExtraP = {}
  CmdP = {}
  DescCmds = {"cmd", "stop", "_stop"}
  Wires = {"w1", "wbad"}
  ValidW = {"w1"}
  ValidWB = {}
  Variants = {"a"}
  OtherDescs = {}
  ENames = {"HardwareError", "Bogus"}
  KnownE = {"HardwareError"}
  Texts = {"tp"}
  PrefTexts = {"tp"}
  PrefClass = "RangeError"
  PrefRest = "t1"
  Stamps = {5, 999}
  MaxNow = 2
  Shapes = {"ok", "short"}
  LevelKinds = {"node", "module", "param"}
  Kinds = {"updateEvent"}
  Behs = {"ok", "oneshot"}
  ErrBehs = {"raise"}
  InitDescs <- StdInit
  Descs <- StdDescs
  MaxCbs = 2
  MaxWait = 1
  Depth = 3
CONSTRAINT Bound
INVARIANT TypeOK
INVARIANT NoFuture
INVARIANT LastImport
INVARIANT RegisterSeesCache
INVARIANT ReleasedSeesNew
PROPERTY Ignored
PROPERTY ExactlyOnce
PROPERTY Frame
PROPERTY Isolation
CHECK_DEADLOCK FALSE
