SPECIFICATION GSpec
CONSTANTS
  Threads = {"a", "b", "w"}
  Script <- Scen_queue
  InitEv <- Init_one
  MaxTime = 2
  Inf = 99
  RaisingActs = {"a2"}
  FixLock = TRUE
  FixInit = TRUE
  FixIsSet = TRUE
  Locked = TRUE
  DetTime = TRUE
VIEW View
INVARIANT Emit
CHECK_DEADLOCK FALSE
