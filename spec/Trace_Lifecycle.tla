--------------------------- MODULE Trace_Lifecycle ---------------------------
(* code -> spec: event logs of the real SecNode / Server._processCfg / shutdown_modules on  *)
(* instrumented module classes must be accepted by the ordering automaton of Lifecycle.     *)
(* Named deviation disjuncts explain what the    the pinned code does where it is known to *)
(* break the property; a trace that needs one is reported with that name.                   *)
EXTENDS Lifecycle, Json, IOUtils, TLCExt, SequencesExt
Traces == JsonDeserialize(IOEnv.TRACE_FILE)
NT == Len(Traces)
VARIABLES t, l, devs
ASSUME \A i \in 1 .. NT : TLCSet(i, 1)
Ev == Traces[t][l]
C == Traces[t][1]          \* first record: the configuration

TInit == /\ t \in 1 .. NT /\ l = 2 /\ devs = {}
         /\ mods = ToSet(C.order)
         /\ att = [m \in ToSet(C.order) |-> ToSet(C.att[m])]
         /\ wrong = {<<C.wrong[n][1], C.wrong[n][2]>> : n \in 1 .. Len(C.wrong)}
         /\ fail = [m \in ToSet(C.order) |-> C.fail[m]]
         /\ polls = ToSet(C.polls) /\ writes = ToSet(C.writes)
         /\ host = [m \in ToSet(C.order) |-> C.host[m]]
         /\ phase = [m \in ToSet(C.order) |-> "absent"]
         /\ written = {} /\ polled = {} /\ cbdone = {} /\ state = "starting"
         /\ stopped = {} /\ joined = {} /\ shut = {} /\ inflight = {} /\ stopAt = 0

Same == UNCHANGED vars
D(name) == devs' = devs \cup {name}
NoD == UNCHANGED devs

TStep ==
  /\ l <= Len(Traces[t])
  /\ l' = l + 1 /\ t' = t
  /\ \/ Ev.ev = "create" /\ Create(Ev.m) /\ NoD
     \/ Ev.ev = "early" /\ EarlyInit(Ev.m) /\ NoD
     \/ Ev.ev = "init" /\ InitModule(Ev.m) /\ NoD
     \/ Ev.ev = "attach" /\ Ev.got = Ev.t /\ AttachSeen(Ev.u, Ev.t) /\ NoD    \* the attribute gives the module named
     \/ Ev.ev = "attach" /\ ~Healthy /\ Same /\ NoD          \* error path of a configuration that is being refused
     \/ Ev.ev = "start" /\ Healthy /\ StartModule(Ev.m) /\ NoD
     \/ Ev.ev = "write" /\ Healthy /\ Write(Ev.m) /\ NoD
     \/ Ev.ev = "poll" /\ Healthy /\ Ev.m \notin polled /\ FirstPoll(Ev.m) /\ NoD
     \/ Ev.ev = "poll" /\ Poll(Ev.m) /\ NoD
     \/ Ev.ev = "slow_read" /\ Same /\ NoD
     \/ Ev.ev = "read" /\ Healthy /\ PolledRead(Ev.m) /\ NoD
     \/ Ev.ev = "read" /\ ~Healthy /\ Same /\ NoD
     \/ Ev.ev = "poll_long" /\ PollBegin(Ev.m) /\ NoD
     \/ Ev.ev = "poll_end" /\ PollEnd(Ev.m) /\ NoD
     \/ Ev.ev = "started_cb" /\ StartedCb(Ev.m) /\ NoD
     \/ Ev.ev = "ready" /\ Ready(Ev.vt) /\ NoD
     \/ Ev.ev = "config_error" /\ Refuse /\ NoD
     \/ Ev.ev = "begin_stop" /\ BeginStop(Ev.vt) /\ NoD
     \/ Ev.ev = "stop_poller" /\ Ev.m \notin stopped /\ StopPoller(Ev.m) /\ NoD
     \/ Ev.ev = "stop_poller" /\ Ev.m \in stopped /\ Same /\ NoD
     \/ Ev.ev = "join" /\ Join(Ev.m) /\ NoD
     \/ Ev.ev = "shutdown" /\ Shutdown(Ev.m, Ev.vt) /\ NoD
     \/ Ev.ev = "down" /\ state = "down" /\ Same /\ NoD
     (* ---- deviations of the pinned code ---- *)
     \* a cycle walked through during initialisation re-enters earlyInit / initModule until the recursion limit
     \/ Ev.ev \in {"early", "init"} /\ Cyclic /\ Rank(phase[Ev.m]) >= 2 /\ state = "starting"
           /\ phase' = [phase EXCEPT ![Ev.m] = IF Ev.ev = "init" THEN "inited" ELSE @]
           /\ UNCHANGED <<cfgvars, written, polled, cbdone, state, stopped, joined, shut, inflight, stopAt>> /\ D("RepeatedInitOnCycle")
     \/ Ev.ev = "attach" /\ Cyclic /\ Ev.t \in mods /\ Same /\ D("RepeatedInitOnCycle")
     \* modules are started (and may write / poll) although the configuration is going to be refused
     \/ Ev.ev = "start" /\ ~Healthy /\ state = "starting" /\ Rank(phase[Ev.m]) < 4
           /\ phase' = [phase EXCEPT ![Ev.m] = "started"]
           /\ UNCHANGED <<cfgvars, written, polled, cbdone, state, stopped, joined, shut, inflight, stopAt>> /\ D("StartedBeforeRefusal")
     \/ Ev.ev \in {"write", "poll", "started_cb"} /\ ~Healthy /\ state = "starting" /\ Same /\ D("StartedBeforeRefusal")
     \/ Ev.ev = "config_error" /\ ~Healthy /\ state = "starting" /\ (\E m \in mods : phase[m] = "started")
           /\ state' = "refused"
           /\ UNCHANGED <<cfgvars, phase, written, polled, cbdone, stopped, joined, shut, inflight, stopAt>> /\ D("StartedBeforeRefusal")
     \* a module that is neither exported nor attached is started without ever being initialised
     \/ Ev.ev = "start" /\ Healthy /\ state = "starting" /\ phase[Ev.m] = "created"
           /\ phase' = [phase EXCEPT ![Ev.m] = "started"]
           /\ UNCHANGED <<cfgvars, written, polled, cbdone, state, stopped, joined, shut, inflight, stopAt>> /\ D("StartedUninitialised")
     \/ Ev.ev = "ready" /\ Healthy /\ state = "starting" /\ "StartedUninitialised" \in devs
           /\ (\A m \in mods : phase[m] = "started") /\ state' = "ready"
           /\ UNCHANGED <<cfgvars, phase, written, polled, cbdone, stopped, joined, shut, inflight, stopAt>> /\ NoD
     \* a cyclic / dangling / wrongly typed attachment nobody looks at during start-up goes unnoticed
     \/ Ev.ev = "ready" /\ ~Healthy /\ (\A m \in mods : fail[m] = "none") /\ state = "starting" /\ state' = "ready"
           /\ UNCHANGED <<cfgvars, phase, written, polled, cbdone, stopped, joined, shut, inflight, stopAt>>
           /\ D(IF Cyclic THEN "ReadyDespiteCycle" ELSE "ReadyDespiteBadAttachment")
     \/ Ev.ev \in {"shutdown", "join", "stop_poller", "down", "begin_stop"} /\ ~Healthy /\ state \in {"ready", "stopping", "down"}
           /\ state' = (IF Ev.ev = "down" THEN "down" ELSE "stopping")
           /\ UNCHANGED <<cfgvars, phase, written, polled, cbdone, stopped, joined, shut, inflight, stopAt>> /\ NoD

ReadyMeansStartedT == (devs = {}) => (ReadyMeansStarted /\ RefusedClean /\ ShutdownOrder)
TSpec == TInit /\ [][TStep]_<<vars, t, l, devs>>
Track == TLCSet(t, IF l > TLCGet(t) THEN l ELSE TLCGet(t))
Done == (l = Len(Traces[t]) + 1) => PrintT(<<"DEVS", t, ToJson(devs)>>)
Verdicts == \A i \in 1 .. NT :
   IF TLCGet(i) = Len(Traces[i]) + 1 THEN PrintT(<<"ACCEPT", i>>)
   ELSE PrintT(<<"REJECT", i, TLCGet(i), "event not allowed by Lifecycle">>)
=============================================================================
