SPECIFICATION HSpec
CONSTANTS
  Statuses = {"100:stopped", "100:done", "400:x"}
  Codes = {100, 300, 390, 400}
INVARIANT HTypeOK
INVARIANT FastOnlyWhileRunning
PROPERTY ReqDiscipline
PROPERTY ErrOnlyAfterOnError
CHECK_DEADLOCK FALSE
