SPECIFICATION HSpec
CONSTANTS
  Statuses = {"idle:stopped", "idle:done", "error:x"}
INVARIANT HTypeOK
PROPERTY ReqDiscipline
CHECK_DEADLOCK FALSE
