SPECIFICATION Spec
CONSTANTS
  Threads = {"a", "b", "w"}
  Script <- Scen_queue
  InitEv <- Init_one
  MaxTime = 2
  Inf = 99
  RaisingActs = {"a2"}
  FixLock = FALSE
  FixInit = TRUE
  FixIsSet = TRUE
  DetTime = FALSE
  Locked = TRUE
PROPERTY WaitTrueQuiet
CHECK_DEADLOCK FALSE
