SPECIFICATION GSpec
CONSTANTS
  Layouts = {10, 20, 30, 11, 21, 22}
  Excs = {"hardware", "other"}
  Depth = 7
  Depth2 = 5
  Upd = {"a1", "a2", "a3", "b1", "b2"}
  FC = {}
  FO = {}
  UpdAny = FALSE
CONSTRAINT Bound
INVARIANT Emit1
CHECK_DEADLOCK FALSE
