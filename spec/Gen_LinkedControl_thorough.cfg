SPECIFICATION GSpec
CONSTANTS
  Ctls = {"c1", "c2", "c3"}
  Depth = 7
  Upd = {"c1", "c2", "c3"}
  UpdAny = FALSE
CONSTRAINT Bound
INVARIANT Emit1
CHECK_DEADLOCK FALSE
