\* documents X06-restart-lost at design level: EXPECTED TO FAIL RestartHonoured
SPECIFICATION Spec
CONSTANTS
  NIf = 1
  Kinds = {"ok"}
  Req = {"res1"}
  Repaired = FALSE
  FixNoIf = FALSE
  Crashes = FALSE
PROPERTY RestartHonoured
CHECK_DEADLOCK FALSE
