SPECIFICATION GSpec
CONSTANTS
  Threads = {"a", "b", "w"}
  Script <- Scen_new
  InitEv <- Init_one
  MaxTime = 3
  Inf = 99
  RaisingActs = {}
  FixLock = FALSE
  FixInit = FALSE
  FixIsSet = FALSE
  Locked = TRUE
  DetTime = TRUE
VIEW View
INVARIANT Emit
CHECK_DEADLOCK FALSE
