SPECIFICATION GSpec
CONSTANTS
  Layouts <- GoodIm
  Impl <- NoDevs
  Depth = 5
  GenModes <- AllModes
  GenBy = TRUE
CONSTRAINT Bound
ACTION_CONSTRAINT EmitStep
VIEW AbstractView
CHECK_DEADLOCK FALSE
