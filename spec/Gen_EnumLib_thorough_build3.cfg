SPECIFICATION GSpec
VIEW GView
CONSTANTS
  Names = {"a", "b", "name"}
  IntVals <- IV_quick
  Specials = {"none", "ref", "floatint", "bool"}
  DispNames = {"x", "y"}
  MaxPieces = 2
  MaxExt = 2
  MaxDepth = 2
  AsImpl = {}
  Families = {"build"}
CHECK_DEADLOCK FALSE
