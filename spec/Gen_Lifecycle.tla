---------------------------- MODULE Gen_Lifecycle ----------------------------
(* configuration emission: every initial state of Lifecycle (bounded) is one configuration *)
EXTENDS Lifecycle, Json
CONSTANT MaxMods
NameOrder == <<"a", "b", "c", "d", "e", "p", "x", "y">>
Ord(n) == CHOOSE k \in 1 .. Len(NameOrder) : NameOrder[k] = n
(* the bounded configuration space; every restriction directly follows the choice it restricts, so that TLC *)
(* never enumerates the unrestricted product                                                              *)
GInit == /\ mods \in {M \in (SUBSET Names) \ {{}} : Cardinality(M) <= MaxMods}
         /\ att \in [mods -> {S \in SUBSET (Names \cup {Missing}) : Cardinality(S) <= 2}]
         /\ wrong \in {W \in SUBSET {e \in mods \X mods : e[2] \in att[e[1]]} : Cardinality(W) <= 1}
         /\ fail \in {f \in [mods -> FailKinds] : Cardinality({m \in mods : f[m] # "none"}) <= 1}
         /\ polls \in {mods, {}} \cup {{m} : m \in mods}
         /\ writes \in {polls, {}, mods, mods \ polls}
         \* every module has its own poll thread, or every module with attachments is served by the thread of its first one (`io`)
         /\ host \in {[m \in mods |-> m],
                       [m \in mods |-> IF att[m] \cap mods = {} THEN m ELSE CHOOSE t \in att[m] \cap mods : \A u \in att[m] \cap mods : Ord(t) <= Ord(u)]}
         /\ RunInit
GSpec == GInit /\ [][FALSE]_vars
(* the design check needs only the failure kinds that differ for the automaton *)
BasicFail == \A m \in mods : fail[m] \in {"none", "early", "init", "create"}
MCSpec == GInit /\ BasicFail /\ [][Next]_vars          \* design check over the same bounded configuration space
(* three modules: the configuration space is thinned (at most MaxEdges attachments in total, one module declared first *)
(* polls alone or all do) so that the exhaustive run finishes; the two-module space is complete                         *)
CONSTANT MaxEdges
RECURSIVE SumCard(_, _)
SumCard(f, S) == IF S = {} THEN 0 ELSE LET x == CHOOSE y \in S : TRUE IN Cardinality(f[x]) + SumCard(f, S \ {x})
MC3Init == /\ GInit /\ BasicFail
           /\ SumCard(att, mods) <= MaxEdges
MC3Spec == MC3Init /\ [][Next]_vars
Emit1 == PrintT(<<"BEH", ToJson([mods |-> mods, att |-> att, wrong |-> wrong, fail |-> fail, polls |-> polls, writes |-> writes, host |-> host])>>)
=============================================================================
