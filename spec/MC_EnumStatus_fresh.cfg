SPECIFICATION SSpec
CONSTANTS
  Names = {"a"}
  IntVals <- IV_small
  Specials = {}
  DispNames = {""}
  MaxPieces = 1
  MaxExt = 1
  MaxDepth = 1
  AsImpl = {}
  MaxClasses = 2
  StdArgs <- SA_quick
  KwArgs <- KA_quick
  ExtraKinds = {"fresh"}
INVARIANT Monotone
INVARIANT AllBijections
PROPERTY FrozenClasses
CHECK_DEADLOCK FALSE
