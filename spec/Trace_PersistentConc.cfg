SPECIFICATION TSpec
CONSTRAINT Track
POSTCONDITION Verdicts
CHECK_DEADLOCK FALSE
