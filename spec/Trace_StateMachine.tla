------------------------- MODULE Trace_StateMachine -------------------------
(* code -> spec.  Recorded executions of the real StateMachine must be behaviours of   *)
(* StateMachine in its concurrent configuration.  Logged (binding) events:              *)
(*   begin                 cycle() entered                                              *)
(*   call(fn, init, b)     a state function is called, sees init, will behave as b      *)
(*   cleanup(reason, b)    the cleanup function is called, sees cleanup_reason          *)
(*   hook(to)              the transition hook is called                                *)
(*   new(s, kw)            the machine is constructed (first event)                     *)
(*   rejected              start() with a forbidden keyword raised (machine unchanged); *)
(*                         a post carrying such a keyword (bad # "-") is not explained  *)
(*   post(task)            start()/stop() completed - from a second thread between two  *)
(*                         lines of cycle(), or re-entrantly from inside a state        *)
(*                         function / the hook / the cleanup function                   *)
(*   end(st)               cycle() returned; st = projected state of the object         *)
(*   state(st)             projected state while no cycle is running                    *)
(* All other labels of cycle() are internal and taken silently; where exactly a post    *)
(* falls between two silent labels is not logged, TLC searches all positions.  An       *)
(* exception leaving cycle() is logged as `raised`, which no action explains.           *)
EXTENDS StateMachine, Json, IOUtils, TLCExt, SequencesExt
Traces == JsonDeserialize(IOEnv.TRACE_FILE)
NT == Len(Traces)
VARIABLES t, l
ASSUME \A i \in 1 .. NT : TLCSet(i, 1)

Ev == Traces[t][l]
(* the first event of a trace is the construction: StateMachine(statefunc=s | None, **kw) *)
TInit == /\ t \in 1 .. NT /\ l = 2
         /\ LET e == Traces[t][1] IN
              /\ e.ev = "new"
              /\ InitWith(e.kw, IF e.s = NoneS THEN NoTask ELSE StartTask(e.s, NoKw, NoneS), e.c,
                          IF e.hook THEN "given" ELSE "none")

Matches(st) == /\ st.statefunc = statefunc' /\ st.init = init' /\ st.task = next_task'
               /\ st.cleanup_none = (cleanup' = NoneS) /\ st.reason = cleanup_reason'
               /\ st.attrs = attrs'

TStep ==
  \/ /\ l <= Len(Traces[t])
     /\ l' = l + 1 /\ t' = t
     /\ \/ Ev.ev = "begin" /\ CycleBegin
        \/ Ev.ev = "call" /\ Ev.fn = statefunc /\ Ev.init = init /\ Call(Ev.b)
        \/ Ev.ev = "cleanup" /\ Ev.reason = cleanup_reason /\ ClCall(Ev.b)
        \/ Ev.ev = "hook" /\ Ev.to = nsarg /\ NsHook
        \/ Ev.ev = "post" /\ Ev.bad = Absent /\ Post(Ev.task)
        \/ Ev.ev = "rejected" /\ RejectedStart
        \/ Ev.ev = "end" /\ (Outer \/ AfterCall) /\ pc' = "idle" /\ Matches(Ev.st)
        \/ Ev.ev = "state" /\ pc = "idle" /\ UNCHANGED vars /\ Matches(Ev.st)
  \/ /\ Silent /\ pc' # "idle"
     /\ UNCHANGED <<t, l>>

TSpec == TInit /\ [][TStep]_<<vars, t, l>>

Track == TLCSet(t, IF l > TLCGet(t) THEN l ELSE TLCGet(t))
Verdicts == \A i \in 1 .. NT :
   IF TLCGet(i) = Len(Traces[i]) + 1 THEN PrintT(<<"ACCEPT", i>>)
   ELSE PrintT(<<"REJECT", i, TLCGet(i), "event not explained by StateMachine">>)
=============================================================================
