SPECIFICATION Spec
CONSTANTS
  Families = {"A", "B", "C1", "C2", "E"}
INVARIANT CacheInDatainfo
INVARIANT ConstantsHold
INVARIANT EmittedConverts
PROPERTY DriverOnlyIfAllowed
PROPERTY ErrorLeavesNoTrace
PROPERTY ValidIsServed
PROPERTY Frame
CHECK_DEADLOCK FALSE
