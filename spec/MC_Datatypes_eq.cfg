SPECIFICATION Spec
CONSTANTS
  Tier = "quick"
  Shard = 0
  NShards = 1
INVARIANT DescribeRebuild
CHECK_DEADLOCK FALSE
