SPECIFICATION GSpec
CONSTANTS
  Layouts <- GoodCfg
  Impl <- NoDevs
  Depth = 5
  GenModes <- QuickModes
  GenBy = TRUE
CONSTRAINT Bound
ACTION_CONSTRAINT EmitStep
VIEW AbstractView
CHECK_DEADLOCK FALSE
