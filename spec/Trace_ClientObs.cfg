SPECIFICATION TSpec
CONSTANTS
  NC = 4
  Tmo = 100
  Prompt = 15
CONSTRAINT Track
INVARIANT AtMostOnce
INVARIANT Done
POSTCONDITION Verdicts
CHECK_DEADLOCK FALSE
