SPECIFICATION TSpec
CONSTANTS
  Nodes = {"A"}
  Order <- OrderA
  ModsOf <- ModsA
  Params = {"value", "sp", "mode"}
  Values = {0, 1, 2, 3, 4, 5}
  UpErrs = {"hw", "range"}
  Conns = {"c1", "c2"}
  StartDown = {}
  WaitSteps = {2, 12}
  ReadErrChoice = {TRUE, FALSE}
  GiveUpErrChoice = {TRUE, FALSE}
CONSTRAINT Track
INVARIANT ViewIsCache
INVARIANT Mirror
INVARIANT GoneShowsNoValue
INVARIANT RoutedToOwner
INVARIANT OnlyActiveReceive
POSTCONDITION Verdicts
CHECK_DEADLOCK FALSE
