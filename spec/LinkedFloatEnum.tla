--------------------------- MODULE LinkedFloatEnum ---------------------------
(* C18 (2): a float parameter bound to an enumerated index                    *)
(* (frappy/extparams.py FloatEnumParam): the float always shows the value     *)
(* belonging to the current index; a write of the float selects the closest   *)
(* allowed value (ties may resolve to either neighbour).                      *)
(*                                                                            *)
(* Values are integer ticks (the harness maps tick k to k * 0.25).            *)
(* tab   : name of the value table (index -> tick), fixed in a behaviour      *)
(* shape : "rw" the hardware index can be read back and written,              *)
(*         "w"  it can only be written (a read shows the cached index)        *)
(* mode  : what the driver's write_<idx> does with a requested index i:       *)
(*         "echo"  stores i and returns i      "none" stores i, returns None  *)
(*         "clamp" the hardware has no range above index Cap: it stores       *)
(*                 Min(i, Cap) and returns what it stored (legal: the return  *)
(*                 value of a write method is the value really set)           *)
(*         "raise" above Cap it raises a SECoP error and stores nothing       *)
(*         "crash" above Cap it raises something that is no SECoP error       *)
(*                 (ValueError, OSError, ...) and stores nothing              *)
(* idx   : cached index parameter          hw : index held by the hardware    *)
(* req   : the index last requested from the driver's write_<idx> (-1: none)  *)
(* val   : what the float parameter shows (module attribute, update stream,   *)
(*         read reply - the binding compares all three with this variable)    *)
(* last  : outcome of the last operation ("ok" / "refused")                   *)
EXTENDS Integers, FiniteSets, TLC

CONSTANTS Tables,   \* subset of TableNames
          Shapes,   \* subset of {"rw", "w"}
          Modes,    \* subset of {"echo", "none", "clamp", "raise", "crash"}
          Xs        \* ticks offered to a write of the float parameter

Tab(name) ==
  CASE name = "asc3"  -> (0 :> 1 @@ 1 :> 3 @@ 2 :> 7)
    [] name = "desc3" -> (0 :> 7 @@ 1 :> 3 @@ 2 :> 1)
    [] name = "gap3"  -> (1 :> 5 @@ 2 :> 1 @@ 9 :> 3)
    [] name = "two"   -> (0 :> 2 @@ 1 :> 6)
    [] name = "dup3"  -> (0 :> 4 @@ 1 :> 4 @@ 2 :> 6)
    [] name = "mix4"  -> (0 :> 4 @@ 1 :> 1 @@ 2 :> 7 @@ 5 :> 2)
TableNames == {"asc3", "desc3", "gap3", "two", "dup3", "mix4"}

VARIABLES tab, shape, mode, idx, hw, req, val, last
fvars == <<tab, shape, mode, idx, hw, req, val, last>>

T == Tab(tab)
Idxs == DOMAIN T
Abs(a) == IF a < 0 THEN 0 - a ELSE a
Min == CHOOSE v \in {T[i] : i \in Idxs} : \A j \in Idxs : v <= T[j]
Max == CHOOSE v \in {T[i] : i \in Idxs} : \A j \in Idxs : v >= T[j]
InRange(x) == Min <= x /\ x <= Max
Closest(x) == {i \in Idxs : \A j \in Idxs : Abs(T[i] - x) <= Abs(T[j] - x)}
FirstIdx == CHOOSE i \in Idxs : \A j \in Idxs : i <= j
(* the second smallest index (the only one, if there is only one) *)
Cap == CHOOSE i \in Idxs : Cardinality({j \in Idxs : j < i}) = (IF Cardinality(Idxs) > 1 THEN 1 ELSE 0)

FInit == /\ tab \in Tables /\ shape \in Shapes /\ mode \in Modes
         /\ idx = FirstIdx /\ hw = FirstIdx /\ req = 0 - 1
         /\ val = T[idx] /\ last = "ok"

(* the driver is asked for index i: the module ends up on the index the hardware reports *)
Lands(i) == IF mode = "clamp" /\ i > Cap THEN Cap ELSE i
Fails(i) == mode \in {"raise", "crash"} /\ i > Cap
Ask(i) == /\ req' = i
          /\ IF Fails(i) THEN UNCHANGED <<idx, hw, val>> /\ last' = "refused"
                          ELSE idx' = Lands(i) /\ hw' = Lands(i) /\ val' = T[Lands(i)] /\ last' = "ok"
Refuse == UNCHANGED <<idx, hw, req, val>> /\ last' = "refused"

WriteFloat(x) ==         \* change <float> x  /  write_<float>(x)
    /\ \/ \E i \in Closest(x) : Ask(i)
       \/ ~InRange(x) /\ Refuse      \* outside the table's range the datatype may refuse
    /\ UNCHANGED <<tab, shape, mode>>

WriteIdx(i) ==           \* change <idx> i  /  write_<idx>(i)
    /\ i \in Idxs /\ Ask(i) /\ UNCHANGED <<tab, shape, mode>>

AssignIdx(i) ==          \* driver: self.<idx> = i   (cache only)
    /\ i \in Idxs
    /\ idx' = i /\ val' = T[i] /\ last' = "ok"
    /\ UNCHANGED <<hw, req, tab, shape, mode>>

ReadIdx ==               \* read <idx>  /  read_<idx>()
    /\ idx' = (IF shape = "rw" THEN hw ELSE idx)
    /\ val' = T[idx'] /\ last' = "ok"
    /\ UNCHANGED <<hw, req, tab, shape, mode>>

ReadFloat ==             \* read <float>: shows val, changes nothing
    /\ last' = "ok" /\ UNCHANGED <<idx, hw, req, val, tab, shape, mode>>

FNext == \/ \E x \in Xs : WriteFloat(x)
         \/ \E i \in Idxs : WriteIdx(i) \/ AssignIdx(i)
         \/ ReadIdx \/ ReadFloat
FSpec == FInit /\ [][FNext]_fvars

(* ---- properties ---- *)
TypeOK == /\ tab \in TableNames /\ idx \in Idxs /\ hw \in Idxs /\ req \in Idxs \cup {0 - 1}
          /\ last \in {"ok", "refused"}
(* whatever the driver answered: the float shows the value of the index the module is on *)
ShowsIndexValue == val = T[idx]
(* a write of x inside the range asks the driver for a closest table value; if the driver accepts, *)
(* cache and hardware are on the index the driver reported                                         *)
ClosestSelected == [][\A x \in Xs : (WriteFloat(x) /\ InRange(x)) =>
                        /\ \A j \in Idxs : Abs(T[req'] - x) <= Abs(T[j] - x)
                        /\ last' = "ok" => (hw' = idx' /\ idx' = Lands(req'))]_fvars
(* a refused write changes neither cache nor hardware *)
RefusedChangesNothing == [][last' = "refused" => <<idx, hw, val>>' = <<idx, hw, val>>]_fvars
(* without a clamping or refusing hardware the module ends up where it was asked to go *)
FaithfulLands == [][(mode \in {"echo", "none"} /\ req' # req) => idx' = req']_fvars
=============================================================================
