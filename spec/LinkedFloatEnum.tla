--------------------------- MODULE LinkedFloatEnum ---------------------------
(* C18 (2): a float parameter bound to an enumerated index                    *)
(* (frappy/extparams.py FloatEnumParam): the float always shows the value     *)
(* belonging to the current index; a write of the float selects the closest   *)
(* allowed value (ties may resolve to either neighbour).                      *)
(*                                                                            *)
(* Values are integer ticks (the harness maps tick k to k * 0.25).            *)
(* tab   : name of the value table (index -> tick), fixed in a behaviour      *)
(* shape : "rw" the hardware index can be read back and written,              *)
(*         "w"  it can only be written (a read shows the cached index)        *)
(* idx   : cached index parameter          hw : index held by the hardware    *)
(* val   : what the float parameter shows (module attribute, update stream,   *)
(*         read reply - the binding compares all three with this variable)    *)
(* last  : outcome of the last operation ("ok" / "refused")                   *)
EXTENDS Integers, FiniteSets, TLC

CONSTANTS Tables,   \* subset of TableNames
          Shapes,   \* subset of {"rw", "w"}
          Xs        \* ticks offered to a write of the float parameter

Tab(name) ==
  CASE name = "asc3"  -> (0 :> 1 @@ 1 :> 3 @@ 2 :> 7)
    [] name = "desc3" -> (0 :> 7 @@ 1 :> 3 @@ 2 :> 1)
    [] name = "gap3"  -> (1 :> 5 @@ 2 :> 1 @@ 9 :> 3)
    [] name = "two"   -> (0 :> 2 @@ 1 :> 6)
    [] name = "dup3"  -> (0 :> 4 @@ 1 :> 4 @@ 2 :> 6)
    [] name = "mix4"  -> (0 :> 4 @@ 1 :> 1 @@ 2 :> 7 @@ 5 :> 2)
TableNames == {"asc3", "desc3", "gap3", "two", "dup3", "mix4"}

VARIABLES tab, shape, idx, hw, val, last
fvars == <<tab, shape, idx, hw, val, last>>

T == Tab(tab)
Idxs == DOMAIN T
Abs(a) == IF a < 0 THEN 0 - a ELSE a
Min == CHOOSE v \in {T[i] : i \in Idxs} : \A j \in Idxs : v <= T[j]
Max == CHOOSE v \in {T[i] : i \in Idxs} : \A j \in Idxs : v >= T[j]
InRange(x) == Min <= x /\ x <= Max
Closest(x) == {i \in Idxs : \A j \in Idxs : Abs(T[i] - x) <= Abs(T[j] - x)}
FirstIdx == CHOOSE i \in Idxs : \A j \in Idxs : i <= j

FInit == /\ tab \in Tables /\ shape \in Shapes
         /\ idx = FirstIdx /\ hw = FirstIdx
         /\ val = T[idx] /\ last = "ok"

Select(i) == idx' = i /\ hw' = i /\ val' = T[i] /\ last' = "ok"
Refuse == UNCHANGED <<idx, hw, val>> /\ last' = "refused"

WriteFloat(x) ==         \* change <float> x  /  write_<float>(x)
    /\ \/ \E i \in Closest(x) : Select(i)
       \/ ~InRange(x) /\ Refuse      \* outside the table's range the datatype may refuse
    /\ UNCHANGED <<tab, shape>>

WriteIdx(i) ==           \* change <idx> i  /  write_<idx>(i)
    /\ i \in Idxs /\ Select(i) /\ UNCHANGED <<tab, shape>>

AssignIdx(i) ==          \* driver: self.<idx> = i   (cache only)
    /\ i \in Idxs
    /\ idx' = i /\ val' = T[i] /\ last' = "ok"
    /\ UNCHANGED <<hw, tab, shape>>

ReadIdx ==               \* read <idx>  /  read_<idx>()
    /\ idx' = (IF shape = "rw" THEN hw ELSE idx)
    /\ val' = T[idx'] /\ last' = "ok"
    /\ UNCHANGED <<hw, tab, shape>>

ReadFloat ==             \* read <float>: shows val, changes nothing
    /\ last' = "ok" /\ UNCHANGED <<idx, hw, val, tab, shape>>

FNext == \/ \E x \in Xs : WriteFloat(x)
         \/ \E i \in Idxs : WriteIdx(i) \/ AssignIdx(i)
         \/ ReadIdx \/ ReadFloat
FSpec == FInit /\ [][FNext]_fvars

(* ---- properties ---- *)
TypeOK == tab \in TableNames /\ idx \in Idxs /\ hw \in Idxs /\ last \in {"ok", "refused"}
ShowsIndexValue == val = T[idx]
(* an accepted write of x inside the range selects a closest table value and reaches the hardware *)
ClosestSelected == [][\A x \in Xs : (WriteFloat(x) /\ InRange(x)) =>
                        /\ last' = "ok" /\ hw' = idx'
                        /\ \A j \in Idxs : Abs(val' - x) <= Abs(T[j] - x)]_fvars
(* a refused write changes nothing *)
RefusedChangesNothing == [][last' = "refused" => <<idx, hw, val>>' = <<idx, hw, val>>]_fvars
=============================================================================
