SPECIFICATION GSpec
VIEW GView
CONSTANTS
  Names = {"a", "b", "c"}
  IntVals <- IV_quick
  Specials = {"none", "ref", "mem", "zz"}
  DispNames = {"", "x"}
  MaxPieces = 2
  MaxExt = 1
  MaxDepth = 3
  AsImpl = {}
  Families = {"build"}
CHECK_DEADLOCK FALSE
