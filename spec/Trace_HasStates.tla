--------------------------- MODULE Trace_HasStates ---------------------------
(* code -> spec: event logs of a real Drivable with the HasStates mixin (status updates *)
(* collected by a dispatcher stub, explicit doPoll calls, optionally a second thread's  *)
(* start_machine/stop_machine between two lines of doPoll) must satisfy HasStates.      *)
EXTENDS HasStates, Json, IOUtils, TLCExt, SequencesExt, Sequences
Traces == JsonDeserialize(IOEnv.TRACE_FILE)
NT == Len(Traces)
VARIABLES t, l
ASSUME \A i \in 1 .. NT : TLCSet(i, 1)
Ev == Traces[t][l]
(* the module's own predicates agree with the property's definition of busy *)
Predicates == Ev.isbusy = Busy(Ev.code) /\ Ev.isdriving = Driving(Ev.code)
TInit == HInit /\ t \in 1 .. NT /\ l = 1

TStep == /\ l <= Len(Traces[t])
         /\ l' = l + 1 /\ t' = t
         /\ \/ Ev.ev = "posted" /\ Posted
            \/ Ev.ev = "polled" /\ Polled
            \/ Ev.ev = "started" /\ Started(Ev.fast)
            \/ Ev.ev = "stopreq" /\ StopReq(Ev.active, Ev.st)
            \/ Ev.ev = "final" /\ Final(Ev.st)
            \/ Ev.ev = "oncleanup" /\ OnCleanup(Ev.kind, Ev.reason)
            \/ Ev.ev = "hook" /\ Hook(Ev.to, Ev.task, Ev.reason)
            \/ Ev.ev = "update" /\ Update(Ev.code, Ev.st) /\ Predicates
            \/ Ev.ev = "quiet" /\ Quiet(Ev.active, Ev.pending, Ev.code, Ev.st, Ev.fast) /\ Predicates
TSpec == TInit /\ [][TStep]_<<hvars, t, l>>
Track == TLCSet(t, IF l > TLCGet(t) THEN l ELSE TLCGet(t))
Verdicts == \A i \in 1 .. NT :
   IF TLCGet(i) = Len(Traces[i]) + 1 THEN PrintT(<<"ACCEPT", i>>)
   ELSE PrintT(<<"REJECT", i, TLCGet(i), "event violates BusyWhileRunning">>)
=============================================================================
