------------------------- MODULE Gen_LinkedFloatEnum -------------------------
(* spec -> code: operation sequences of LinkedFloatEnum for every table/shape *)
EXTENDS LinkedFloatEnum, Json, Sequences
CONSTANTS Depth,
          Setups,   \* the (shape, mode) pairs explored, written "rw-echo", "w-clamp", ...
          XW,       \* ticks written to the float parameter
          WPos,     \* positions (0 = smallest index) written to the index parameter
          APos,     \* positions assigned to the index parameter by the driver
          Reads     \* subset of {"ri", "rf"}
VARIABLE hist

Nth(k) == CHOOSE i \in Idxs : Cardinality({j \in Idxs : j < i}) = k
Has(k) == k < Cardinality(Idxs)

Obs == [idx |-> idx', hw |-> hw', req |-> req', val |-> val', last |-> last']
Rec(a) == hist' = Append(hist, a @@ [exp |-> Obs])

GInit == /\ FInit
         /\ (shape \o "-" \o mode) \in Setups
         /\ hist = <<[act |-> "init", tab |-> tab, shape |-> shape, mode |-> mode, cap |-> Cap, table |-> T,
                      exp |-> [idx |-> idx, hw |-> hw, req |-> req, val |-> val, last |-> last]]>>
GNext == \/ \E x \in XW : WriteFloat(x) /\ Rec([act |-> "wf", x |-> x])
         \/ \E k \in WPos : Has(k) /\ WriteIdx(Nth(k)) /\ Rec([act |-> "wi", i |-> Nth(k)])
         \/ \E k \in APos : Has(k) /\ AssignIdx(Nth(k)) /\ Rec([act |-> "ai", i |-> Nth(k)])
         \/ "ri" \in Reads /\ ReadIdx /\ Rec([act |-> "ri"])
         \/ "rf" \in Reads /\ ReadFloat /\ Rec([act |-> "rf"])
GSpec == GInit /\ [][GNext]_<<fvars, hist>>

Bound == TLCGet("level") <= Depth
Emit1 == (TLCGet("level") = Depth + 1) => PrintT(<<"BEH", ToJson(hist)>>)
=============================================================================
