----------------------------- MODULE Gen_Logging -----------------------------
(* behaviour emission for spec -> code replay: every state carries its history *)
EXTENDS Logging, Json
CONSTANT Depth
VARIABLE hist

Obs == [level |-> [m \in Mods |-> [c \in Conns |-> level'[<<m, c>>]]], last |-> last']

GInit == RInit /\ hist = <<>>
GNext ==
  \/ \E c \in Conns, tg \in Targets, lv \in ReqLevels :
        LoggingReq(c, tg, lv) /\ hist' = Append(hist, [act |-> "logging", conn |-> c, target |-> tg, lvl |-> lv, exp |-> Obs])
  \/ \E m \in Mods, lv \in EmitLevels :
        Emit(m, lv) /\ hist' = Append(hist, [act |-> "emit", mod |-> m, lvl |-> lv, exp |-> Obs])
  \/ \E c \in Conns : Ident(c) /\ hist' = Append(hist, [act |-> "ident", conn |-> c, exp |-> Obs])
  \/ \E c \in Conns : Disconnect(c) /\ hist' = Append(hist, [act |-> "disconnect", conn |-> c, exp |-> Obs])
GSpec == GInit /\ [][GNext]_<<rvars, hist>>

Bound == TLCGet("level") <= Depth
Emit1 == (TLCGet("level") = Depth + 1) => PrintT(<<"BEH", ToJson(hist)>>)
=============================================================================
