----------------------------- MODULE Gen_Logging -----------------------------
(* behaviour emission for spec -> code replay: every state carries its history *)
EXTENDS Logging, Json
CONSTANTS Depth,
          Acts,        \* names of the actions explored by this configuration
          InitLevels   \* GSpecBoot: thresholds of the uniform initial subscription tables
VARIABLE hist

Obs == [level |-> [m \in Mods |-> [c \in Conns |-> level'[<<m, c>>]]], last |-> last',
        day |-> day', dated |-> dated']

GInit == RInit /\ hist = <<>>
(* the local sinks depend on the configuration and not on the history: start from any configuration and any  *)
(* uniform subscription table (all reachable), told to the replay by a leading pseudo step "boot"             *)
GInitBoot ==
    /\ cfg \in Configs
    /\ level \in {[mc \in Mods \X Conns |-> v] : v \in InitLevels}
    /\ alive = Conns /\ last = None /\ day = 1 /\ dated = [f \in Files |-> {}] /\ hday = [f \in Files |-> 1]
    /\ hist = <<[act |-> "boot", cfg |-> cfg,
                 exp |-> [level |-> [m \in Mods |-> [c \in Conns |-> level[<<m, c>>]]], last |-> last,
                          day |-> day, dated |-> dated]]>>
GNext ==
  \/ /\ "logging" \in Acts
     /\ \E c \in Conns, tg \in Targets, lv \in ReqLevels :
        LoggingReq(c, tg, lv) /\ hist' = Append(hist, [act |-> "logging", conn |-> c, target |-> tg, lvl |-> lv, exp |-> Obs])
  \/ /\ "emit" \in Acts
     /\ \E m \in Mods, lv \in EmitLevels :
        Emit(m, lv) /\ hist' = Append(hist, [act |-> "emit", mod |-> m, lvl |-> lv, exp |-> Obs])
  \/ /\ "mainemit" \in Acts
     /\ \E lv \in EmitLevels :
        MainEmit(lv) /\ hist' = Append(hist, [act |-> "mainemit", lvl |-> lv, exp |-> Obs])
  \/ /\ "comlog" \in Acts
     /\ \E m \in ComMods :
        ComLog(m) /\ hist' = Append(hist, [act |-> "comlog", mod |-> m, exp |-> Obs])
  \/ "nextday" \in Acts /\ NextDay /\ hist' = Append(hist, [act |-> "nextday", exp |-> Obs])
  \/ "reinit" \in Acts /\ ReInit /\ hist' = Append(hist, [act |-> "reinit", exp |-> Obs])
  \/ /\ "ident" \in Acts
     /\ \E c \in Conns : Ident(c) /\ hist' = Append(hist, [act |-> "ident", conn |-> c, exp |-> Obs])
  \/ /\ "disconnect" \in Acts
     /\ \E c \in Conns : Disconnect(c) /\ hist' = Append(hist, [act |-> "disconnect", conn |-> c, exp |-> Obs])
GSpec == GInit /\ [][GNext]_<<rvars, hist>>
GSpecBoot == GInitBoot /\ [][GNext]_<<rvars, hist>>

Bound == TLCGet("level") <= Depth
Emit1 == (TLCGet("level") = Depth + 1) => PrintT(<<"BEH", ToJson(hist)>>)
=============================================================================
