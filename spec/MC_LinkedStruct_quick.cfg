SPECIFICATION SSpec
CONSTANTS
  Members = {"p", "q"}
  Vals = {1, 2}
  HwMax = 1
  HwModes = {"clip", "refuse"}
INVARIANT TypeOK
INVARIANT Agree
PROPERTY WriteLands
PROPERTY RefusedNotStored
PROPERTY ReadShowsHw
PROPERTY CacheOpsKeepHw
CHECK_DEADLOCK FALSE
