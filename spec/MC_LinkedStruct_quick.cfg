SPECIFICATION SSpec
CONSTANTS
  Members = {"p", "q"}
  Vals = {1, 2}
  HwMax = 1
  HwModes = {"refuse"}
  Excs = {"other"}
CONSTRAINT MCDepth4
INVARIANT TypeOK
INVARIANT AgreeShown
INVARIANT Agree
PROPERTY WriteLands
PROPERTY RefusedNotStored
PROPERTY ReadShowsHw
PROPERTY CacheOpsKeepHw
PROPERTY FailedWriteOnlyAsked
CHECK_DEADLOCK FALSE
