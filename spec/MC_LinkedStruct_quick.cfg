SPECIFICATION SSpec
CONSTANTS
  Members = {"p", "q"}
  Vals = {1, 2}
  HwMax = 1
INVARIANT TypeOK
INVARIANT Agree
PROPERTY WriteLands
PROPERTY ReadShowsHw
PROPERTY CacheOpsKeepHw
CHECK_DEADLOCK FALSE
