SPECIFICATION GSpec
VIEW GView
CONSTANTS
  Names = {"a", "b"}
  IntVals <- IV_small
  Specials = {}
  DispNames = {"x"}
  MaxPieces = 2
  MaxExt = 1
  MaxDepth = 1
  AsImpl = {}
  Families = {"cmp"}
CHECK_DEADLOCK FALSE
