--------------------------- MODULE ParamCacheConc ---------------------------
(* C05, concurrent part: the funnel of ParamCache at code granularity.         *)
(* Threads call read_* / write_* wrappers (accessLock around driver call and    *)
(* announceUpdate), assign attributes or announce errors (announceUpdate only). *)
(* announceUpdate = [acquire updateLock; read clock; compare + store value;     *)
(* suppress?; store stamp + error; build message from the cache; notify each    *)
(* connection; release]   (frappy/modulebase.py:125-141, 175-194, 520-553,      *)
(* dispatcher.py:46-54, 76-96).  With UseLock = FALSE the update lock is left   *)
(* out: the invariants must then fail (they have teeth).                        *)
EXTENDS Naturals, Sequences, FiniteSets, TLC

CONSTANTS Threads, Params, Vals, Errs, Conns, MaxOps, Omit, MaxNow, UseLock,
          OpKinds    \* subset of {"read", "write", "assign", "annerr"} explored

Ok == "ok"
None == "none"
View(e) == IF e.err # Ok THEN <<"e", e.err, e.ts>> ELSE <<"v", e.val, e.ts>>
InitEntry == [val |-> CHOOSE v \in Vals : TRUE, err |-> Ok, ts |-> 0]

(* operations a thread may perform: kind, parameter, value, error *)
AllOpSet == {[k |-> "read", p |-> p, v |-> v, e |-> Ok] : p \in Params, v \in Vals} \cup
         {[k |-> "read", p |-> p, v |-> CHOOSE v \in Vals : TRUE, e |-> e] : p \in Params, e \in Errs} \cup
         {[k |-> "write", p |-> p, v |-> v, e |-> Ok] : p \in Params, v \in Vals} \cup
         {[k |-> "assign", p |-> p, v |-> v, e |-> Ok] : p \in Params, v \in Vals} \cup
         {[k |-> "annerr", p |-> p, v |-> CHOOSE v \in Vals : TRUE, e |-> e] : p \in Params, e \in Errs}
OpSet == {o \in AllOpSet : o.k \in OpKinds}
NoOp == [k |-> "none", p |-> CHOOSE p \in Params : TRUE, v |-> CHOOSE v \in Vals : TRUE, e |-> Ok]

(*--algorithm ParamCacheConc {
  variables
    cache = [p \in Params |-> InitEntry],
    now = 1,
    accessLock = None,
    updateLock = None,
    \* what every (activated) connection received, per parameter, in order: <<view, version>>
    stream = [c \in Conns |-> [p \in Params |-> << <<View(InitEntry), 1>> >>]],
    \* ghost: the states the cache held, per parameter, in order
    held = [p \in Params |-> <<View(InitEntry)>>];

  process (T \in Threads)
    variables ops = 0, op = NoOp, ts = 0, changed = FALSE, msg = <<>>, ver = 0, todo = {};
  {
  loop: while (ops < MaxOps) {
          either { goto Done } or { with (o \in OpSet) { op := o }; ops := ops + 1 };
  access: if (op.k \in {"read", "write"}) {
            await accessLock = None;            \* with self.accessLock:
            accessLock := self;
  driver:   skip;                               \*   value = rfunc(self) / wfunc(self, value)
          };
  ulock:  if (UseLock) {                        \* with self.updateLock:
            await updateLock = None;
            updateLock := self;
          };
  stamp:  ts := now;                            \*   timestamp = timestamp or time.time()
  compare: if (op.e = Ok) {                     \*   changed = pobj.value != value or pobj.readerror
            changed := cache[op.p].val # op.v \/ cache[op.p].err # Ok;
            cache[op.p].val := op.v;            \*   pobj.value = value
          };
  decide: if (op.e # Ok) {
            if (op.e = cache[op.p].err) { goto unlock };                \* repeated error
          } else {
            if (~changed /\ ts < cache[op.p].ts + Omit) { goto unlock };  \* unchanged within window
          };
  store:  cache[op.p].ts := ts || cache[op.p].err := op.e;             \*   pobj.timestamp / pobj.readerror
          held[op.p] := Append(held[op.p], View(cache[op.p]));
  build:  msg := View(cache[op.p]);             \*   make_update(modulename, pobj) reads the cache
          ver := Len(held[op.p]);
          todo := Conns;
  notify: while (todo # {}) {                   \*   for conn in listeners: conn.send_reply(msg)
            with (c = CHOOSE x \in todo : TRUE) {   \* (the order among connections is immaterial)
              stream[c][op.p] := Append(stream[c][op.p], <<msg, ver>>);
              todo := todo \ {c};
            }
          };
  unlock: if (UseLock) { updateLock := None };
  release: if (op.k \in {"read", "write"}) { accessLock := None };
          \* locals die with the call frame (keeps the state space canonical)
          op := NoOp; ts := 0; changed := FALSE; msg := <<>>; ver := 0;
        }
  }

  process (Clock = "clock")
  {
  tick: while (now < MaxNow) { now := now + 1 }
  }
}*)
\* BEGIN TRANSLATION
VARIABLES pc, cache, now, accessLock, updateLock, stream, held, ops, op, ts, 
          changed, msg, ver, todo

vars == << pc, cache, now, accessLock, updateLock, stream, held, ops, op, ts, 
           changed, msg, ver, todo >>

ProcSet == (Threads) \cup {"clock"}

Init == (* Global variables *)
        /\ cache = [p \in Params |-> InitEntry]
        /\ now = 1
        /\ accessLock = None
        /\ updateLock = None
        /\ stream = [c \in Conns |-> [p \in Params |-> << <<View(InitEntry), 1>> >>]]
        /\ held = [p \in Params |-> <<View(InitEntry)>>]
        (* Process T *)
        /\ ops = [self \in Threads |-> 0]
        /\ op = [self \in Threads |-> NoOp]
        /\ ts = [self \in Threads |-> 0]
        /\ changed = [self \in Threads |-> FALSE]
        /\ msg = [self \in Threads |-> <<>>]
        /\ ver = [self \in Threads |-> 0]
        /\ todo = [self \in Threads |-> {}]
        /\ pc = [self \in ProcSet |-> CASE self \in Threads -> "loop"
                                        [] self = "clock" -> "tick"]

loop(self) == /\ pc[self] = "loop"
              /\ IF ops[self] < MaxOps
                    THEN /\ \/ /\ pc' = [pc EXCEPT ![self] = "Done"]
                               /\ UNCHANGED <<ops, op>>
                            \/ /\ \E o \in OpSet:
                                    op' = [op EXCEPT ![self] = o]
                               /\ ops' = [ops EXCEPT ![self] = ops[self] + 1]
                               /\ pc' = [pc EXCEPT ![self] = "access"]
                    ELSE /\ pc' = [pc EXCEPT ![self] = "Done"]
                         /\ UNCHANGED << ops, op >>
              /\ UNCHANGED << cache, now, accessLock, updateLock, stream, held, 
                              ts, changed, msg, ver, todo >>

access(self) == /\ pc[self] = "access"
                /\ IF op[self].k \in {"read", "write"}
                      THEN /\ accessLock = None
                           /\ accessLock' = self
                           /\ pc' = [pc EXCEPT ![self] = "driver"]
                      ELSE /\ pc' = [pc EXCEPT ![self] = "ulock"]
                           /\ UNCHANGED accessLock
                /\ UNCHANGED << cache, now, updateLock, stream, held, ops, op, 
                                ts, changed, msg, ver, todo >>

driver(self) == /\ pc[self] = "driver"
                /\ TRUE
                /\ pc' = [pc EXCEPT ![self] = "ulock"]
                /\ UNCHANGED << cache, now, accessLock, updateLock, stream, 
                                held, ops, op, ts, changed, msg, ver, todo >>

ulock(self) == /\ pc[self] = "ulock"
               /\ IF UseLock
                     THEN /\ updateLock = None
                          /\ updateLock' = self
                     ELSE /\ TRUE
                          /\ UNCHANGED updateLock
               /\ pc' = [pc EXCEPT ![self] = "stamp"]
               /\ UNCHANGED << cache, now, accessLock, stream, held, ops, op, 
                               ts, changed, msg, ver, todo >>

stamp(self) == /\ pc[self] = "stamp"
               /\ ts' = [ts EXCEPT ![self] = now]
               /\ pc' = [pc EXCEPT ![self] = "compare"]
               /\ UNCHANGED << cache, now, accessLock, updateLock, stream, 
                               held, ops, op, changed, msg, ver, todo >>

compare(self) == /\ pc[self] = "compare"
                 /\ IF op[self].e = Ok
                       THEN /\ changed' = [changed EXCEPT ![self] = cache[op[self].p].val # op[self].v \/ cache[op[self].p].err # Ok]
                            /\ cache' = [cache EXCEPT ![op[self].p].val = op[self].v]
                       ELSE /\ TRUE
                            /\ UNCHANGED << cache, changed >>
                 /\ pc' = [pc EXCEPT ![self] = "decide"]
                 /\ UNCHANGED << now, accessLock, updateLock, stream, held, 
                                 ops, op, ts, msg, ver, todo >>

decide(self) == /\ pc[self] = "decide"
                /\ IF op[self].e # Ok
                      THEN /\ IF op[self].e = cache[op[self].p].err
                                 THEN /\ pc' = [pc EXCEPT ![self] = "unlock"]
                                 ELSE /\ pc' = [pc EXCEPT ![self] = "store"]
                      ELSE /\ IF ~changed[self] /\ ts[self] < cache[op[self].p].ts + Omit
                                 THEN /\ pc' = [pc EXCEPT ![self] = "unlock"]
                                 ELSE /\ pc' = [pc EXCEPT ![self] = "store"]
                /\ UNCHANGED << cache, now, accessLock, updateLock, stream, 
                                held, ops, op, ts, changed, msg, ver, todo >>

store(self) == /\ pc[self] = "store"
               /\ cache' = [cache EXCEPT ![op[self].p].ts = ts[self],
                                         ![op[self].p].err = op[self].e]
               /\ held' = [held EXCEPT ![op[self].p] = Append(held[op[self].p], View(cache'[op[self].p]))]
               /\ pc' = [pc EXCEPT ![self] = "build"]
               /\ UNCHANGED << now, accessLock, updateLock, stream, ops, op, 
                               ts, changed, msg, ver, todo >>

build(self) == /\ pc[self] = "build"
               /\ msg' = [msg EXCEPT ![self] = View(cache[op[self].p])]
               /\ ver' = [ver EXCEPT ![self] = Len(held[op[self].p])]
               /\ todo' = [todo EXCEPT ![self] = Conns]
               /\ pc' = [pc EXCEPT ![self] = "notify"]
               /\ UNCHANGED << cache, now, accessLock, updateLock, stream, 
                               held, ops, op, ts, changed >>

notify(self) == /\ pc[self] = "notify"
                /\ IF todo[self] # {}
                      THEN /\ LET c == CHOOSE x \in todo[self] : TRUE IN
                                /\ stream' = [stream EXCEPT ![c][op[self].p] = Append(stream[c][op[self].p], <<msg[self], ver[self]>>)]
                                /\ todo' = [todo EXCEPT ![self] = todo[self] \ {c}]
                           /\ pc' = [pc EXCEPT ![self] = "notify"]
                      ELSE /\ pc' = [pc EXCEPT ![self] = "unlock"]
                           /\ UNCHANGED << stream, todo >>
                /\ UNCHANGED << cache, now, accessLock, updateLock, held, ops, 
                                op, ts, changed, msg, ver >>

unlock(self) == /\ pc[self] = "unlock"
                /\ IF UseLock
                      THEN /\ updateLock' = None
                      ELSE /\ TRUE
                           /\ UNCHANGED updateLock
                /\ pc' = [pc EXCEPT ![self] = "release"]
                /\ UNCHANGED << cache, now, accessLock, stream, held, ops, op, 
                                ts, changed, msg, ver, todo >>

release(self) == /\ pc[self] = "release"
                 /\ IF op[self].k \in {"read", "write"}
                       THEN /\ accessLock' = None
                       ELSE /\ TRUE
                            /\ UNCHANGED accessLock
                 /\ op' = [op EXCEPT ![self] = NoOp]
                 /\ ts' = [ts EXCEPT ![self] = 0]
                 /\ changed' = [changed EXCEPT ![self] = FALSE]
                 /\ msg' = [msg EXCEPT ![self] = <<>>]
                 /\ ver' = [ver EXCEPT ![self] = 0]
                 /\ pc' = [pc EXCEPT ![self] = "loop"]
                 /\ UNCHANGED << cache, now, updateLock, stream, held, ops, 
                                 todo >>

T(self) == loop(self) \/ access(self) \/ driver(self) \/ ulock(self)
              \/ stamp(self) \/ compare(self) \/ decide(self)
              \/ store(self) \/ build(self) \/ notify(self) \/ unlock(self)
              \/ release(self)

tick == /\ pc["clock"] = "tick"
        /\ IF now < MaxNow
              THEN /\ now' = now + 1
                   /\ pc' = [pc EXCEPT !["clock"] = "tick"]
              ELSE /\ pc' = [pc EXCEPT !["clock"] = "Done"]
                   /\ now' = now
        /\ UNCHANGED << cache, accessLock, updateLock, stream, held, ops, op, 
                        ts, changed, msg, ver, todo >>

Clock == tick

(* Allow infinite stuttering to prevent deadlock on termination. *)
Terminating == /\ \A self \in ProcSet: pc[self] = "Done"
               /\ UNCHANGED vars

Next == Clock
           \/ (\E self \in Threads: T(self))
           \/ Terminating

Spec == Init /\ [][Next]_vars

Termination == <>(\A self \in ProcSet: pc[self] = "Done")

\* END TRANSLATION

LastOf(s) == s[Len(s)]
(* t is between taking the clock and the end of its fan-out *)
InCS(t) == pc[t] \in {"stamp", "compare", "decide", "store", "build", "notify", "unlock"}
Quiet == \A t \in Threads : ~InCS(t)

(* replaying what a connection received gives the cache (value-or-error and stamp) *)
StreamReconstructs ==
    Quiet => \A c \in Conns, p \in Params : LastOf(stream[c][p])[1] = View(cache[p])

(* per parameter the stream is a subsequence of the cache history, in order, nothing invented *)
Ordered ==
    \A c \in Conns, p \in Params : \A i \in 1 .. Len(stream[c][p]) :
        /\ stream[c][p][i][2] \in 1 .. Len(held[p])
        /\ stream[c][p][i][1] = held[p][stream[c][p][i][2]]
        /\ i > 1 => stream[c][p][i - 1][2] < stream[c][p][i][2]

(* at quiescence every change has reached every connection *)
Complete ==
    Quiet => \A c \in Conns, p \in Params : Len(stream[c][p]) = Len(held[p])

(* store and fan-out of one change are not interleaved with another change of the module:   *)
(* while a thread notifies, the cache still holds exactly the state it is delivering        *)
NotifyUnderLock ==
    /\ \A t \in Threads : pc[t] = "notify" =>
           msg[t] = View(cache[op[t].p]) /\ ver[t] = Len(held[op[t].p])
    /\ \A t1, t2 \in Threads : (t1 # t2 /\ InCS(t1)) => ~InCS(t2)

(* a recovery is never suppressed *)
RecoveryAnnounced ==
    \A t \in Threads : (pc[t] = "decide" /\ op[t].e = Ok /\ cache[op[t].p].err # Ok) => changed[t]

StampsOrdered ==
    \A c \in Conns, p \in Params : \A i \in 2 .. Len(stream[c][p]) :
        stream[c][p][i - 1][1][3] <= stream[c][p][i][1][3]

TimeBound == now <= MaxNow
=============================================================================
