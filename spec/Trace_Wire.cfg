SPECIFICATION TSpec
CONSTANTS
  MaxLen = 0
  ReadSize = 1
  Classes = {"idn"}
  MaxPend = 1
  Threads = {"req", "upd"}
  UseLock = TRUE
  CheckRunning = TRUE
CONSTRAINT Track
INVARIANT LinesWhole
INVARIANT NoGlue
POSTCONDITION Verdicts
CHECK_DEADLOCK FALSE
