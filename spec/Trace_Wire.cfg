SPECIFICATION TSpec
CONSTANTS
  MaxLen = 0
  Classes = {"idn"}
  MaxPend = 1
  Threads = {"req", "upd"}
  UseLock = TRUE
CONSTRAINT Track
INVARIANT LinesWhole
POSTCONDITION Verdicts
CHECK_DEADLOCK FALSE
