SPECIFICATION TSpec
CONSTANTS
  Ctls = {"c1", "c2", "c3"}
CONSTRAINT Track
POSTCONDITION Verdicts
CHECK_DEADLOCK FALSE
