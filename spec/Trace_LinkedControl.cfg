SPECIFICATION TSpec
CONSTANTS
  Layouts = {10, 20, 30, 11, 21, 22}
  Excs = {"hardware", "other"}
CONSTRAINT Track
POSTCONDITION Verdicts
CHECK_DEADLOCK FALSE
