SPECIFICATION GSpec
VIEW GView
CONSTANTS
  Names = {"a", "b", "c"}
  IntVals <- IV_thorough
  Specials = {"none", "ref", "zz", "numstr", "floatint", "floatfrac", "bool", "list", "mem"}
  DispNames = {"", "x"}
  MaxPieces = 2
  MaxExt = 1
  MaxDepth = 2
  AsImpl = {}
  Families = {"build"}
CHECK_DEADLOCK FALSE
