SPECIFICATION GSpec
CONSTANTS
  Mods = {"m1", "m2"}
  PNames = {"value", "target", "x", "y"}
  ExtraM = {"zz"}
  ExtraP = {"cmd"}
  CmdP = {"cmd"}
  DescCmds = {"cmd", "stop", "_stop"}
  Wires = {"w1", "w2"}
  ValidW = {"w1", "w2"}
  ValidWB = {"w2"}
  Variants = {"a", "b"}
  OtherDescs <- GenInit
  ENames = {"HardwareError"}
  KnownE = {"HardwareError"}
  Texts = {"t1"}
  PrefTexts = {}
  PrefClass = "RangeError"
  PrefRest = "t1"
  Stamps = {999}
  MaxNow = 2
  Shapes = {"ok"}
  LevelKinds = {"node", "module", "param"}
  Kinds = {"updateItem"}
  Behs = {"ok"}
  ErrBehs = {}
  InitDescs <- GenInit
  Descs <- GenInit
  GIdents <- GIdentsI
  GActions = {"update", "changed"}
  GLevels <- GLevelsE
  EmitOneIn = 1
  MaxCbs = 3
  MaxWait = 0
  Depth = 3
CONSTRAINT GBound
INVARIANT Emit1
CHECK_DEADLOCK FALSE
