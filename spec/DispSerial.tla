----------------------------- MODULE DispSerial -----------------------------
(* Requests of several connections at one dispatcher are served one at a time (C04: the driver gets the      *)
(* payload merged into the CURRENT value; C07: no request changes the answer given to another connection).   *)
(* Observable events of concurrent change / read requests on the parameters of one module; every parameter    *)
(* value is a record of members (a scalar parameter has the single member v), a change payload is a partial   *)
(* record.  The driver call is the linearisation point of a change.                                            *)
EXTENDS Naturals, Sequences, FiniteSets, TLC

VARIABLES cur,      \* [parameter -> record] the node's cache
          hist,     \* [parameter -> sequence of records] every value the cache held, oldest first
          open,     \* requests begun, not yet answered: set of [c, n, kind, p, payload, from]
          served    \* [c, n] -> value the driver got for this change (set of records [c, n, v])
svars == <<cur, hist, open, served>>

Merge(old, pl) == [m \in DOMAIN old |-> IF m \in DOMAIN pl THEN pl[m] ELSE old[m]]
OpenOf(c, n) == CHOOSE r \in open : r.c = c /\ r.n = n

SInit(c0) == /\ cur = c0 /\ hist = [p \in DOMAIN c0 |-> <<c0[p]>>] /\ open = {} /\ served = {}

Req(c, n, kind, p, payload) ==
   /\ ~\E r \in open : r.c = c
   /\ open' = open \cup {[c |-> c, n |-> n, kind |-> kind, p |-> p, payload |-> payload, from |-> Len(hist[p])]}
   /\ UNCHANGED <<cur, hist, served>>

(* the driver's write function is called: exactly once per change, with the payload merged into the value *)
(* the cache holds NOW (not the one it held when the request arrived)                                      *)
Drv(c, n, p, v) ==
   /\ \E r \in open : r.c = c /\ r.n = n /\ r.kind = "change" /\ r.p = p
   /\ ~\E x \in served : x.c = c /\ x.n = n
   /\ v = Merge(cur[p], OpenOf(c, n).payload)
   /\ cur' = [cur EXCEPT ![p] = v] /\ hist' = [hist EXCEPT ![p] = Append(@, v)]
   /\ served' = served \cup {[c |-> c, n |-> n, v |-> v]}
   /\ UNCHANGED open

(* the reply to a change reports what this request wrote; the reply to a read reports a value the cache held *)
(* between the arrival of the request and its reply                                                          *)
Rep(c, n, v) ==
   LET r == OpenOf(c, n) IN
   /\ \E x \in open : x.c = c /\ x.n = n
   /\ IF r.kind = "change"
      THEN \E x \in served : x.c = c /\ x.n = n /\ x.v = v
      ELSE \E k \in r.from .. Len(hist[r.p]) : hist[r.p][k] = v
   /\ open' = {x \in open : ~(x.c = c /\ x.n = n)}
   /\ UNCHANGED <<cur, hist, served>>

End(final) == /\ open = {} /\ final = cur /\ UNCHANGED svars
=============================================================================
