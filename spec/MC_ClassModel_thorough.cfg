SPECIFICATION Spec
CONSTANTS
  NClasses = 3
  NInsts = 2
  Bodies = {"b1", "b2"}
  Cfgs = {"f1", "f2"}
  Muts = {"m1"}
  DescIds = {"d1", "d2"}
  MaxBases = 2
  MaxMuts = 2
  MaxLevel = 5
CONSTRAINT Bound
INVARIANT TypeOK
INVARIANT Functional
INVARIANT Lawful
PROPERTY Frame
PROPERTY KeyFrame
PROPERTY OrderIndependent
CHECK_DEADLOCK FALSE
