SPECIFICATION TSpec
CONSTANTS
  Lo = 0
  Hi = 10
CONSTRAINT Track
POSTCONDITION Verdicts
CHECK_DEADLOCK FALSE
