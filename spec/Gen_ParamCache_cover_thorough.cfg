SPECIFICATION GSpec
CONSTANTS
  Params = {"p1", "p2"}
  Mod2 = {}
  Vals = {"a", "b"}
  Errs = {"e1", "e2"}
  Invs = {"i1"}
  Conns = {"c1", "c2"}
  OmitChoices = {0, 999999999}
  InitStamps = {0}
  NoDefault = {"p1"}
  InitScopeSets = {{}, {"all"}}
  HiddenChoices = {{}}
  ActScopes = {"all", "p1"}
  RepKinds = {}
  MaxNow = 4
  Depth = 10
  FullParams = {"p1"}
  LiteParams = {"p2"}
  GenConns = {"c2"}
  GenDefaults = {"a"}
  GenLiteOmit = {0}
  GenFixedSub = {"all"}
  GenExtra = {"At", "Nest", "Deact", "Untouched"}
CONSTRAINT Bound
ACTION_CONSTRAINT EmitStep
VIEW AbstractView
CHECK_DEADLOCK FALSE
