SPECIFICATION MCSpec
CONSTANTS
  Layouts <- CatCommon
  Impl <- BrokenPollAllNoSkip
CONSTRAINT MCBound5
INVARIANT PollOncePerGroup
CHECK_DEADLOCK FALSE
