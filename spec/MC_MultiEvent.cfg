SPECIFICATION MSpec
CONSTANTS
  Ids = {"e1", "e2"}
  Acts = {"a1", "a2"}
  Timeouts = {0, 2}
  MaxTime = 5
INVARIANT ActionsOnce
INVARIANT QueueOnlyWhilePending
INVARIANT WaitBounded
PROPERTY NoActionWhilePending
PROPERTY WaitTruthful
CHECK_DEADLOCK FALSE
