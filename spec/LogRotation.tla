----------------------------- MODULE LogRotation -----------------------------
(* C20, second half: daily rollover of log files with a retention of N days   *)
(* (frappy/logging.py LogfileHandler.doRollover on top of mlzlog).            *)
(* A directory holds dated log files (identified by their day number) and     *)
(* possibly foreign files whose names sort before / after all dated names.    *)
EXTENDS Naturals, FiniteSets, TLC

CONSTANTS MaxDay,        \* last day of the model horizon
          Retentions,    \* set of retention values N to explore (0 = keep all)
          StartDay       \* day on which the handler is created

VARIABLES days,      \* set of day numbers for which a dated file exists
          foreign,   \* subset of ForeignKinds: foreign files present
          today,     \* day of the file being written
          n          \* retention

rotvars == <<days, foreign, today, n>>

(* what the property allows as the set of dated files after a rollover *)
RolloverOK(old, newday, N, new) ==
    LET before == old \ {newday}
        kept == new \ {newday}
        removed == before \ kept
        need == IF Cardinality(before) < N - 1 THEN Cardinality(before) ELSE N - 1
    IN /\ newday \in new                                   \* the file being written exists
       /\ new \subseteq old \cup {newday}                  \* no file invented
       /\ IF N = 0
          THEN removed = {}                                \* no limit: nothing removed
          ELSE /\ \A r \in removed, q \in kept : r < q     \* only older files are removed
               /\ Cardinality(kept) >= need                \* the N-1 newest earlier ones are kept

(* foreign files: names sorting before / after all dated names, a dated name with another extension, *)
(* a dated log file of another root name that starts with this root name                           *)
ForeignKinds == {"before", "after", "ext", "prefix"}
RotInit == /\ n \in Retentions
           /\ today = StartDay
           /\ days \in {S \cup {StartDay} : S \in SUBSET (1 .. StartDay - 1)}
           /\ foreign \in SUBSET ForeignKinds

Rollover(k) ==
    /\ today + k <= MaxDay
    /\ today' = today + k
    /\ days' \in {D \in SUBSET (days \cup {today + k}) : RolloverOK(days, today + k, n, D)}
    /\ foreign' = foreign                   \* only older log files are removed: nothing else disappears
    /\ UNCHANGED n

RotNext == \E k \in 1 .. 2 : Rollover(k)
RotSpec == RotInit /\ [][RotNext]_rotvars

CurrentExists == today \in days
NewestKept == [][\A k \in 1 .. 2 : Rollover(k) =>
                   (n > 0 => \A d \in days : (Cardinality({e \in days : e > d /\ e # today'}) < n - 1) => d \in days')]_rotvars
=============================================================================
