SPECIFICATION Spec
CONSTANTS
  O = 20
  BLow = 2
  BHigh = 10
  MaxLen = 3
  NPorts = {0, 1, 2}
  Classes = {"discover", "object", "number", "string", "list", "null", "bool", "badutf8", "badjson", "empty", "oversized", "deep", "oversized_deep", "discover_extra", "oversized_discover"}
  Loose = {"oversized_discover"}
  Contained = {"discover", "object", "number", "string", "list", "null", "bool", "badutf8", "badjson", "empty", "oversized", "deep", "oversized_deep", "discover_extra", "oversized_discover"}
  DisableRule = "raw"
  AnnounceRule = "enabled"
INVARIANT BuildSound
CHECK_DEADLOCK FALSE
