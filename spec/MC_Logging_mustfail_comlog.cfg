SPECIFICATION RSpec
CONSTANTS
  Conns = {"c1"}
  Mods = {"m1", "m2"}
  Used = {"comlog", "info", "off"}
  ComMods = {"m1"}
  Configs <- CfgSwitchesQuick
  MaxDay = 1
  DropComlog <- Never
INVARIANT ComlogNeverInMainFile
CHECK_DEADLOCK FALSE
