------------------------------- MODULE CommObs -------------------------------
(* C16 on observable events of one communicator: calls and their results, what the  *)
(* device saw and sent (ghost ids), connection attempts, state, reconnect callbacks. *)
(* Times are tenths of a (virtual) second.  Used by Trace_CommObs.                   *)
EXTENDS Naturals, Sequences, FiniteSets, TLC, SequencesExt

CONSTANTS Timeout,      \* reply time-out of the communicator (tenths)
          Period,       \* receive period of the connection (tenths): granularity of the time-out
          PollInt,      \* reconnect interval (tenths)
          Resume        \* after a reconnect every polled module is polled again within this time (tenths)

VARIABLES open,       \* caller -> [kind, gids, delays, t] of the call in progress (set of records with field i)
          seen,       \* sequence of gids in the order the device received them
          rtime,      \* set of [g, t]: when the device received command g
          lastAtt,    \* time of the last connect attempt, -1 = none yet
          connected,  \* last announced state
          closedAt,   \* 0 or time the device closed the connection (not yet reconnected)
          cbs,        \* callbacks seen since the last successful reconnect (sequence of names)
          recon,      \* a reconnect succeeded and its callbacks are being counted
          hadLoss,    \* a connect attempt failed or the connection was lost since the last success
          ncb,        \* number of registered reconnect callbacks (from the cfg event)
          hsent,      \* [g, t]: commands the host has put on the line, and when
          txns,       \* [gids, delays] of every transaction ever started
          nsens,      \* number of modules polled through the communicator by its own poll thread (callers 1 .. nsens)
          resume,     \* sensors that still owe a poll after the last reconnect
          resumeDl,   \* ... and until when
          void,       \* the run left the environment assumption (stale data arrived while a command was in flight)
          devs
cvars == <<open, seen, rtime, lastAtt, connected, closedAt, cbs, recon, hadLoss, ncb, hsent, txns, void, devs, nsens, resume, resumeDl>>

CInit == /\ open = {} /\ seen = <<>> /\ rtime = {} /\ lastAtt = 0 - 1 /\ connected = FALSE /\ closedAt = 0
         /\ cbs = <<>> /\ recon = FALSE /\ devs = {} /\ hadLoss = FALSE /\ ncb = 0 /\ hsent = {} /\ void = FALSE
         /\ txns = {} /\ nsens = 0 /\ resume = {} /\ resumeDl = 0

TimeOf(g) == LET r == {x \in rtime : x.g = g} IN IF r = {} THEN 0 ELSE (CHOOSE x \in r : TRUE).t
Pos(g) == LET r == {n \in 1 .. Len(seen) : seen[n] = g} IN IF r = {} THEN 0 ELSE CHOOSE n \in r : TRUE
OpenOf(i) == CHOOSE x \in open : x.i = i

(* exp[k]: a reply to the k-th command is expected (FALSE for writeline and for multicomm elements without reply) *)
Call(i, kind, gids, delays, t, faulty, exp) ==
   /\ ~\E x \in open : x.i = i
   /\ open' = open \cup {[i |-> i, kind |-> kind, gids |-> gids, delays |-> delays, t |-> t, faulty |-> faulty, exp |-> exp]}
   /\ txns' = txns \cup {[gids |-> gids, delays |-> delays]}
   /\ (resume = {} \/ t <= resumeDl)                             \* PollResumes: nobody is overdue
   /\ resume' = resume \ {i}
   /\ UNCHANGED <<seen, rtime, lastAtt, connected, closedAt, cbs, recon, devs, hadLoss, ncb, hsent, void, nsens, resumeDl>>

(* Atomic: inside a transaction the device receives nothing else between two consecutive commands; *)
(* each delay of a multicomm lies between the two commands around it                                *)
AtomicAt(g) == \A q \in txns : \A k \in 2 .. Len(q.gids) :
                  q.gids[k] = g => (Len(seen) > 0 /\ seen[Len(seen)] = q.gids[k - 1])
DelayedAt(g, t) == \A q \in txns : \A k \in 2 .. Len(q.gids) :
                      q.gids[k] = g => t >= TimeOf(q.gids[k - 1]) + q.delays[k - 1]
DevRecvBase(g, t) == /\ AtomicAt(g)
                     /\ seen' = Append(seen, g) /\ rtime' = rtime \cup {[g |-> g, t |-> t]}
                     /\ UNCHANGED <<open, lastAtt, connected, closedAt, cbs, recon, hadLoss, ncb, hsent, txns, void, nsens, resume, resumeDl>>
DevRecv(g, t) == DevRecvBase(g, t) /\ DelayedAt(g, t) /\ UNCHANGED devs
Dev_DelayNotHonoured(g, t) == DevRecvBase(g, t) /\ ~DelayedAt(g, t) /\ devs' = devs \cup {"DelayNotHonoured"}
DevClose(t) == /\ closedAt' = t /\ hadLoss' = TRUE
               /\ UNCHANGED <<open, seen, rtime, lastAtt, connected, cbs, recon, devs, ncb, hsent, txns, void, nsens, resume, resumeDl>>
Cfg(n, ns) == ncb' = n /\ nsens' = ns /\ UNCHANGED <<open, seen, rtime, lastAtt, connected, closedAt, cbs, recon, devs, hadLoss, hsent, txns, void, resume, resumeDl>>
HostSend(g, t) == hsent' = hsent \cup {[g |-> g, t |-> t]} /\ UNCHANGED <<open, seen, rtime, lastAtt, connected, closedAt, cbs, recon, devs, hadLoss, ncb, txns, void, nsens, resume, resumeDl>>
(* late or unsolicited bytes: the property speaks about data that arrived before a command was sent *)
InFlight == \E c \in open : \E k \in 1 .. Len(c.gids) : \E h \in hsent : h.g = c.gids[k]
Unsolicited == void' = (void \/ InFlight)
               /\ UNCHANGED <<open, seen, rtime, lastAtt, connected, closedAt, cbs, recon, devs, hadLoss, ncb, hsent, txns, nsens, resume, resumeDl>>
State(b) == /\ connected' = b
            /\ UNCHANGED <<open, seen, rtime, lastAtt, closedAt, cbs, recon, devs, hadLoss, ncb, hsent, txns, void, nsens, resume, resumeDl>>

Sel(g, e) == LET F[n \in 0 .. Len(g)] == IF n = 0 THEN <<>> ELSE IF e[n] THEN Append(F[n - 1], g[n]) ELSE F[n - 1]
             IN F[Len(g)]
SentAt(g) == LET r == {x \in hsent : x.g = g} IN IF r = {} THEN 0 ELSE (CHOOSE x \in r : TRUE).t
RetOkBase(i, got) ==
   LET c == OpenOf(i) IN
   /\ \E x \in open : x.i = i
   /\ got = Sel(c.gids, c.exp)                                   \* Paired / NoStale: exactly the own expected replies, in order
   /\ closedAt >= 0                                              \* not through a connection whose identification failed
   /\ \A k \in 1 .. Len(c.gids) : c.exp[k] => Pos(c.gids[k]) > 0 \* every answered command reached the device
   /\ \A k \in 1 .. Len(c.gids) : \E h \in hsent : h.g = c.gids[k]   \* every command was put on the line
   /\ open' = {x \in open : x.i # i}
   /\ UNCHANGED <<seen, rtime, lastAtt, connected, closedAt, cbs, recon, hadLoss, ncb, hsent, txns, void, nsens, resume, resumeDl>>
(* the delay after the last command of a transaction has passed when the call returns *)
LastDelayOK(i, t) == LET c == OpenOf(i) IN t >= SentAt(c.gids[Len(c.gids)]) + c.delays[Len(c.gids)]
RetOk(i, got, t) == RetOkBase(i, got) /\ LastDelayOK(i, t) /\ UNCHANGED devs
Dev_LastDelayNotHonoured(i, got, t) == RetOkBase(i, got) /\ ~LastDelayOK(i, t) /\ devs' = devs \cup {"DelayNotHonoured"}

(* a failing call: communication error, in time, and the state is visible *)
SentTimes(c) == {h.t : h \in {x \in hsent : \E k \in 1 .. Len(c.gids) : x.g = c.gids[k]}}
LastSent(c) == CHOOSE m \in SentTimes(c) : \A n \in SentTimes(c) : n <= m
RetFail(i, exc, t) ==
   LET c == OpenOf(i) IN
   /\ \E x \in open : x.i = i
   /\ exc = "comm"                                               \* a communication error, nothing else
   /\ (c.faulty \/ closedAt > 0 \/ ~connected)                  \* a healthy, connected device is never reported as failing
   /\ IF SentTimes(c) = {} THEN (~connected \/ t <= c.t + Timeout + Period)   \* refused before anything was sent
      ELSE t <= LastSent(c) + Timeout + Period                          \* FailsInTime, counted from the last send
   /\ (closedAt > 0 /\ t >= closedAt) => ~connected              \* StateVisible once the loss was hit
   /\ open' = {x \in open : x.i # i}
   /\ UNCHANGED <<seen, rtime, lastAtt, connected, closedAt, cbs, recon, devs, hadLoss, ncb, hsent, txns, void, nsens, resume, resumeDl>>

(* connection attempts *)
OnceNames == {"once0", "once1", "once2"}
AttemptBase(ok, t) ==
   /\ lastAtt' = t                            \* every attempt counts, successful or not
   /\ closedAt' = (IF ok THEN 0 ELSE closedAt)
   /\ recon' = (ok /\ hadLoss)                                    \* a success after a failure or loss is a reconnect
   /\ hadLoss' = (IF ok THEN FALSE ELSE TRUE)
   /\ cbs' = (IF ok THEN <<>> ELSE cbs)
   /\ (recon => Len(cbs) = ncb)                                  \* previous reconnect ran all its callbacks
   \* a callback that returned False (a one-shot, names "once<k>") is cleared: it is not owed at later reconnects
   /\ ncb' = (IF recon THEN ncb - Cardinality({n \in 1 .. Len(cbs) : cbs[n] \in OnceNames}) ELSE ncb)
   /\ resume' = (IF ok /\ hadLoss THEN 1 .. nsens ELSE IF ok THEN resume ELSE {})   \* polling resumes right after a reconnect
   /\ resumeDl' = (IF ok /\ hadLoss THEN t + Resume ELSE resumeDl)
   /\ UNCHANGED <<open, seen, rtime, connected, hsent, txns, void, nsens>>
Attempt(ok, t) == (lastAtt < 0 \/ t >= lastAtt + PollInt) /\ AttemptBase(ok, t) /\ UNCHANGED devs
Dev_NoRateLimit(ok, t) == lastAtt >= 0 /\ t < lastAtt + PollInt /\ AttemptBase(ok, t)
                          /\ devs' = devs \cup {"NoRateLimit"}
(* the identification exchange after a successful transport connect failed: the attempt counts as failed *)
IdentFail == /\ recon' = FALSE /\ hadLoss' = TRUE /\ cbs' = <<>>
             /\ closedAt' = 0 - 1                                 \* a device that is not the expected one counts as not connected
             /\ resume' = {}
             /\ UNCHANGED <<open, seen, rtime, lastAtt, connected, devs, ncb, hsent, txns, void, nsens, resumeDl>>
(* the user switched the connection off (is_connected := FALSE): the next successful attempt is a reconnect *)
UserDisc == /\ hadLoss' = TRUE
            /\ UNCHANGED <<open, seen, rtime, lastAtt, connected, closedAt, cbs, recon, devs, ncb, hsent, txns, void, nsens, resume, resumeDl>>
Callback(name) == /\ recon /\ ~\E n \in 1 .. Len(cbs) : cbs[n] = name     \* at most once per reconnect
                  /\ cbs' = Append(cbs, name)
                  /\ UNCHANGED <<open, seen, rtime, lastAtt, connected, closedAt, recon, devs, hadLoss, ncb, hsent, txns, void, nsens, resume, resumeDl>>

EndOK(conn, unfinished, mustheal) ==
                           /\ unfinished = <<>>
                           /\ (mustheal => conn)                 \* self-healing: the device has been reachable again for long enough
                           /\ resume = {}                        \* (the observation ends well after the last reconnect)
                           /\ (recon => Len(cbs) = ncb)
                           /\ UNCHANGED cvars
Dev_NeverReturns(unfinished) == /\ unfinished # <<>> /\ devs' = devs \cup {"NoTimeoutOnTrickle"}
                                /\ UNCHANGED <<open, seen, rtime, lastAtt, connected, closedAt, cbs, recon, hadLoss, ncb, hsent, txns, void, nsens, resume, resumeDl>>
=============================================================================
