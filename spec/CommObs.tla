------------------------------- MODULE CommObs -------------------------------
(* C16 on observable events of one communicator: calls and their results, what the  *)
(* device saw and sent (ghost ids), connection attempts, state, reconnect callbacks. *)
(* Times are tenths of a (virtual) second.  Used by Trace_CommObs.                   *)
EXTENDS Naturals, Sequences, FiniteSets, TLC, SequencesExt

CONSTANTS Timeout,      \* reply time-out of the communicator (tenths)
          Period,       \* receive period of the connection (tenths): granularity of the time-out
          PollInt       \* reconnect interval (tenths)

VARIABLES open,       \* caller -> [kind, gids, delays, t] of the call in progress (set of records with field i)
          seen,       \* sequence of gids in the order the device received them
          rtime,      \* set of [g, t]: when the device received command g
          lastAtt,    \* time of the last connect attempt, -1 = none yet
          connected,  \* last announced state
          closedAt,   \* 0 or time the device closed the connection (not yet reconnected)
          cbs,        \* callbacks seen since the last successful reconnect (sequence of names)
          recon,      \* a reconnect succeeded and its callbacks are being counted
          hadLoss,    \* a connect attempt failed or the connection was lost since the last success
          ncb,        \* number of registered reconnect callbacks (from the cfg event)
          hsent,      \* [g, t]: commands the host has put on the line, and when
          void,       \* the run left the environment assumption (stale data arrived while a command was in flight)
          devs
cvars == <<open, seen, rtime, lastAtt, connected, closedAt, cbs, recon, hadLoss, ncb, hsent, void, devs>>

CInit == /\ open = {} /\ seen = <<>> /\ rtime = {} /\ lastAtt = 0 - 1 /\ connected = FALSE /\ closedAt = 0
         /\ cbs = <<>> /\ recon = FALSE /\ devs = {} /\ hadLoss = FALSE /\ ncb = 0 /\ hsent = {} /\ void = FALSE

TimeOf(g) == LET r == {x \in rtime : x.g = g} IN IF r = {} THEN 0 ELSE (CHOOSE x \in r : TRUE).t
Pos(g) == LET r == {n \in 1 .. Len(seen) : seen[n] = g} IN IF r = {} THEN 0 ELSE CHOOSE n \in r : TRUE
OpenOf(i) == CHOOSE x \in open : x.i = i

Call(i, kind, gids, delays, t, faulty) ==
   /\ ~\E x \in open : x.i = i
   /\ open' = open \cup {[i |-> i, kind |-> kind, gids |-> gids, delays |-> delays, t |-> t, faulty |-> faulty]}
   /\ UNCHANGED <<seen, rtime, lastAtt, connected, closedAt, cbs, recon, devs, hadLoss, ncb, hsent, void>>

DevRecv(g, t) == /\ seen' = Append(seen, g) /\ rtime' = rtime \cup {[g |-> g, t |-> t]}
                 /\ UNCHANGED <<open, lastAtt, connected, closedAt, cbs, recon, devs, hadLoss, ncb, hsent, void>>
DevClose(t) == /\ closedAt' = t /\ hadLoss' = TRUE
               /\ UNCHANGED <<open, seen, rtime, lastAtt, connected, cbs, recon, devs, ncb, hsent, void>>
Cfg(n) == ncb' = n /\ UNCHANGED <<open, seen, rtime, lastAtt, connected, closedAt, cbs, recon, devs, hadLoss, hsent, void>>
HostSend(g, t) == hsent' = hsent \cup {[g |-> g, t |-> t]} /\ UNCHANGED <<open, seen, rtime, lastAtt, connected, closedAt, cbs, recon, devs, hadLoss, ncb, void>>
(* late or unsolicited bytes: the property speaks about data that arrived before a command was sent *)
InFlight == \E c \in open : \E k \in 1 .. Len(c.gids) : \E h \in hsent : h.g = c.gids[k]
Unsolicited == void' = (void \/ InFlight)
               /\ UNCHANGED <<open, seen, rtime, lastAtt, connected, closedAt, cbs, recon, devs, hadLoss, ncb, hsent>>
State(b) == /\ connected' = b
            /\ UNCHANGED <<open, seen, rtime, lastAtt, closedAt, cbs, recon, devs, hadLoss, ncb, hsent, void>>

(* a transaction is contiguous and in order on the wire *)
Contiguous(gids) == \A k \in 1 .. Len(gids) - 1 : Pos(gids[k]) > 0 /\ Pos(gids[k + 1]) = Pos(gids[k]) + 1
Delayed(gids, delays) == \A k \in 1 .. Len(gids) - 1 : TimeOf(gids[k + 1]) >= TimeOf(gids[k]) + delays[k]

RetOkBase(i, got) ==
   LET c == OpenOf(i) IN
   /\ \E x \in open : x.i = i
   /\ got = (IF c.kind = "write" THEN <<>> ELSE c.gids)          \* Paired / NoStale: exactly the own replies, in order
   /\ \A k \in 1 .. Len(c.gids) : Pos(c.gids[k]) > 0             \* every command reached the device
   /\ Contiguous(c.gids)                                         \* Atomic
   /\ open' = {x \in open : x.i # i}
   /\ UNCHANGED <<seen, rtime, lastAtt, connected, closedAt, cbs, recon, hadLoss, ncb, hsent, void>>
RetOk(i, got) == RetOkBase(i, got) /\ Delayed(OpenOf(i).gids, OpenOf(i).delays) /\ UNCHANGED <<devs, hadLoss, ncb, hsent, void>>
Dev_DelayNotHonoured(i, got) == RetOkBase(i, got) /\ ~Delayed(OpenOf(i).gids, OpenOf(i).delays)
                                /\ devs' = devs \cup {"DelayNotHonoured"}

(* a failing call: communication error, in time, and the state is visible *)
SentTimes(c) == {h.t : h \in {x \in hsent : \E k \in 1 .. Len(c.gids) : x.g = c.gids[k]}}
LastSent(c) == CHOOSE m \in SentTimes(c) : \A n \in SentTimes(c) : n <= m
RetFail(i, exc, t) ==
   LET c == OpenOf(i) IN
   /\ \E x \in open : x.i = i
   /\ exc = "comm"                                               \* a communication error, nothing else
   /\ (c.faulty \/ closedAt > 0 \/ ~connected)                  \* a healthy, connected device is never reported as failing
   /\ IF SentTimes(c) = {} THEN (~connected \/ t <= c.t + Timeout + Period)   \* refused before anything was sent
      ELSE t <= LastSent(c) + Timeout + Period                          \* FailsInTime, counted from the last send
   /\ (closedAt > 0 /\ t >= closedAt) => ~connected              \* StateVisible once the loss was hit
   /\ open' = {x \in open : x.i # i}
   /\ UNCHANGED <<seen, rtime, lastAtt, connected, closedAt, cbs, recon, devs, hadLoss, ncb, hsent, void>>

(* connection attempts *)
AttemptBase(ok, t) ==
   /\ lastAtt' = t                            \* every attempt counts, successful or not
   /\ closedAt' = (IF ok THEN 0 ELSE closedAt)
   /\ recon' = (ok /\ hadLoss)                                    \* a success after a failure or loss is a reconnect
   /\ hadLoss' = (IF ok THEN FALSE ELSE TRUE)
   /\ cbs' = (IF ok THEN <<>> ELSE cbs)
   /\ (recon => Len(cbs) = ncb)                                  \* previous reconnect ran all its callbacks
   /\ UNCHANGED <<open, seen, rtime, connected, ncb, hsent, void>>
Attempt(ok, t) == (lastAtt < 0 \/ t >= lastAtt + PollInt) /\ AttemptBase(ok, t) /\ UNCHANGED devs
Dev_NoRateLimit(ok, t) == lastAtt >= 0 /\ t < lastAtt + PollInt /\ AttemptBase(ok, t)
                          /\ devs' = devs \cup {"NoRateLimit"}
Callback(name) == /\ recon /\ ~\E n \in 1 .. Len(cbs) : cbs[n] = name     \* at most once per reconnect
                  /\ cbs' = Append(cbs, name)
                  /\ UNCHANGED <<open, seen, rtime, lastAtt, connected, closedAt, recon, devs, hadLoss, ncb, hsent, void>>

EndOK(conn, unfinished) == /\ unfinished = <<>>
                           /\ (recon => Len(cbs) = ncb)
                           /\ UNCHANGED cvars
Dev_NeverReturns(unfinished) == /\ unfinished # <<>> /\ devs' = devs \cup {"NoTimeoutOnTrickle"}
                                /\ UNCHANGED <<open, seen, rtime, lastAtt, connected, closedAt, cbs, recon, hadLoss, ncb, hsent, void>>
=============================================================================
