SPECIFICATION GSpec
CONSTANTS
  MaxExtra = 2
  MaxExtraWhenMissing = 1
INVARIANT Emit1
CHECK_DEADLOCK FALSE
