\* documents X06-shutdown-lost at design level: EXPECTED TO FAIL ShutdownHonoured
SPECIFICATION Spec
CONSTANTS
  NIf = 1
  Kinds = {"ok"}
  Req = {"shut1"}
  Repaired = FALSE
  FixNoIf = FALSE
  Crashes = FALSE
PROPERTY ShutdownHonoured
CHECK_DEADLOCK FALSE
