SPECIFICATION TSpec
CONSTANTS
  DevBelieveEarly = FALSE
CONSTRAINT Track
POSTCONDITION Verdicts
CHECK_DEADLOCK FALSE
