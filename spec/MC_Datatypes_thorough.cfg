SPECIFICATION Spec
CONSTANTS
  Tier = "quick"
  Shard = 0
  NShards = 4
INVARIANT Total
INVARIANT Sound
INVARIANT Idempotent
INVARIANT PrevFree
CHECK_DEADLOCK FALSE
