SPECIFICATION GSpec
CONSTANTS
  Members = {"p", "q"}
  Vals = {1, 2, 3, 4}
  Depth = 5
  Layouts = {"combined", "separate"}
  WM = {"q"}
  WV = {3}
  AM = {"p"}
  AV = {4}
  RM = {"q"}
  SWV = {0}
  SAV = {1}
CONSTRAINT Bound
INVARIANT Emit1
CHECK_DEADLOCK FALSE
