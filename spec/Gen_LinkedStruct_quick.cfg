SPECIFICATION GSpec
CONSTANTS
  Members = {"p", "q"}
  Vals = {1, 2, 3, 4}
  HwMax = 3
  Depth = 5
  Layouts = {"combined", "separate"}
  WM = {"q"}
  WV = {4}
  AM = {"p"}
  AV = {3}
  RM = {}
  SWV = {0}
  SAV = {1}
  RS = TRUE
CONSTRAINT Bound
INVARIANT Emit1
CHECK_DEADLOCK FALSE
