SPECIFICATION SSpec
CONSTANTS
  Members = {"p", "q"}
  Vals = {1, 2}
  HwMax = 1
  HwModes = {"clip", "refuse"}
  Excs = {"other"}
INVARIANT TypeOK
INVARIANT AgreeShown
INVARIANT Agree
PROPERTY WriteLands
PROPERTY RefusedNotStored
PROPERTY ReadShowsHw
PROPERTY CacheOpsKeepHw
PROPERTY FailedWriteOnlyAsked
CHECK_DEADLOCK FALSE
