SPECIFICATION SSpec
CONSTANTS
  Members = {"p", "q", "r"}
  Vals = {1, 2, 3}
  HwMax = 2
  HwModes = {"clip", "refuse"}
INVARIANT TypeOK
INVARIANT Agree
PROPERTY WriteLands
PROPERTY RefusedNotStored
PROPERTY ReadShowsHw
PROPERTY CacheOpsKeepHw
CHECK_DEADLOCK FALSE
