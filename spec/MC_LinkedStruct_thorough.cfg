SPECIFICATION SSpec
CONSTANTS
  Members = {"p", "q", "r"}
  Vals = {1, 2, 3}
  HwMax = 2
INVARIANT TypeOK
INVARIANT Agree
PROPERTY WriteLands
PROPERTY ReadShowsHw
PROPERTY CacheOpsKeepHw
CHECK_DEADLOCK FALSE
