SPECIFICATION GSpec
CONSTANTS
  NIf = 2
  Kinds = {"ok"}
  Req = {"res1", "shut1"}
  Repaired = FALSE
  FixNoIf = FALSE
  Crashes = FALSE
  MaxSteps = 120
CONSTRAINT Bound
INVARIANT Emit
CHECK_DEADLOCK FALSE
