SPECIFICATION Spec
CONSTANTS
  Callers = {"a", "b"}
  Script <- ScriptA
  Mode <- ModeNormal
  Chunks = 2
  MaxGarbage = 1
  HoldLock = FALSE
  FlushFirst = TRUE
INVARIANT Paired
INVARIANT FramingIndependent
INVARIANT FailsWhenSilent
INVARIANT Atomic
CHECK_DEADLOCK FALSE
