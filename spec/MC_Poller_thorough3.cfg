SPECIFICATION Spec
CONSTANTS
  NMods = 3
  Params = {"a", "b"}
  Intervals = {0, 1, 4}
  Slows = {4, 8}
  Durs = {0, 1}
  Horizon = 36
INVARIANT MainBound
INVARIANT SlowBoundOK
INVARIANT TurnBounded
CHECK_DEADLOCK FALSE
