SPECIFICATION GSpec
CONSTANTS
  Mods = {"m1", "m2"}
  PNames = {"value", "target", "_target", "_value"}
  ExtraM = {"zz"}
  ExtraP = {"cmd"}
  CmdP = {"cmd"}
  DescCmds = {"cmd", "stop", "_stop"}
  Wires = {"w1"}
  ValidW = {"w1"}
  ValidWB = {}
  Variants = {"a"}
  OtherDescs = {}
  ENames = {"HardwareError"}
  KnownE = {"HardwareError"}
  Texts = {"t1"}
  PrefTexts = {}
  PrefClass = "RangeError"
  PrefRest = "t1"
  Stamps = {999}
  MaxNow = 2
  Shapes = {"ok"}
  LevelKinds = {"node", "module", "param"}
  Kinds = {"updateItem"}
  Behs = {"ok"}
  ErrBehs = {}
  InitDescs <- GenInitN
  Descs <- GenDescsN
  GIdents <- GIdentsN
  GActions = {"update", "changed"}
  GLevels <- GLevelsN
  EmitOneIn = 1
  MaxCbs = 3
  MaxWait = 0
  Depth = 3
CONSTRAINT GBound
INVARIANT Emit1
CHECK_DEADLOCK FALSE
