SPECIFICATION Spec
CONSTANTS
  Tier = "mc"
  Shard = 0
  NShards = 1
INVARIANT Total
INVARIANT Sound
INVARIANT Idempotent
INVARIANT PrevFree
INVARIANT NonVacuous
CHECK_DEADLOCK FALSE
