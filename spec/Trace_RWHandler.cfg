SPECIFICATION TSpec
CONSTANTS
  Layouts <- NoLayouts
  Impl <- NoImpl
CONSTRAINT Track
INVARIANT Done
POSTCONDITION Verdicts
CHECK_DEADLOCK FALSE
