----------------------------- MODULE ClassModel -----------------------------
(* C09.  Module classes, instances and configurations are isolated from each    *)
(* other (frappy/modulebase.py HasAccessibles.__init_subclass__, Module.__init__,*)
(* frappy/params.py clone/copy/merge, frappy/properties.py, frappy/mixins.py).  *)
(*                                                                              *)
(* A program is a sequence of operations DefClass / Instantiate / Mutate (and   *)
(* Reset = start over in a fresh world).  A class body overrides accessibles AND  *)
(* module-level properties (group, visibility, slowinterval, custom Property) by *)
(* a bare value or a new Property(...) at any level of the chain; both belong to  *)
(* the description.  After every operation every live      *)
(* class and instance has an observable description, an OPAQUE value.  The      *)
(* specification does not say what the description of a class is (it does not   *)
(* prescribe the inheritance merge); it says                                    *)
(*   Frame      : an operation changes only the entry it creates or addresses,  *)
(*   Functional : the description is a function of the Key = (class chain,      *)
(*                configuration, own mutations) - the function itself ("law")   *)
(*                is arbitrary and revealed lazily,                             *)
(*   OrderIndependent : the law never changes, also not across runs (Reset), so *)
(*                programs that create the same keys in another order end in    *)
(*                the same descriptions.                                        *)
(* Whether a definition / instantiation is legal at all is also left open, but  *)
(* it must be lawful too (the law maps a key to <<description, ok>>).           *)
EXTENDS Naturals, Sequences, FiniteSets, TLC

VARIABLES defs,    \* class id -> [bases : Seq(class id), body : opaque]
          insts,   \* instance id -> [cls : class id, cfg : opaque, muts : Seq(opaque)]
          desc,    \* live id -> description id (opaque)
          bad,     \* ids whose creation was refused (they stay in desc with their error id)
          law      \* Key -> <<description id, ok>> : the part of the law revealed so far

vars == <<defs, insts, desc, bad, law>>

Empty == <<>>                       \* the function with empty domain
Classes == DOMAIN defs
Insts == DOMAIN insts
Live == DOMAIN desc

(* the Key: textual definition chain, configuration, own mutations.  Ids do not occur, but *)
(* the SHAPE of the base graph does (a base shared by two paths is not the same as two     *)
(* textually equal classes - python's MRO tells them apart): the chain is written as the   *)
(* list of its distinct classes in depth-first order, bases referred to by position.       *)
RECURSIVE Visit(_, _, _), VisitSeq(_, _, _, _)
Visit(d, c, seen) == IF \E j \in 1 .. Len(seen) : seen[j] = c THEN seen
                     ELSE VisitSeq(d, d[c].bases, 1, Append(seen, c))
VisitSeq(d, bs, k, seen) == IF k > Len(bs) THEN seen ELSE VisitSeq(d, bs, k + 1, Visit(d, bs[k], seen))
Lin(d, c) == Visit(d, c, <<>>)
Pos(L, c) == CHOOSE j \in 1 .. Len(L) : L[j] = c
CKey(d, c) == LET L == Lin(d, c) IN
              [j \in 1 .. Len(L) |-> <<d[L[j]].body, [b \in 1 .. Len(d[L[j]].bases) |-> Pos(L, d[L[j]].bases[b])]>>]
Key(d, n, x) == IF x \in DOMAIN d THEN <<"C", CKey(d, x)>>
                ELSE <<"I", <<CKey(d, n[x].cls), n[x].cfg, n[x].muts>>>>

RECURSIVE Anc(_, _)     \* strict ancestors of a class
Anc(d, c) == UNION {{d[c].bases[j]} \cup Anc(d, d[c].bases[j]) : j \in 1 .. Len(d[c].bases)}

Init == defs = Empty /\ insts = Empty /\ desc = Empty /\ bad = {} /\ law = Empty

(* the lawful way to give the object with key k the description d *)
Obey(k, d, ok) == /\ (k \in DOMAIN law => law[k] = <<d, ok>>)
                  /\ law' = IF k \in DOMAIN law THEN law ELSE law @@ (k :> <<d, ok>>)

DefClass(c, bases, body, d, ok) ==
    /\ c \notin Live
    /\ \A j \in 1 .. Len(bases) : bases[j] \in Classes \ bad
    /\ defs' = defs @@ (c :> [bases |-> bases, body |-> body])
    /\ Obey(Key(defs', insts, c), d, ok)
    /\ desc' = desc @@ (c :> d)                    \* frame: every other entry keeps its value
    /\ bad' = IF ok THEN bad ELSE bad \cup {c}
    /\ UNCHANGED insts

Instantiate(i, c, cfg, d, ok) ==
    /\ i \notin Live
    /\ c \in Classes \ bad
    /\ insts' = insts @@ (i :> [cls |-> c, cfg |-> cfg, muts |-> <<>>])
    /\ Obey(Key(defs, insts', i), d, ok)
    /\ desc' = desc @@ (i :> d)
    /\ bad' = IF ok THEN bad ELSE bad \cup {i}
    /\ UNCHANGED defs

Mutate(i, m, d) ==
    /\ i \in Insts \ bad
    /\ insts' = [insts EXCEPT ![i].muts = Append(@, m)]
    /\ Obey(Key(defs, insts', i), d, TRUE)
    /\ desc' = [desc EXCEPT ![i] = d]
    /\ UNCHANGED <<defs, bad>>

(* a new run in a fresh world: every object is gone, the law stays *)
Reset == /\ defs' = Empty /\ insts' = Empty /\ desc' = Empty /\ bad' = {}
         /\ UNCHANGED law

(* ---------------------------------------------------------------- design check *)
CONSTANTS NClasses, NInsts, Bodies, Cfgs, Muts, DescIds, MaxBases, MaxMuts, MaxLevel

BaseSeqs == {s \in UNION {[1 .. n -> Classes \ bad] : n \in 0 .. MaxBases} :
               \A a, b \in DOMAIN s : a # b => s[a] # s[b]}

\* ids are taken in a fixed order k1, k2, .. / i1, i2, .. : no symmetric duplicates
CId(n) == "k" \o ToString(n)
IId(n) == "i" \o ToString(n)
Next == \/ /\ Cardinality(Classes) < NClasses
           /\ \E bs \in BaseSeqs, b \in Bodies, d \in DescIds, ok \in BOOLEAN :
                 DefClass(CId(Cardinality(Classes) + 1), bs, b, d, ok)
        \/ /\ Cardinality(Insts) < NInsts
           /\ \E c \in Classes, f \in Cfgs, d \in DescIds, ok \in BOOLEAN :
                 Instantiate(IId(Cardinality(Insts) + 1), c, f, d, ok)
        \/ \E i \in Insts, m \in Muts, d \in DescIds :
              Len(insts[i].muts) < MaxMuts /\ Mutate(i, m, d)
        \/ (Live # {} /\ Reset)

Spec == Init /\ [][Next]_vars

TypeOK == /\ Classes \cup Insts = Live /\ Classes \cap Insts = {}
          /\ bad \subseteq Live
          /\ \A c \in Classes : \A j \in 1 .. Len(defs[c].bases) : defs[c].bases[j] \in Classes \ bad
          /\ \A i \in Insts : insts[i].cls \in Classes \ bad

(* equal definition chains / equal class + configuration + mutations => equal description *)
Functional == \A x, y \in Live :
    Key(defs, insts, x) = Key(defs, insts, y) => desc[x] = desc[y] /\ ((x \in bad) <=> (y \in bad))

Lawful == \A x \in Live : /\ Key(defs, insts, x) \in DOMAIN law
                          /\ law[Key(defs, insts, x)] = <<desc[x], x \notin bad>>

(* an operation changes only the entry it creates or addresses *)
Frame == [][\A x \in Live \cap DOMAIN desc' :
               desc'[x] # desc[x] => x \in Insts /\ x \in DOMAIN insts' /\ insts'[x] # insts[x]]_vars

(* ... and only that entry's key: the key is a function of the object's own definition *)
KeyFrame == [][\A x \in Live \cap DOMAIN desc' :
               Key(defs', insts', x) # Key(defs, insts, x) => x \in Insts /\ insts'[x] # insts[x]]_vars

(* the law only grows, also across runs: order independence *)
OrderIndependent == [][\A k \in DOMAIN law : k \in DOMAIN law' /\ law'[k] = law[k]]_vars

Bound == TLCGet("level") <= MaxLevel
=============================================================================
