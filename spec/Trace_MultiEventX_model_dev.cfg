SPECIFICATION TSpec
CONSTANTS
  Threads = {"main", "a", "b", "w"}
  Inf = 99
  Slack = 0
  AllowDev = TRUE
CONSTRAINT Track
INVARIANT Finished
INVARIANT ActionsOnce
INVARIANT QueuedOnlyWhilePending
INVARIANT FlusherHasWork
INVARIANT PendingCreated
POSTCONDITION Verdicts
CHECK_DEADLOCK FALSE
