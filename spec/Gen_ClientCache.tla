--------------------------- MODULE Gen_ClientCache ---------------------------
(* behaviour emission for spec -> code replay: every state carries its history. *)
(* Only deterministic steps are generated (the replay compares for equality):   *)
(* no "Class: text" error texts, no one-shot registration with several cached   *)
(* entries, no malformed reply while a request waits for exactly that reply.    *)
EXTENDS ClientCache, Json
CONSTANTS GIdents,   \* identifiers offered in generated messages
          GActions,  \* message classes offered in generated messages
          GLevels,   \* callback levels offered in generated registrations
          EmitOneIn  \* 1: print every behaviour of full length; k: one in k (simulation mode)
VARIABLE hist

(* compact observation: c cache (defined entries), b registered callbacks, w waiting, n clock, l last *)
Ent(e) == <<e.val, e.ts, e.err.cls, e.err.text>>
Cb(c) == <<c.level, c.kind, c.beh>>
LastObs == IF last'.kind = "recv"
           THEN [kind |-> "recv", key |-> last'.key, handled |-> last'.handled, released |-> last'.released,
                 calls |-> {Cb(c) : c \in last'.calls}, view |-> Ent(last'.view)]
           ELSE IF last'.kind = "register" THEN [kind |-> "register", cb |-> Cb(last'.cb), ikeys |-> last'.ikeys]
           ELSE [kind |-> last'.kind]
Obs == [c |-> {<<k[1], k[2]>> \o Ent(cache'[k]) : k \in {kk \in AllKeys : cache'[kk] # Undef}},
        b |-> {Cb(c) : c \in cbs'}, w |-> waiting', n |-> now', l |-> LastObs]

Det(msg) == /\ Cardinality(RelAllowed(msg, desc, waiting)) = 1
            /\ msg.tx \notin PrefTexts

GInit == Init /\ hist = <<[act |-> "descr", desc |-> desc, variant |-> variant, ids |-> NameMaps(desc)]>>
GNext ==
  \/ \E msg \in {mm \in Msgs : mm.ident \in GIdents /\ mm.action \in GActions} :
        /\ Det(msg)
        /\ \E e \in (IF Handled(msg, desc) THEN AllowedEntries(msg, now) ELSE {Undef}),
              rel \in RelAllowed(msg, desc, waiting) : Recv(msg, e, rel)
        /\ hist' = Append(hist, [act |-> "recv", msg |-> msg, exp |-> Obs])
  \/ \E c \in {cc \in CbSpace \ cbs : cc.level \in GLevels} :
        /\ Cardinality(ImmAllowed(c)) = 1
        /\ \E S \in ImmAllowed(c) : Register(c, S)
        /\ hist' = Append(hist, [act |-> "register", cb |-> c, exp |-> Obs])
  \/ \E c \in cbs : Unregister(c) /\ hist' = Append(hist, [act |-> "unregister", cb |-> c, exp |-> Obs])
  \/ \E rk \in {r \in ReqKeys : r[2] \in GIdents} : Expect(rk) /\ hist' = Append(hist, [act |-> "expect", rk |-> rk, exp |-> Obs])
  \/ Tick /\ hist' = Append(hist, [act |-> "tick", exp |-> Obs])
  \/ Idle /\ hist' = Append(hist, [act |-> "idle", exp |-> Obs])
  \/ \E d \in Descs, v \in Variants :
        Describe(d, v) /\ hist' = Append(hist, [act |-> "describe", desc |-> d, variant |-> v, ids |-> NameMaps(d), exp |-> Obs])
  \/ \E d \in OtherDescs, v \in Variants :
        OtherDescribes(d, v) /\ hist' = Append(hist, [act |-> "other", desc |-> d, variant |-> v, ids |-> NameMaps(desc), exp |-> Obs])
GSpec == GInit /\ [][GNext]_<<vars, hist>>

GBound == Bound
Emit1 == (TLCGet("level") = Depth + 1 /\ (EmitOneIn = 1 \/ RandomElement(1 .. EmitOneIn) = 1))
            => PrintT(<<"BEH", ToJson(hist)>>)

(* generated-node descriptions: default accessibles present / absent, custom names *)
GenD1 == {<<"m1", "value">>, <<"m1", "target">>, <<"m2", "x">>}
GenD2 == {<<"m1", "value">>, <<"m2", "value">>, <<"m2", "x">>, <<"m2", "y">>}
GenD3 == {<<"m1", "x">>, <<"m1", "y">>, <<"m2", "target">>}
GenInit == {GenD1}
GenInit3 == {GenD1, GenD2, GenD3}
GenDescs == {GenD1, GenD2}
GenDescs3 == {GenD1, GenD2, GenD3}
(* custom accessibles named underscore + predefined name, with (m1) and without (m2) the plain one in the module *)
GenN1 == {<<"m1", "target">>, <<"m1", "_target">>, <<"m2", "_value">>}
GenN2 == {<<"m1", "target">>, <<"m1", "_target">>, <<"m1", "value">>, <<"m2", "_value">>, <<"m2", "_target">>}
GenInitN == {GenN1}
GenDescsN == {GenN1, GenN2}
GIdentsI == {<<"m1", "value">>, <<"m2", "x">>}          \* isolation of two clients in one process
GIdentsN == {<<"m1", "target">>, <<"m1", "_target">>, <<"m1", "">>, <<"m2", "_value">>, <<"m2", "">>}
GLevelsN == {NodeL, <<"m1", "">>, <<"m1", "target">>, <<"m1", "_target">>}
(* identifier classes: known, shorthand with / without default accessible, custom name,   *)
(* command, unknown parameter, unknown module                                            *)
GIdentsQ == {<<"m1", "value">>, <<"m1", "">>, <<"m2", "x">>, <<"m1", "cmd">>, <<"zz", "value">>}
GIdentsM0 == GIdentsQ \cup {<<"m2", "">>}
GIdentsC == {<<"m1", "value">>}                      \* callback-focused generation
GLevelsC == {NodeL, <<"m1", "">>, <<"m1", "value">>}
GLevelsE == {NodeL}                                   \* error class sweep
GLevelsQ == {NodeL, <<"m1", "">>, <<"m1", "value">>, <<"m2", "x">>}
GIdentsM == GIdentsM0 \cup {<<"m2", "target">>, <<"m1", "target">>, <<"m2", "value">>}
GIdentsT == Idents
GLevelsT == Levels
=============================================================================
