SPECIFICATION GSpecBoot
CONSTANTS
  Conns = {"c1"}
  Mods = {"m1"}
  Used = {"comlog", "off"}
  ComMods = {"m1"}
  Configs <- CfgMixed
  MaxDay = 2
  Acts = {"logging", "emit", "comlog", "nextday", "reinit", "ident"}
  InitLevels = {99}
  Depth = 3
CONSTRAINT Bound
INVARIANT Emit1
CHECK_DEADLOCK FALSE
