--------------------------- MODULE Trace_Persistent ---------------------------
(* code -> spec: executions of the real PersistentMixin on the fake file system,   *)
(* recorded at every file-system call, judged by the predicates of Persistent.tla. *)
(* The trace alphabet is implementation independent: any sequence of file-system   *)
(* operations is accepted as long as the clauses hold at every event.              *)
(*   boot  : a process starts on the disk (pre = class of the stored file, file =   *)
(*           what every stored entry stands for: value id | "bad" | "-")             *)
(*   fs    : one file-system call returned / raised / was the crash point            *)
(*   start : the constructor returned (ok) or raised                                 *)
(*   ret   : a call of the driver (save / change / writeinit) returned               *)
(*   reload: loadParameters() returned                                               *)
(*   reset : factory_reset returned                                                  *)
(*   env   : the environment removed the persistent directory under the process      *)
(* classes of the target file: "absent" | "c:<snapshot id>" | "partial"              *)
EXTENDS Naturals, Sequences, TLC, TLCExt, Json, IOUtils

CONSTANT DevBelieveEarly     \* TRUE: accept the recorded deviation Dev_BelieveEarly (known finding)

P == INSTANCE Persistent WITH Params <- {}, Vals <- {}, NChunks <- 1, AutoChoices <- {}, HwChoices <- {},
        NoDefChoices <- {}, CfgVals <- {}, Faults <- {}, Corruptions <- {}, Dev <- {}, disk <- 0, alive <- FALSE,
        kind <- 0, val <- 0, believed <- 0, wd <- 0, pc <- 0, sv <- 0, init <- 0, fval <- 0, err <- 0, tampered <- FALSE

Traces == JsonDeserialize(IOEnv.TRACE_FILE)
NT == Len(Traces)
VARIABLES t, l, s
ASSUME \A i \in 1 .. NT : TLCSet(i, 1) /\ TLCSet(NT + i, "")

Ev == Traces[t][l]

S0 == [target |-> "absent", alive |-> FALSE, tk |-> FALSE, tv |-> <<>>, file |-> <<>>, bel |-> "",
       init |-> <<>>, tampered |-> FALSE]

(* ---- clauses: <<name, holds>> evaluated on the state before the event ---- *)
FsClauses(e) ==
  << <<"Atomic", P!AtomicOK(s.target, e.target, e.cur)>>,
     <<"Atomic.alive", e.out = "dropped" => e.target = s.target>> >>

BootClauses(e) ==
  << <<"Boot.dead", ~s.alive \/ e.pre = s.target>>,
     \* restart after a completed save: every stored entry stands for the value that was in memory
     <<"RoundTrip", (s.tk /\ e.pre = s.target) => \A p \in DOMAIN e.file : e.file[p] = s.tv[p]>> >>

(* a default given in the configuration is a default; the declared one (or the datatype's) applies otherwise *)
DefOf(e, p) == IF e.cdef[p] # P!NoVal THEN e.cdef[p] ELSE e.def[p]
StartClauses(e) ==
  << <<"Tolerant.startup", e.ok>>,
     <<"Values", e.ok => \A p \in DOMAIN e.got : e.got[p] = P!Expected(e.cfg[p], s.file[p], DefOf(e, p))>>,
     \* only a parameter that got its value from nowhere may still be flagged "not initialized"
     <<"Restored.readable", e.ok => \A p \in DOMAIN e.err : e.err[p] =>
           (e.nodef[p] /\ e.cfg[p] = P!NoVal /\ e.cdef[p] = P!NoVal /\ s.file[p] \in {P!NoVal, P!Bad})>>,
     \* entries of the file under foreign keys never reach the module
     <<"Foreign", e.ok => \A q \in DOMAIN e.fgot : e.fgot[q] = "v0">>,
     <<"Consistent", e.target = s.target>>,
     \* the start-up save may only be missing when the file left on disk cannot do harm (see ReloadHarmless)
     <<"Start.saved", e.ok => (e.target = e.cur \/ P!ReloadHarmless(s.file, e.got))>>,
     <<"Retry.believed", e.ok => P!SkipOK(e.skip, e.target, e.cur)>> >>

(* Dev_BelieveEarly (known finding, only with DevBelieveEarly = TRUE): the snapshot of a save that *)
(* failed stays "believed" (s.bel) and saving it is skipped until another snapshot is saved       *)
Stale(e) == \/ DevBelieveEarly /\ e.skip /\ (e.faults > 0 \/ s.bel = e.cur)
            \/ s.tampered          \* the module cannot know what the environment removed
RetClauses(e) ==
  << <<"Consistent", e.target = s.target>>,
     <<"Retry.saved", (e.must /\ e.faults = 0 /\ e.out # "crash") => (e.target = e.cur \/ Stale(e))>>,
     <<"Retry.believed", e.out # "crash" => (P!SkipOK(e.skip, e.target, e.cur) \/ Stale(e))>> >>

(* loadParameters() in a running module: usable stored entries replace the values, others stay *)
ReloadClauses(e) ==
  << <<"Consistent", e.target = s.target>>,
     <<"Reload.values", e.ok => \A p \in DOMAIN e.got : e.got[p] = P!Expected(P!NoVal, e.file[p], e.before[p])>>,
     <<"Foreign", e.ok => e.fgot = e.fbefore>> >>

(* factory_reset: the values of configuration / declaration, whatever the file says *)
ResetClauses(e) ==
  << <<"Consistent", e.target = s.target>>,
     <<"Reset.values", e.ok => \A p \in DOMAIN e.got : e.got[p] = s.init[p]>>,
     <<"Retry.believed", e.out # "crash" => (P!SkipOK(e.skip, e.target, e.cur) \/ Stale(e))>> >>

Clauses(e) == CASE e.ev = "fs" -> FsClauses(e)
                [] e.ev = "boot" -> BootClauses(e)
                [] e.ev = "start" -> StartClauses(e)
                [] e.ev = "ret" -> RetClauses(e)
                [] e.ev = "reload" -> ReloadClauses(e)
                [] e.ev = "reset" -> ResetClauses(e)
                [] e.ev = "env" -> << <<"Env", e.what = "wipe" /\ e.target = "absent">> >>
                [] OTHER -> << <<"unknown event", FALSE>> >>

FirstBad(cl) == LET bad == SelectSeq(cl, LAMBDA c : ~c[2]) IN IF bad = <<>> THEN "" ELSE bad[1][1]

(* ---- state update ---- *)
Nxt(e) ==
  CASE e.ev = "fs" ->
         IF e.target # s.target THEN [s EXCEPT !.target = e.target, !.tk = TRUE, !.tampered = FALSE,
                                               !.tv = IF "vals" \in DOMAIN e THEN e.vals ELSE <<>>] ELSE s
    [] e.ev = "boot" ->
         [s EXCEPT !.target = e.pre, !.alive = FALSE, !.file = e.file, !.bel = "", !.tampered = FALSE,
                   !.tk = (s.tk /\ e.pre = s.target)]
    [] e.ev = "start" -> [s EXCEPT !.alive = TRUE,
                                   !.init = [p \in DOMAIN e.cfg |-> P!Expected(e.cfg[p], P!NoVal, DefOf(e, p))]]
    [] e.ev = "env" -> [s EXCEPT !.target = e.target, !.tk = FALSE, !.tampered = TRUE]
    [] e.ev = "reset" -> [s EXCEPT !.alive = (e.out # "crash"),
                                   !.bel = IF e.out = "crash" THEN "" ELSE IF e.skip THEN e.cur ELSE s.bel]
    [] e.ev = "reload" -> [s EXCEPT !.alive = (e.out # "crash"), !.bel = "",
                                    !.tampered = IF e.ok THEN FALSE ELSE s.tampered]  \* (a failed reload learns nothing)
    [] e.ev = "ret" -> [s EXCEPT !.alive = (e.out # "crash"),
                                 !.bel = IF e.out = "crash" THEN "" ELSE IF e.skip THEN e.cur ELSE s.bel]

TInit == t \in 1 .. NT /\ l = 1 /\ s = S0
TStep == /\ l <= Len(Traces[t])
         /\ FirstBad(Clauses(Ev)) = ""
         /\ s' = Nxt(Ev)
         /\ l' = l + 1 /\ t' = t
TSpec == TInit /\ [][TStep]_<<t, l, s>>

(* the target is never left partial by the module: only the environment (boot.pre) makes it so *)
NeverPartial == (s.target = "partial") => ~s.tk

Track == /\ TLCSet(t, IF l > TLCGet(t) THEN l ELSE TLCGet(t))
         /\ (l <= Len(Traces[t]) /\ FirstBad(Clauses(Ev)) # "") => TLCSet(NT + t, FirstBad(Clauses(Ev)))
Verdicts == \A i \in 1 .. NT :
   IF TLCGet(i) = Len(Traces[i]) + 1 THEN PrintT(<<"ACCEPT", i>>)
   ELSE PrintT(<<"REJECT", i, TLCGet(i), TLCGet(NT + i)>>)
=============================================================================
