SPECIFICATION RotSpec
CONSTANTS
  MaxDay = 8
  Retentions = {0, 1, 2, 3, 4}
  StartDay = 5
INVARIANT CurrentExists
PROPERTY NewestKept
CHECK_DEADLOCK FALSE
