-------------------------------- MODULE Wire --------------------------------
(* C07.  One well-formed reply per request line, for any bytes and any chunking.   *)
(* Three layers of the TCP interface of a SEC node                                  *)
(*   framing      bytes -> chunks -> buffer -> lines   (interface/__init__.py       *)
(*                get_msg, tcp.py ingest / next_message)                            *)
(*   request loop line -> exactly one reply            (handler.py handle,          *)
(*                dispatcher.py handle_request, messages.py REQUEST2REPLY)          *)
(*   send         lines of several threads stay whole  (tcp.py send_reply/send_lock)*)
(* The module states what the PROPERTY demands; where the statement is silent the   *)
(* operators are loose (see Loose, SpecOK).                                         *)
EXTENDS Naturals, Sequences, FiniteSets, TLC

CONSTANTS MaxLen,     \* framing: streams of length 0 .. MaxLen over Bytes
          ReadSize,   \* framing: one receive returns at most ReadSize bytes (MESSAGE_READ_SIZE)
          Classes,    \* request loop: ids of the line classes explored (subset of DOMAIN Cat)
          MaxPend,    \* request loop: bound on unanswered lines in the design model
          Threads,    \* send layer: threads emitting lines on one connection
          UseLock,    \* send layer: TRUE = with the per-connection send lock
          CheckRunning \* send layer: TRUE = a sender looks at the connection's state under the lock

(* ======================================================================== *)
(* layer 1: framing                                                         *)
(* ======================================================================== *)
Bytes == {"N", "R", "S", "x", "y"}      \* NL, CR, SP and two payload bytes
NL == "N"
SP == "S"
Blank == {"S", "R"}

HasNL(s) == \E i \in 1 .. Len(s) : s[i] = NL
FirstNL(s) == CHOOSE i \in 1 .. Len(s) : s[i] = NL /\ \A j \in 1 .. (i - 1) : s[j] # NL
BeforeNL(s) == SubSeq(s, 1, FirstNL(s) - 1)
AfterNL(s) == SubSeq(s, FirstNL(s) + 1, Len(s))

RECURSIVE SplitNL(_)                     \* the NL-terminated lines of s, in order
SplitNL(s) == IF HasNL(s) THEN <<BeforeNL(s)>> \o SplitNL(AfterNL(s)) ELSE <<>>
RECURSIVE TailNL(_)                      \* what follows the last NL
TailNL(s) == IF HasNL(s) THEN TailNL(AfterNL(s)) ELSE s

Streams == UNION {[1 .. n -> Bytes] : n \in 0 .. MaxLen}

VARIABLES stream,   \* everything the peer sends on this connection
          pos,      \* number of bytes delivered so far (the cut is the set of values pos takes)
          buf,      \* receive buffer
          lines     \* lines handed to the request loop so far
fvars == <<stream, pos, buf, lines>>

Consumed == SubSeq(stream, 1, pos)

FInit == /\ stream \in Streams
         /\ pos = 0 /\ buf = <<>> /\ lines = <<>>

Recv(k) == /\ k >= 1 /\ k <= ReadSize /\ pos + k <= Len(stream)
           /\ buf' = buf \o SubSeq(stream, pos + 1, pos + k)
           /\ pos' = pos + k
           /\ UNCHANGED <<stream, lines>>

Deframe == /\ HasNL(buf)
           /\ lines' = Append(lines, BeforeNL(buf))     \* split at the FIRST newline
           /\ buf' = AfterNL(buf)
           /\ UNCHANGED <<stream, pos>>

(* the chunking has a time dimension: the peer may pause longer than the socket time-out between any two *)
(* bytes; a receive that times out delivers nothing and loses nothing                                     *)
Pause == UNCHANGED fvars

FNext == Deframe \/ Pause \/ \E k \in 1 .. MaxLen : Recv(k)

(* framing is independent of chunking: at every prefix, whatever the segmentation *)
FramingOK == /\ lines \o SplitNL(buf) = SplitNL(Consumed)
             /\ TailNL(buf) = TailNL(Consumed)
FramingEnd == (pos = Len(stream) /\ ~HasNL(buf)) => (lines = SplitNL(stream) /\ buf = TailNL(stream))
FTypeOK == /\ pos \in 0 .. Len(stream)
           /\ Len(buf) <= Len(stream)
LinesGrow == [][\/ lines' = lines
                \/ Len(lines') = Len(lines) + 1 /\ SubSeq(lines', 1, Len(lines)) = lines]_fvars

(* ---- what "the request's action and specifier" are (SECoP: action[ SP specifier[ SP data]]) ---- *)
RECURSIVE LStrip(_)
LStrip(s) == IF s # <<>> /\ Head(s) \in Blank THEN LStrip(Tail(s)) ELSE s
RECURSIVE RStrip(_)
RStrip(s) == IF s # <<>> /\ s[Len(s)] \in Blank THEN RStrip(SubSeq(s, 1, Len(s) - 1)) ELSE s
Strip(s) == RStrip(LStrip(s))
HasSP(s) == \E i \in 1 .. Len(s) : s[i] = SP
FirstSP(s) == CHOOSE i \in 1 .. Len(s) : s[i] = SP /\ \A j \in 1 .. (i - 1) : s[j] # SP
Fields(s) == IF ~HasSP(s) THEN <<s, <<>>, <<>>>>
             ELSE LET a == SubSeq(s, 1, FirstSP(s) - 1)
                      r == SubSeq(s, FirstSP(s) + 1, Len(s))
                  IN IF ~HasSP(r) THEN <<a, r, <<>>>>
                     ELSE <<a, SubSeq(r, 1, FirstSP(r) - 1), SubSeq(r, FirstSP(r) + 1, Len(r))>>
RECURSIVE Str(_)
Str(s) == IF s = <<>> THEN "" ELSE Head(s) \o Str(Tail(s))

(* request descriptor of a line of the framing alphabet *)
LineReq(line) ==
    LET S == Strip(line)
        F == Fields(S)
    IN [blank |-> S = <<>>,
        act |-> IF S = <<>> THEN "help" ELSE Str(F[1]),
        spec |-> Str(F[2]),
        data |-> Str(F[3]),
        padded |-> S # line,
        canon |-> S = <<>> \/ (F[1] # <<>> /\ (F[3] # <<>> => F[2] # <<>>))]

(* ======================================================================== *)
(* layer 2: request loop                                                    *)
(* ======================================================================== *)
Req2Rep == ("describe" :> "describing") @@ ("activate" :> "active") @@ ("deactivate" :> "inactive")
        @@ ("do" :> "done") @@ ("change" :> "changed") @@ ("read" :> "reply") @@ ("ping" :> "pong")
        @@ ("help" :> "helping") @@ ("logging" :> "logging") @@ ("*IDN?" :> "ident")
ReplyActions == {Req2Rep[a] : a \in DOMAIN Req2Rep}
AsyncActions == {"update", "log", "_"}      \* events, log messages, informational lines (help text)

SECoPClasses == {"ProtocolError", "NoSuchModule", "NoSuchParameter", "NoSuchCommand", "ReadOnly",
                 "WrongType", "RangeError", "BadJSON", "NotImplemented", "CommandFailed",
                 "CommandRunning", "CommunicationFailed", "TimeoutError", "HardwareError", "IsBusy",
                 "IsError", "Disabled", "Impossible", "ReadFailed", "OutOfRange", "InternalError"}

(* A request descriptor r: [blank, utf8, canon, padded, nonascii, decfail, mal, act, spec]       *)
(*   utf8    action and specifier tokens are valid UTF-8                                         *)
(*   canon   tokenisation is unambiguous (non-empty tokens, only SP / CR padding)                *)
(*   padded  the line has leading / trailing blanks (CR-LF ending included)                      *)
(*   nonascii  action or specifier token contains bytes >= 0x80                                  *)
(*   decfail the line cannot be decoded (invalid UTF-8 anywhere, or broken JSON)                 *)
(*   mal     definitely malformed (NonInterference removes exactly these lines)                  *)
(* An output descriptor o: [action, spec, iserr, base, err, utf8, strict, nanonly, evt]          *)
(*   iserr   action = "error_" \o base;  err = the error class of the report                     *)

Loose(r) == ~(r.utf8 /\ r.canon)     \* the statement does not define the request's action here

ActionOK(r, o) ==
    IF Loose(r) THEN o.iserr \/ o.action \in ReplyActions
    ELSE \/ o.iserr /\ o.base = r.act
         \/ ~o.iserr /\ r.act \in DOMAIN Req2Rep /\ o.action = Req2Rep[r.act]

SpecOK(r, o) ==
    \/ Loose(r)
    \/ o.spec = r.spec
    \/ r.act = "describe" /\ r.spec \in {"", "."} /\ o.spec \in {"", "."}   \* SECoP: "describing ."
    \/ r.act \in {"help", "*IDN?"} /\ o.spec = ""     \* literal requests; silent about a spurious specifier

ErrOK(o) == o.iserr => o.err \in SECoPClasses
WellFormedOut(o) == o.utf8 /\ o.strict
Allowed(r, o) == ActionOK(r, o) /\ SpecOK(r, o) /\ ErrOK(o) /\ WellFormedOut(o)

(* an output line that is not a reply: asynchronous message *)
(* "error_update" reports a failed read of a parameter; o.evt (alpha) says that the line names a parameter  *)
(* of the node and carries its read error, i.e. is such an event and not the answer to a line "update ..." *)
IsAsync(o, q) == \/ o.action \in AsyncActions
                 \/ o.iserr /\ o.base = "update" /\ (q = <<>> \/ o.evt)

(* ---- the catalogue of line classes (gamma: harness/props/c07.py CLASSES, cross-checked) ---- *)
Rq(act, spec, f) == [blank |-> "b" \in f, utf8 |-> ~("8" \in f), canon |-> ~("c" \in f),
                     padded |-> "p" \in f, nonascii |-> "n" \in f, decfail |-> "d" \in f, mal |-> "m" \in f,
                     act |-> act, spec |-> spec]
Cat == [idn |-> Rq("*IDN?", "", {}), describe |-> Rq("describe", "", {}),
        describe_dot |-> Rq("describe", ".", {}), describe_m |-> Rq("describe", "m", {}),
        read_p |-> Rq("read", "m:p", {}), read_s |-> Rq("read", "m:s", {}),
        read_hw |-> Rq("read", "m:hw", {}), read_nomod |-> Rq("read", "zz:p", {}),
        change_p3 |-> Rq("change", "m:p", {}), change_p7 |-> Rq("change", "m:p", {}),
        change_range |-> Rq("change", "m:p", {}), change_s |-> Rq("change", "m:s", {}),
        change_type |-> Rq("change", "m:p", {}), change_ro |-> Rq("change", "m:hw", {}),
        do_cmd |-> Rq("do", "m:cmd", {}), do_noarg |-> Rq("do", "m:cmd", {}),
        ping |-> Rq("ping", "tok", {}), ping_bare |-> Rq("ping", "", {}),
        activate |-> Rq("activate", "", {}), activate_m |-> Rq("activate", "m", {}),
        deactivate |-> Rq("deactivate", "", {}), deactivate_m |-> Rq("deactivate", "m", {}),
        logging_on |-> Rq("logging", "m", {}), logging_off |-> Rq("logging", ".", {}),
        empty |-> Rq("help", "", {"b"}), blanks |-> Rq("help", "", {"b", "p"}),
        help |-> Rq("help", "", {}), help_x |-> Rq("help", "x", {"m"}),
        bad_utf8_spec |-> Rq("read", "", {"8", "d", "m", "n"}), bad_utf8_act |-> Rq("", "", {"8", "d", "m", "n"}),
        bad_utf8_data |-> Rq("change", "m:s", {"d", "m"}), bad_utf8_crlf |-> Rq("", "", {"8", "d", "m", "p", "n"}),
        bad_json |-> Rq("change", "m:p", {"d", "m"}), extra_tokens |-> Rq("change", "m:p", {"d", "m"}),
        missing_spec |-> Rq("read", "", {"m"}), missing_data |-> Rq("change", "m:p", {"m"}),
        extra_read |-> Rq("read", "m:p", {"m"}), extra_ping |-> Rq("ping", "tok", {"m"}),
        crlf |-> Rq("read", "m:p", {"p"}), lead_blank |-> Rq("read", "m:p", {"p"}),
        trail_blank |-> Rq("change", "m:p", {"p"}), lead_badjson |-> Rq("change", "m:p", {"p", "d", "m"}),
        trail_badjson |-> Rq("change", "m:p", {"p", "d", "m"}),
        double_sp |-> Rq("read", "", {"c", "d"}),
        long_valid |-> Rq("change", "m:s", {}), long_junk |-> Rq("LONG", "", {"m"}),
        unknown |-> Rq("frobnicate", "m:p", {"m"}), c_request |-> Rq("request", "", {"m"}),
        c_request_x |-> Rq("request", "m:p", {"m"}), c_ident |-> Rq("_ident", "", {"m"}),
        c_help_d |-> Rq("help", "x", {"m"}), c_ident_x |-> Rq("_ident", "m:p", {"m"}),
        nonascii_badjson |-> Rq("NONASCII", "m:p", {"d", "m", "n"}),
        \* data nested deeper than a recursive parser's limit (open = brackets never closed: broken JSON)
        deep_list_open |-> Rq("change", "m:p", {"d", "m"}), deep_dict_open |-> Rq("change", "m:s", {"d", "m"}),
        deep_list_50k |-> Rq("do", "m:cmd", {"d", "m"}), deep_dict_50k |-> Rq("change", "m:p", {"d", "m"}),
        deep_list |-> Rq("change", "m:p", {}), deep_dict |-> Rq("logging", "m", {}),
        huge_int |-> Rq("change", "m:p", {}),
        \* more of the dispatcher: constant parameter, module that failed to initialise, default
        \* accessibles (value / target), command without argument, non-ASCII text in both directions
        read_k |-> Rq("read", "m:k", {}), change_k |-> Rq("change", "m:k", {}),
        read_broken |-> Rq("read", "broken:p", {}), change_broken |-> Rq("change", "broken:p", {}),
        do_broken |-> Rq("do", "broken:cmd", {}),
        read_m |-> Rq("read", "m", {}), change_m |-> Rq("change", "m", {}),
        do_stop |-> Rq("do", "m:stop", {}), change_t |-> Rq("change", "m:t", {}), read_t |-> Rq("read", "m:t", {}),
        ping_long |-> Rq("ping", "LONG", {}),           \* a reply longer than a small send buffer
        long_valid_3k |-> Rq("change", "m:s", {}),     \* a single line longer than two reads
        surrogate_t |-> Rq("change", "m:t", {})]      \* "\ud800": valid JSON, text that cannot be encoded as UTF-8

(* the replies the statement allows for a request (constructive form of Allowed) *)
MkOut(action, spec, iserr, base, err) ==
    [action |-> action, spec |-> spec, iserr |-> iserr, base |-> base, err |-> err,
     utf8 |-> TRUE, strict |-> TRUE, nanonly |-> FALSE, evt |-> FALSE]
SpecSet(r) == {r.spec} \cup (IF r.act = "describe" /\ r.spec \in {"", "."} THEN {"", "."} ELSE {})
                       \cup (IF r.act \in {"help", "*IDN?"} THEN {""} ELSE {})
ReplySet(r) ==
    IF Loose(r) THEN {MkOut("error_?", s, TRUE, "?", e) : s \in {"", "?"}, e \in SECoPClasses}
    ELSE {MkOut("error_" \o r.act, s, TRUE, r.act, e) : s \in SpecSet(r), e \in SECoPClasses}
         \cup (IF r.act \in DOMAIN Req2Rep
               THEN {MkOut(Req2Rep[r.act], s, FALSE, "", "") : s \in SpecSet(r)} ELSE {})

VARIABLES pend,     \* requests (descriptors) whose reply is still owed, oldest first
          last,     \* the last observable step of the loop
          serving,  \* the handler is still serving the connection
          peer      \* what the peer did to the connection: "open" | "eof" (closed after its last byte) |
                    \* "reset" (receiving fails: connection reset) | "deaf" (sending failed: broken pipe / time-out)
lvars == <<pend, last, serving, peer>>
NoStep == [kind |-> "none"]

LInit == pend = <<>> /\ last = NoStep /\ serving = TRUE /\ peer = "open"

Arrive(r) == /\ serving /\ peer = "open"
             /\ pend' = Append(pend, r)
             /\ last' = [kind |-> "in"]
             /\ UNCHANGED <<serving, peer>>

Answer(o) == /\ serving /\ pend # <<>> /\ peer # "deaf"
             /\ ~IsAsync(o, pend)
             /\ last' = [kind |-> "reply", req |-> Head(pend), out |-> o]
             /\ pend' = Tail(pend)
             /\ UNCHANGED <<serving, peer>>

AsyncOut(o) == /\ IsAsync(o, pend) /\ serving /\ peer # "deaf"
               /\ last' = [kind |-> "async", out |-> o]
               /\ UNCHANGED <<pend, serving, peer>>

(* the peer ends the conversation: orderly, by a reset, or by no longer taking our bytes *)
PeerDoes(what) == /\ serving /\ peer = "open"
                  /\ peer' = what
                  /\ last' = [kind |-> "peer"]
                  /\ UNCHANGED <<pend, serving>>

(* the handler may end only after the peer did (and after an orderly end of input everything is answered) *)
HandlerEnd == /\ serving /\ peer # "open"
              /\ peer = "eof" => pend = <<>>
              /\ serving' = FALSE
              /\ last' = [kind |-> "end"]
              /\ UNCHANGED <<pend, peer>>

LNext == \/ \E c \in Classes : Len(pend) < MaxPend /\ Arrive(Cat[c])
         \/ \E o \in (IF pend = <<>> THEN {} ELSE ReplySet(Head(pend))) : Answer(o)
         \/ \E a \in AsyncActions : AsyncOut(MkOut(a, "m:p", FALSE, "", ""))
         \/ \E w \in {"eof", "reset", "deaf"} : PeerDoes(w)
         \/ HandlerEnd

Belongs == last.kind = "reply" => ActionOK(last.req, last.out) /\ SpecOK(last.req, last.out)
ErrorClassIsSECoP == last.kind = "reply" => ErrOK(last.out)
EveryLineWellFormed == last.kind \in {"reply", "async"} => WellFormedOut(last.out)
HandlerSurvives == serving \/ peer # "open"         \* no INPUT ends the handler, only the peer's leaving
AnsweredAtEOF == (~serving /\ peer = "eof") => pend = <<>>
OnePerLine == [][/\ (last'.kind = "reply" /\ last' # last) => pend' = Tail(pend)
                 /\ Len(pend') < Len(pend) => (last'.kind = "reply" /\ last'.req = Head(pend))]_lvars
(* once a send has failed the line on the wire may be torn: nothing more is written on this connection *)
NoWriteAfterFailure == [][peer = "deaf" => (last' = last \/ last'.kind \notin {"reply", "async"})]_lvars

(* ======================================================================== *)
(* layer 3: sending (every line is written in two halves)                   *)
(* ======================================================================== *)
VARIABLES lock,     \* holder of the connection's send lock or "free"
          pc,       \* per thread: "idle" | "locked" | "half" (first half of its line is on the wire)
          torn      \* a send failed in the middle of a line
svars == <<lock, pc, torn>>

SInit == lock = "free" /\ pc = [th \in Threads |-> "idle"] /\ torn = FALSE
Acquire(th) == /\ pc[th] = "idle"
               /\ UseLock => lock = "free"
               /\ lock' = IF UseLock THEN th ELSE lock
               /\ pc' = [pc EXCEPT ![th] = "locked"]
               /\ UNCHANGED torn
Half1(th) == /\ pc[th] = "locked"
             /\ CheckRunning => ~torn          \* "if self.running" under the lock
             /\ pc' = [pc EXCEPT ![th] = "half"]
             /\ UNCHANGED <<lock, torn>>
Skip(th) == /\ pc[th] = "locked" /\ torn       \* connection known to be broken: write nothing
            /\ pc' = [pc EXCEPT ![th] = "idle"]
            /\ lock' = IF UseLock THEN "free" ELSE lock
            /\ UNCHANGED torn
Half2(th) == /\ pc[th] = "half"
             /\ pc' = [pc EXCEPT ![th] = "idle"]
             /\ lock' = IF UseLock THEN "free" ELSE lock
             /\ UNCHANGED torn
Fail(th) == /\ pc[th] = "half" /\ ~torn        \* the second half cannot be written
            /\ pc' = [pc EXCEPT ![th] = "idle"]
            /\ lock' = IF UseLock THEN "free" ELSE lock
            /\ torn' = TRUE
SNext == \E th \in Threads : Acquire(th) \/ Half1(th) \/ Half2(th) \/ Skip(th) \/ Fail(th)

(* no output line is split: never two lines partially written at the same time, nothing after a torn line *)
LinesWhole == Cardinality({th \in Threads : pc[th] = "half"}) <= 1
NoGlue == torn => \A th \in Threads : pc[th] # "half"

(* ======================================================================== *)
vars == <<fvars, lvars, svars>>
FSpec == FInit /\ LInit /\ SInit /\ [][FNext /\ UNCHANGED <<lvars, svars>>]_vars
FIdle == stream = <<>> /\ pos = 0 /\ buf = <<>> /\ lines = <<>>
LSpec == FIdle /\ LInit /\ SInit /\ [][LNext /\ UNCHANGED <<fvars, svars>>]_vars
SSpec == FIdle /\ LInit /\ SInit /\ [][SNext /\ UNCHANGED <<fvars, lvars>>]_vars
=============================================================================
