SPECIFICATION GFSpec
CONSTANTS
  MaxLen = 4
  ReadSize = 4
  Classes = {"idn"}
  MaxPend = 1
  Threads = {"req"}
  UseLock = TRUE
  CheckRunning = TRUE
  Depth = 0
  FullDepth = 0
  WideDepth = 0
  Wide = {}
  Pauses = FALSE
  Core = {}
INVARIANT EmitF
INVARIANT FramingOK
CHECK_DEADLOCK FALSE
