------------------------- MODULE Gen_MultiEventXCode -------------------------
(* Binding of the two specifications: behaviours of the line-level model MultiEventXCode (clock as under the     *)
(* deterministic scheduler, DetTime) are projected to the observable events of the contract - begin and return    *)
(* of every call, actions run - and validated by Trace_MultiEventX like recordings of the real class.  The        *)
(* repaired design must be accepted without deviations; the model of the code as it stood before the repairs    *)
(* must need exactly the named deviations.  One behaviour per order of observable events (VIEW).                   *)
EXTENDS MultiEventXCode, Json
VARIABLE hist

InCall(l) == l \notin {"next", "done", "sleep"}
EventOf(th) ==
   LET o == OpOf(th) IN
   IF ran' # ran
   THEN <<[ev |-> "act", th |-> th, a |-> ran'[Len(ran')], raises |-> ran'[Len(ran')] \in RaisingActs, vt |-> now]>>
   ELSE IF pc[th] = "next" /\ InCall(pc'[th])
   THEN <<[ev |-> "begin", th |-> th, op |-> o.op, e |-> o.e, a |-> o.a, to |-> IF o.op \in {"new", "wait"} THEN o.to ELSE 0,
           name |-> IF o.op = "new" THEN o.e ELSE "", vt |-> now]>>
   ELSE IF InCall(pc[th]) /\ pc'[th] = "next"
   THEN <<[ev |-> "ret", th |-> th, op |-> o.op,
           exc |-> IF err'[th] # err[th] THEN err'[th][Len(err'[th])] ELSE "",
           ires |-> IF o.op = "new" THEN evDl'[o.e] ELSE IF o.op = "deadline" THEN ires'[th] ELSE 0,
           bres |-> wres'[th] = "T", sres |-> sres'[th], vt |-> now]>>
   ELSE <<>>
Mover(th) == pc'[th] # pc[th] \/ ip'[th] # ip[th] \/ (ran' # ran /\ pc[th] = "s85")
HistUpd == hist' = IF \E th \in Threads : Mover(th)
                   THEN hist \o EventOf(CHOOSE th \in Threads : Mover(th)) ELSE hist
GSpec == Init /\ hist = <<>> /\ [][Next /\ HistUpd]_<<vars, hist>>
View == <<vars, [j \in DOMAIN hist |-> <<hist[j].th, hist[j].ev, hist[j].vt>>]>>      \* one behaviour per order of the observable events
(* an end state: everybody is through, or sits in a wait() that nobody will end *)
Final == /\ \A th \in Threads : pc[th] = "done" \/ (pc[th] = "w_blk" /\ loc[th].until = Inf /\ ~loc[th].notified)
         /\ now = MaxTime
Emit == Final => PrintT(<<"BEH", ToJson(hist)>>)
=============================================================================
