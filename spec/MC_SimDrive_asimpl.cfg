\* documents the finding X02-sim-busy-late at design level: EXPECTED TO FAIL BusyOnChange
SPECIFICATION AsImplSpec
CONSTANTS
  Vals = {0, 16, 48}
  Ramps = {0, 16}
  Jitters = {0}
  Shapes = {"ramp"}
PROPERTY BusyOnChange
CHECK_DEADLOCK FALSE
