SPECIFICATION Spec
CONSTANTS
  Locked = TRUE
  Vs = {2, 5}
  Ls = {3, 8}
PROPERTY AcceptedWithinCurrent
CHECK_DEADLOCK FALSE
