SPECIFICATION Spec
CONSTANTS
  Callers = {"c1", "c2"}
  KeyOf <- SameKey
  MayIgnore = {"c1"}
  MaxUpd = 0
  Streaming = FALSE
  CanDrop = FALSE
  WithUser = FALSE
  T = 3
  H = 2
  UseLock = TRUE
  SafeJoin = TRUE
  Release = TRUE
  Recheck = TRUE
  defaultInitValue = defaultInitValue
INVARIANT OwnReply
INVARIANT AtMostOnce
INVARIANT NoSpuriousTimeout
INVARIANT ShutdownClean
INVARIANT NoWorkerLeft
CHECK_DEADLOCK FALSE
