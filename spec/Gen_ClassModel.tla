--------------------------- MODULE Gen_ClassModel ---------------------------
(* program emission for C09: TLC enumerates the programs (class hierarchies,     *)
(* override kinds, instances, configurations, mutations, all operation orders).  *)
(* The descriptions are not known here (DescIds is a singleton); the recorded    *)
(* executions are judged by Trace_ClassModel.                                    *)
EXTENDS ClassModel, Json
CONSTANTS Depth,
          RootP,      \* kinds of the parameter p in a root class
          MixinP,     \* kinds of p in a plain mixin (no HasAccessibles)
          DerivedP, DerivedC, DerivedM,   \* override kinds in a derived class
          DerivedW,   \* override kinds of the parameters with composite datatypes (member properties)
          MaxOverrides,
          MaxRoots    \* at most this many classes without bases (roots / mixins)
VARIABLE hist

Body(mx, p, c, m, w) == [mixin |-> mx, p |-> p, c |-> c, m |-> m, w |-> w]
RootBodies == {Body(FALSE, p, "cmd", "-", "-") : p \in RootP} \cup {Body(TRUE, p, "-", "-", "-") : p \in MixinP}
Weight(b) == (IF b.p = "-" THEN 0 ELSE 1) + (IF b.c = "-" THEN 0 ELSE 1) + (IF b.m = "-" THEN 0 ELSE 1)
             + (IF b.w = "-" THEN 0 ELSE 1)
DerivedBodies == {b \in {Body(FALSE, p, c, m, w) : p \in DerivedP \cup {"-"}, c \in DerivedC \cup {"-"},
                                                   m \in DerivedM \cup {"-"}, w \in DerivedW \cup {"-"}} :
                     Weight(b) <= MaxOverrides}

Same(x) == {y \in DOMAIN desc : y # x /\ Key(defs', insts', y) = Key(defs', insts', x)}
Exp(x) == [live |-> DOMAIN desc', same |-> Same(x)]

GInit == Init /\ hist = <<>>
GNext ==
  \/ /\ Cardinality(Classes) < NClasses
     /\ LET c == CId(Cardinality(Classes) + 1) IN
        \E bs \in BaseSeqs : \E b \in (IF bs = <<>> THEN RootBodies ELSE DerivedBodies) :
          /\ \A j1, j2 \in DOMAIN bs : j1 # j2 => bs[j1] \notin Anc(defs, bs[j2])    \* no base is an ancestor of another
          /\ bs = <<>> => Cardinality({k \in Classes : defs[k].bases = <<>>}) < MaxRoots
          /\ DefClass(c, bs, b, "d", TRUE)
          /\ hist' = Append(hist, [act |-> "defclass", x |-> c, bases |-> bs, body |-> b, exp |-> Exp(c)])
  \/ /\ Cardinality(Insts) < NInsts
     /\ LET i == IId(Cardinality(Insts) + 1) IN
        \E c \in {k \in Classes : ~defs[k].body.mixin}, f \in Cfgs :
          /\ Instantiate(i, c, f, "d", TRUE)
          /\ hist' = Append(hist, [act |-> "instantiate", x |-> i, c |-> c, cfg |-> f, exp |-> Exp(i)])
  \/ \E i \in Insts, m \in Muts :
          /\ Len(insts[i].muts) < MaxMuts
          /\ Mutate(i, m, "d")
          /\ hist' = Append(hist, [act |-> "mutate", x |-> i, mut |-> m, exp |-> Exp(i)])
GSpec == GInit /\ [][GNext]_<<vars, hist>>

GBound == TLCGet("level") <= Depth
\* programs are emitted complete (Depth operations) ...
Emit1 == (TLCGet("level") = Depth + 1) => PrintT(<<"BEH", ToJson(hist)>>)
=============================================================================
