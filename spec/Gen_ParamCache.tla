--------------------------- MODULE Gen_ParamCache ---------------------------
(* behaviour emission for spec -> code replay.                                  *)
(*  - Gen_ParamCache_*.cfg        : ALL histories over the alphabet to Depth    *)
(*                                   (printed when maximal)                     *)
(*  - Gen_ParamCache_cover_*.cfg  : VIEW hides the history, so TLC visits every *)
(*    distinct abstract state once (to CoverDepth) and the ACTION_CONSTRAINT    *)
(*    prints one behaviour per TRANSITION of the abstract state graph: deep     *)
(*    histories, every (state, operation) pair covered.                         *)
EXTENDS ParamCache, Json
CONSTANTS Depth,
          FullParams,   \* parameters exercised with the full alphabet
          LiteParams,   \* parameters exercised with a small alphabet (isolation)
          GenConns,     \* connections that start unsubscribed and activate during the history
          GenDefaults,  \* default values explored (subset of Vals)
          GenLiteOmit,  \* suppression windows explored for the LiteParams
          GenFixedSub,  \* the subscriptions of the connections that do not activate / deactivate themselves
          GenFullKinds, \* operation kinds of OpsOf used for the FullParams
          GenExtra      \* operation groups added to the alphabet: subset of {"At", "Nest", "Deact", "Untouched"}
VARIABLE hist

Obs == [c |-> [p \in Params |-> CV(cache'[p])], w |-> [p \in Params |-> View(cache'[p])], o |-> out', s |-> seen']

(* <<offered, reported>> pairs used for Write: the driver confirms, or reports another value *)
WritePairs == {<<v, v>> : v \in Vals} \cup {<<"a", "b">>}
Alphabet ==
    UNION {{op \in OpsOf(p) : /\ (op.a = "Write" => <<op.x, op.y>> \in WritePairs)
                              /\ op.a # "AssignInvalid" /\ op.a \in GenFullKinds
                              /\ (op.a = "Untouched" => "Untouched" \in GenExtra)}
           : p \in FullParams} \cup
    UNION {{op \in AtOps(p) : "At" \in GenExtra /\ op.x \in {"a", "e1"}} : p \in FullParams} \cup
    UNION {{op \in NestOps(p) : ("Nest" \in GenExtra /\ op.a = "ReadNested" /\ op.x \in {"a", "e1"})
                                \/ ("NestInv" \in GenExtra /\ op.x \in Invs)} : p \in FullParams} \cup
    {op \in DeactOps : "Deact" \in GenExtra /\ op.p \in GenConns} \cup
    UNION {{op \in OpsOf(p) : (op.a = "ReadOk" /\ op.x = "a") \/ (op.a = "ReadRaise" /\ op.x = "e1" /\ "LiteErr" \in GenExtra)}
           : p \in LiteParams} \cup
    {op \in ActOps : op.p \in GenConns}
TickOp(n) == [a |-> "Tick", p |-> "-", x |-> "-", y |-> "-", n |-> n]

GInit == /\ Init
         /\ sub = [c \in Conns |-> IF c \in GenConns THEN {} ELSE GenFixedSub]
         /\ \A p \in Params : cache[p].val \in GenDefaults
         /\ \A p \in LiteParams : omit[p] \in GenLiteOmit
         /\ hist = <<[op |-> [a |-> "Init", p |-> "-", x |-> "-", y |-> "-", n |-> 0],
                      omit |-> omit, sub |-> sub, nodefault |-> NoDefault, hidden |-> hidden, mod2 |-> Mod2,
                      c |-> [p \in Params |-> CV(cache[p])]]>>
GNext == \/ \E op \in Alphabet : Do(op, now) /\ now' = now /\ hist' = Append(hist, [op |-> op] @@ Obs)
         \/ \E n \in 1 .. 2 : Tick(n) /\ hist' = Append(hist, [op |-> TickOp(n)] @@ Obs)
GSpec == GInit /\ [][GNext]_<<vars, hist>>

Bound == TLCGet("level") <= Depth /\ now <= MaxNow
EmitMax == (TLCGet("level") = Depth + 1) => PrintT(<<"BEH", ToJson(hist)>>)
EmitStep == PrintT(<<"BEH", ToJson(hist')>>)
AbstractView == <<cache, omit, hidden, now, sub, seen>>
=============================================================================
