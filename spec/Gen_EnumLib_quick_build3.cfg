SPECIFICATION GSpec
VIEW GView
CONSTANTS
  Names = {"a", "b"}
  IntVals <- IV_small
  Specials = {"none", "ref", "numstr", "mem"}
  DispNames = {"", "x"}
  MaxPieces = 2
  MaxExt = 1
  MaxDepth = 3
  AsImpl = {}
  Families = {"build"}
CHECK_DEADLOCK FALSE
