SPECIFICATION GSpec
VIEW GView
CONSTANTS
  Names = {"a", "b"}
  IntVals <- IV_small
  Specials = {"floatint", "floatfrac", "bool", "list", "none"}
  DispNames = {"", "x"}
  MaxPieces = 2
  MaxExt = 1
  MaxDepth = 2
  AsImpl = {}
  Families = {"build"}
CHECK_DEADLOCK FALSE
