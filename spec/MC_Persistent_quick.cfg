SPECIFICATION Spec
CONSTANTS
  Params = {"P1", "P2"}
  Vals = {"v0", "v1"}
  NChunks = 2
  AutoChoices = {{"P1"}}
  HwChoices = {{"P2"}}
  NoDefChoices = {{"P1"}}
  CfgVals = {"v1"}
  Faults = {"crash", "ioerror"}
  Corruptions = {"missing", "notjson", "notdict", "extra", "bad", "drop", "wipe"}
  Dev = {}
INVARIANT TypeOK
INVARIANT Atomic
INVARIANT Retry
INVARIANT BelievedSound
PROPERTY AtomicStep
PROPERTY SaveCompletes
PROPERTY RoundTrip
PROPERTY Precedence
PROPERTY Tolerant
PROPERTY ForeignUntouched
PROPERTY ReloadKeeps
PROPERTY StartupFileAgrees
CHECK_DEADLOCK FALSE
