SPECIFICATION FSpec
CONSTANTS
  MaxLen = 5
  ReadSize = 5
  Classes = {"idn"}
  MaxPend = 1
  Threads = {"req"}
  UseLock = TRUE
  CheckRunning = TRUE
INVARIANT FTypeOK
INVARIANT FramingOK
INVARIANT FramingEnd
PROPERTY LinesGrow
CHECK_DEADLOCK FALSE
