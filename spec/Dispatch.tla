------------------------------ MODULE Dispatch ------------------------------
(* C04 (and the vocabulary of C06).  Request routing change / do / read of a SEC node:   *)
(* exported-name lookup, readonly / constant refusal, import + validation against the     *)
(* datainfo with the previous value (partial struct merged), check_ hooks along the MRO   *)
(* and automatic limit parameters <p>_min / _max / _limits (dynamic: they are parameters  *)
(* themselves and move by history), exactly one driver invocation with exactly the        *)
(* validated value, error classes, cache / update untouched on error.                     *)
(* Anchors: frappy/protocol/dispatcher.py:130-259, frappy/modulebase.py:156-199, 843-869, *)
(* frappy/params.py:510-580, frappy/protocol/interface/handler.py:138-172.                *)
(*                                                                                        *)
(* The module states what the PROPERTY demands.  The node is deterministic up to the      *)
(* error class where the property does not fix it: an error reply carries the SET of      *)
(* fitting classes.                                                                       *)
EXTENDS Integers, Sequences, FiniteSets, TLC

(* ------------------------------------------------------------------------------------ *)
(* abstract JSON payloads and internal values (tagged records; numbers are small integer *)
(* ticks or order ranks; eps = n plus a tiny amount inside the float tolerance,          *)
(* frac = n + 1/2; strings are interned ids with the two facts the datainfo talks about) *)
Num(n)  == [k |-> "num", n |-> n]
Eps(n)  == [k |-> "eps", n |-> n]
Frac(n) == [k |-> "frac", n |-> n]
\* b64: number of bytes the text denotes as base64, -1 if it is no valid base64 text
Str(s, len, ascii, b64) == [k |-> "str", s |-> s, len |-> len, ascii |-> ascii, b64 |-> b64]
Bool(b) == [k |-> "bool", b |-> b]
\* the non-finite numbers a JSON decoder may hand over: the tokens NaN, Infinity, -Infinity and a literal
\* like 1e999 ("huge", which becomes +infinity).  They are numbers by kind and members of no value set.
\* integers beyond 2^53 (where a detour through a float loses the last bits): symbolic atoms, Big(i) stands for the
\* i-th entry of gamma's table 0, 1, 5, 2^53-1, 2^53, 2^53+1, 2^53+3, 2^55-1, 2^55, 2^55+1, 2^55+3, 2^56, 2^56+1
\* (order preserving; an int datainfo with the field "big" has its lo / hi in these indices)
Big(i) == [k |-> "big", n |-> i]
IsInt(p) == p.k \in {"num", "big"}
Special(s) == [k |-> "special", s |-> s]
Specials == {Special("nan"), Special("pinf"), Special("ninf"), Special("huge")}
Null    == [k |-> "null"]                 \* no payload on the request line
JNull   == [k |-> "jnull"]                \* the JSON token null as payload: the same as none
FZero   == [k |-> "fzero"]                \* the JSON number 0.0 (only offered where no number is expected)
IsNull(p) == p.k \in {"null", "jnull"}
List(xs) == [k |-> "list", xs |-> xs]
Obj(kv) == [k |-> "obj", kv |-> kv]        \* kv: sequence of [key |-> name, val |-> payload]
KV(key, val) == [key |-> key, val |-> val]

IsNumber(p) == p.k \in {"num", "eps", "frac"}
Key(p) == 4 * p.n + (CASE p.k \in {"num", "big"} -> 0 [] p.k = "eps" -> 1 [] p.k = "frac" -> 2)   \* order of numbers

SeqSet(s) == {s[i] : i \in 1 .. Len(s)}
InSeq(x, s) == \E i \in 1 .. Len(s) : s[i] = x
RECURSIVE MkSeq(_, _)                     \* <<f[1], ..., f[n]>> as a proper sequence
MkSeq(f, n) == IF n = 0 THEN <<>> ELSE Append(MkSeq(f, n - 1), f[n])

(* results *)
Ok(v)  == [ok |-> TRUE, v |-> v]
Bad(c) == [ok |-> FALSE, cls |-> c]
WT == {"WrongType"}
RE == {"RangeError"}
BV == WT \cup RE                          \* the property does not say which bad-value class

(* ------------------------------------------------------------------------------------ *)
(* datainfo:  [t |-> "double"|"int", lo, hi]  [t |-> "enum", mem |-> <<[name, val]>>]    *)
(*  [t |-> "string", minc, maxc, utf8]  [t |-> "bool"]  [t |-> "array", el, minlen,      *)
(*  maxlen]  [t |-> "tuple", els]  [t |-> "struct", mem |-> <<[name, dt]>>, opt |-> <<>>] *)
(*  [t |-> "scaled", lo, hi] (lo, hi and the abstract values are the transported integers)  *)
(*  [t |-> "blob", minb, maxb]  [t |-> "limits", el] (an ordered pair, <p>_limits)          *)
(*  [t |-> "other"] (not modelled: every outcome allowed)                                 *)

MemberNames(dt) == {dt.mem[i].name : i \in 1 .. Len(dt.mem)}
MemberDt(dt, name) == (CHOOSE i \in 1 .. Len(dt.mem) : dt.mem[i].name = name)
Keys(p) == {p.kv[i].key : i \in 1 .. Len(p.kv)}
ValOf(p, key) == p.kv[CHOOSE i \in 1 .. Len(p.kv) : p.kv[i].key = key].val
HasKey(p, key) == p.k = "obj" /\ key \in Keys(p)

(* Validate(dt, p, prev): what import + validation of JSON payload p against datainfo dt *)
(* must yield when the current value is prev (Null when there is none): the internal     *)
(* value, or the set of fitting error classes.                                           *)
NoLimit == 1000000        \* alpha's stand-in for "no min / max in the datainfo" (+-sys.float_info.max)
RECURSIVE Validate(_, _, _)
Validate(dt, p, prev) ==
  CASE dt.t = "double" ->
         IF p.k = "special"                                 \* not a number / not finite: refused ...
         THEN (IF p.s \in {"pinf", "huge"} /\ dt.hi >= NoLimit THEN Ok(Num(dt.hi))      \* ... except that a double WITHOUT
               ELSE IF p.s = "ninf" /\ dt.lo <= -NoLimit THEN Ok(Num(dt.lo))            \* limit maps +-infinity to its
               ELSE Bad(BV))                                                           \* largest number (documented)
         ELSE IF ~IsNumber(p) THEN Bad(WT)
         ELSE IF 4 * dt.lo <= Key(p) /\ Key(p) <= 4 * dt.hi THEN Ok(p)
         ELSE IF p = Eps(dt.hi) THEN Ok(Num(dt.hi))        \* inside the tolerance: clamped
         ELSE Bad(RE)
    [] dt.t \in {"int", "scaled"} ->
         IF IsInt(p) THEN (IF dt.lo <= p.n /\ p.n <= dt.hi THEN Ok(p) ELSE Bad(RE))     \* exactly the integer offered
         ELSE IF IsNumber(p) THEN Bad(BV)                   \* a fraction is no integer
         ELSE Bad(WT)
    [] dt.t = "enum" ->
         IF p.k = "num" THEN
              (IF \E i \in 1 .. Len(dt.mem) : dt.mem[i].val = p.n THEN Ok(p) ELSE Bad(BV))
         ELSE IF p.k = "str" THEN
              (IF \E i \in 1 .. Len(dt.mem) : dt.mem[i].name = p.s
               THEN Ok(Num(dt.mem[CHOOSE i \in 1 .. Len(dt.mem) : dt.mem[i].name = p.s].val))
               ELSE Bad(BV))
         ELSE IF IsNumber(p) THEN Bad(BV)
         ELSE Bad(WT)
    [] dt.t = "string" ->
         IF p.k # "str" THEN Bad(WT)
         ELSE IF p.len < dt.minc \/ p.len > dt.maxc THEN Bad(RE)
         ELSE IF ~dt.utf8 /\ ~p.ascii THEN Bad(BV)
         ELSE Ok(p)
    [] dt.t = "bool" ->
         IF p.k = "bool" THEN Ok(p) ELSE Bad(BV)
    [] dt.t = "blob" ->
         IF p.k # "str" THEN Bad(WT)
         ELSE IF p.b64 < 0 THEN Bad(BV)                     \* no base64 text
         ELSE IF p.b64 < dt.minb \/ p.b64 > dt.maxb THEN Bad(RE)
         ELSE Ok(p)
    [] dt.t = "limits" ->
         IF p.k # "list" THEN Bad(WT)
         ELSE IF Len(p.xs) # 2 THEN Bad(BV)
         ELSE LET r1 == Validate(dt.el, p.xs[1], Null)
                  r2 == Validate(dt.el, p.xs[2], Null)
                  errs == (IF r1.ok THEN {} ELSE r1.cls) \cup (IF r2.ok THEN {} ELSE r2.cls)
              IN IF errs # {} THEN Bad(errs)
                 ELSE IF Key(r2.v) < Key(r1.v) THEN Bad(RE)  \* an inverted pair is no limit
                 ELSE Ok(List(<<r1.v, r2.v>>))
    [] dt.t = "array" ->
         IF p.k # "list" THEN Bad(WT)
         ELSE LET n == Len(p.xs)
                  rs == [i \in 1 .. n |-> Validate(dt.el, p.xs[i], Null)]
                  errs == UNION {rs[i].cls : i \in {j \in 1 .. n : ~rs[j].ok}}
                          \cup (IF n < dt.minlen \/ n > dt.maxlen THEN RE ELSE {})
              IN IF errs = {} THEN Ok(List(MkSeq([i \in 1 .. n |-> rs[i].v], n))) ELSE Bad(errs)
    [] dt.t = "tuple" ->
         IF p.k # "list" THEN Bad(WT)
         ELSE IF Len(p.xs) # Len(dt.els) THEN Bad(BV)
         ELSE LET n == Len(p.xs)
                  rs == [i \in 1 .. n |-> Validate(dt.els[i], p.xs[i], Null)]
                  errs == UNION {rs[i].cls : i \in {j \in 1 .. n : ~rs[j].ok}}
              IN IF errs = {} THEN Ok(List(MkSeq([i \in 1 .. n |-> rs[i].v], n))) ELSE Bad(errs)
    [] dt.t = "struct" ->
         IF p.k # "obj" THEN Bad(WT)
         ELSE LET names == MemberNames(dt)
                  given == Keys(p) \cap names
                  rs == [key \in given |-> Validate(dt.mem[MemberDt(dt, key)].dt, ValOf(p, key), Null)]
                  errs == UNION {rs[key].cls : key \in {x \in given : ~rs[x].ok}}
                          \cup (IF Keys(p) \ names # {} THEN BV ELSE {})                  \* superfluous member
                          \cup (IF (names \ SeqSet(dt.opt)) \ Keys(p) # {} THEN BV ELSE {}) \* mandatory member missing
                  \* the result: members in datainfo order; given ones validated, the others
                  \* taken over from the current value (partial struct merged)
                  has(name) == name \in given \/ HasKey(prev, name)
                  val(name) == IF name \in given THEN rs[name].v ELSE ValOf(prev, name)
                  idx == {i \in 1 .. Len(dt.mem) : has(dt.mem[i].name)}
                  RECURSIVE Build(_)
                  Build(i) == IF i = 0 THEN <<>>
                              ELSE IF i \in idx THEN Append(Build(i - 1), KV(dt.mem[i].name, val(dt.mem[i].name)))
                              ELSE Build(i - 1)
              IN IF errs = {} THEN Ok(Obj(Build(Len(dt.mem)))) ELSE Bad(errs)
    [] OTHER -> Bad({})                   \* "other": not decided here (callers test dt.t first)

(* independent statement of "value v is a member of the value set the datainfo describes" *)
RECURSIVE InDatainfo(_, _)
InDatainfo(dt, v) ==
  CASE dt.t = "double" -> IsNumber(v) /\ 4 * dt.lo <= Key(v) /\ Key(v) <= 4 * dt.hi
    [] dt.t \in {"int", "scaled"} -> IsInt(v) /\ dt.lo <= v.n /\ v.n <= dt.hi
    [] dt.t = "blob"   -> v.k = "str" /\ v.b64 >= dt.minb /\ v.b64 <= dt.maxb
    [] dt.t = "limits" -> v.k = "list" /\ Len(v.xs) = 2 /\ InDatainfo(dt.el, v.xs[1]) /\ InDatainfo(dt.el, v.xs[2])
                          /\ Key(v.xs[1]) <= Key(v.xs[2])
    [] dt.t = "enum"   -> v.k = "num" /\ v.n \in {dt.mem[i].val : i \in 1 .. Len(dt.mem)}
    [] dt.t = "string" -> v.k = "str" /\ dt.minc <= v.len /\ v.len <= dt.maxc /\ (dt.utf8 \/ v.ascii)
    [] dt.t = "bool"   -> v.k = "bool"
    [] dt.t = "array"  -> v.k = "list" /\ dt.minlen <= Len(v.xs) /\ Len(v.xs) <= dt.maxlen
                          /\ \A i \in 1 .. Len(v.xs) : InDatainfo(dt.el, v.xs[i])
    [] dt.t = "tuple"  -> v.k = "list" /\ Len(v.xs) = Len(dt.els)
                          /\ \A i \in 1 .. Len(v.xs) : InDatainfo(dt.els[i], v.xs[i])
    [] dt.t = "struct" -> v.k = "obj" /\ Keys(v) \subseteq MemberNames(dt)
                          /\ (MemberNames(dt) \ SeqSet(dt.opt)) \subseteq Keys(v)
                          /\ \A key \in Keys(v) : InDatainfo(dt.mem[MemberDt(dt, key)].dt, ValOf(v, key))
    [] OTHER -> TRUE

(* "internal value v is what payload p denotes" (never a shorter / longer container, never *)
(* a different number; enum names denote their code; omitted members come from prev)       *)
RECURSIVE Denotes(_, _, _, _)
Denotes(dt, p, prev, v) ==
  CASE dt.t \in {"double", "int", "scaled"} -> v = p \/ (dt.t = "double" /\ p = Eps(dt.hi) /\ v = Num(dt.hi))
    [] dt.t = "enum" -> v = p \/ (p.k = "str" /\ \E i \in 1 .. Len(dt.mem) : dt.mem[i].name = p.s /\ v = Num(dt.mem[i].val))
    [] dt.t \in {"string", "bool", "blob"} -> v = p
    [] dt.t = "limits" -> p.k = "list" /\ v.k = "list" /\ Len(v.xs) = 2 /\ Len(p.xs) = 2
                          /\ \A i \in 1 .. 2 : Denotes(dt.el, p.xs[i], Null, v.xs[i])
    [] dt.t = "array" -> p.k = "list" /\ v.k = "list" /\ Len(v.xs) = Len(p.xs)
                         /\ \A i \in 1 .. Len(p.xs) : Denotes(dt.el, p.xs[i], Null, v.xs[i])
    [] dt.t = "tuple" -> p.k = "list" /\ v.k = "list" /\ Len(v.xs) = Len(p.xs) /\ Len(p.xs) = Len(dt.els)
                         /\ \A i \in 1 .. Len(p.xs) : Denotes(dt.els[i], p.xs[i], Null, v.xs[i])
    [] dt.t = "struct" -> p.k = "obj" /\ v.k = "obj"
                          /\ \A key \in Keys(v) :
                               IF key \in Keys(p) THEN Denotes(dt.mem[MemberDt(dt, key)].dt, ValOf(p, key), Null, ValOf(v, key))
                               ELSE HasKey(prev, key) /\ ValOf(prev, key) = ValOf(v, key)
                          /\ Keys(p) \subseteq Keys(v)
    [] OTHER -> TRUE

(* ------------------------------------------------------------------------------------ *)
(* module shape.  shape[m][a] for module name m (exported modules only) and attribute    *)
(* name a:                                                                               *)
(*   parameter: [kind |-> "param", wire, dt, ro, const (value or Null), init,            *)
(*               lim |-> [kind |-> "none"] | [kind |-> "minmax", lo, hi (attribute names *)
(*               or "")] | [kind |-> "limits", both], hooks |-> <<hook>> (MRO order),    *)
(*               drv |-> "absent"|"none"|"same"|"fixed"|"raise", ret,                    *)
(*               rd |-> "absent"|"fixed" (a read function that returns rret), rret]      *)
(*   hook: [at |-> "LIMIT"] (the automatic limit check, at the class defining the limit  *)
(*         parameters) or [at |-> class, raise |-> <<values>>, stop |-> <<values>>]       *)
(*   command:   [kind |-> "cmd", wire, arg (datainfo or [t |-> "none"]), ret (value or Null)] *)
(* wire = "" : not exported.                                                              *)
VARIABLES shape,     \* constant after Init
          cache,     \* cache[m][a]: current value of every parameter
          rerr,      \* rerr[m][a]: the parameter is in the read-error state (its last read delivered no value)
          last       \* outcome of the last request:
                     \*   [req, reply, calls, hookarg, upd, hassnap, snap, err, errm, erra]
vars == <<shape, cache, rerr, last>>

NoDt == [t |-> "none"]
IsParam(m, a) == shape[m][a].kind = "param"
Params(m) == {a \in DOMAIN shape[m] : IsParam(m, a)}       \* (the cache of a constant holds the constant)

AccClass(act) == IF act = "do" THEN "NoSuchCommand" ELSE "NoSuchParameter"
Wanted(act) == IF act = "do" THEN "cmd" ELSE "param"

(* a specifier that names only the module ("change m 5", "read m") addresses the module's *)
(* main accessible: target for change, value for read (req.name = "")                      *)
WireOf(req) == IF req.name # "" THEN req.name ELSE IF req.act = "change" THEN "target" ELSE "value"

(* exported-name lookup: only wire names of exported accessibles of exported modules exist *)
Target(req) ==
  IF req.mod \notin DOMAIN shape THEN Bad({"NoSuchModule", AccClass(req.act)})
  ELSE LET as == {a \in DOMAIN shape[req.mod] : shape[req.mod][a].wire = WireOf(req)}
       IN IF as = {} THEN Bad({AccClass(req.act)})
          ELSE LET a == CHOOSE x \in as : TRUE
               IN IF shape[req.mod][a].kind # Wanted(req.act) THEN Bad({AccClass(req.act)}) ELSE Ok(a)

(* current dynamic limits of a parameter: <<lo, hi>> with Null for "no bound" *)
Limits(c, m, acc) ==
  CASE acc.lim.kind = "minmax" -> <<IF acc.lim.lo = "" THEN Null ELSE c[m][acc.lim.lo],
                                    IF acc.lim.hi = "" THEN Null ELSE c[m][acc.lim.hi]>>
    [] acc.lim.kind = "limits" -> <<c[m][acc.lim.both].xs[1], c[m][acc.lim.both].xs[2]>>
    [] OTHER -> <<Null, Null>>
InLimits(v, lim) ==
  /\ lim[1] = Null \/ Key(lim[1]) <= Key(v)
  /\ lim[2] = Null \/ Key(v) <= Key(lim[2])

(* the check chain: hooks in MRO order; a hook that raises refuses the value, a hook that *)
(* returns true ends the chain (including the automatic limit check further down)          *)
RECURSIVE Chain(_, _, _, _)
Chain(hooks, i, v, lim) ==
  IF i > Len(hooks) THEN "pass"
  ELSE LET h == hooks[i] IN
       IF h.at = "LIMIT" THEN (IF InLimits(v, lim) THEN Chain(hooks, i + 1, v, lim) ELSE "raise")
       ELSE IF InSeq(v, h.raise) THEN "raise"
       ELSE IF InSeq(v, h.stop) THEN "pass"
       ELSE Chain(hooks, i + 1, v, lim)

NoCalls == <<>>
Call(op, fn, arg) == [op |-> op, fn |-> fn, arg |-> arg]     \* op: "write" | "cmd" | "read"
\* upd: the update a change / read may announce (Null: none); snap: the SET of snapshot updates an activate
\* delivers (hassnap: the request is a served activate)
\* err: what happens to the read-error state of parameter errm:erra ("keep" | "set" | "clear")
Outcome(req, reply, calls, hookarg, upd) ==
  [req |-> req, reply |-> reply, calls |-> calls, hookarg |-> hookarg, upd |-> upd, hassnap |-> FALSE, snap |-> {},
   err |-> "keep", errm |-> "", erra |-> ""]
ErrVal == [k |-> "err"]        \* what an update carries instead of a value for a parameter in the read-error state
WithErr(out, op, m, a) == [out EXCEPT !.err = op, !.errm = m, !.erra = a]

(* Converts(dt, v): a value v delivered by the hardware (a read function) can be taken as a value of datainfo dt *)
(* - right kind, a member of the enum, lengths inside the described bounds; the numeric range is not judged      *)
(* here.  What does not convert is a read error, never a value in a reply, an update or a snapshot.              *)
RECURSIVE Converts(_, _)
Converts(dt, v) ==
  CASE dt.t = "double" -> IsNumber(v)
    [] dt.t \in {"int", "scaled"} -> IsInt(v)
    [] dt.t = "enum"   -> v.k = "num" /\ \E i \in 1 .. Len(dt.mem) : dt.mem[i].val = v.n
    [] dt.t = "string" -> v.k = "str" /\ dt.minc <= v.len /\ v.len <= dt.maxc /\ (dt.utf8 \/ v.ascii)
    [] dt.t = "bool"   -> v.k = "bool"
    [] dt.t = "blob"   -> v.k = "str" /\ v.b64 >= dt.minb /\ v.b64 <= dt.maxb
    [] dt.t = "array"  -> v.k = "list" /\ dt.minlen <= Len(v.xs) /\ Len(v.xs) <= dt.maxlen
                          /\ \A i \in 1 .. Len(v.xs) : Converts(dt.el, v.xs[i])
    [] dt.t = "tuple"  -> v.k = "list" /\ Len(v.xs) = Len(dt.els) /\ \A i \in 1 .. Len(v.xs) : Converts(dt.els[i], v.xs[i])
    [] dt.t = "limits" -> v.k = "list" /\ Len(v.xs) = 2 /\ \A i \in 1 .. 2 : Converts(dt.el, v.xs[i])
    [] dt.t = "struct" -> v.k = "obj" /\ Keys(v) = MemberNames(dt)
                          /\ \A key \in Keys(v) : Converts(dt.mem[MemberDt(dt, key)].dt, ValOf(v, key))
    [] OTHER -> TRUE
Refused(req, classes) == Outcome(req, Bad(classes), NoCalls, Null, Null)
Res(out, c) == [out |-> out, cache |-> c]

(* Result(c, req): outcome and next cache of request req when the cache is c *)

(* ---- change ---- *)
ChangeRes(c, req) ==
  LET tg == Target(req) IN
  IF ~tg.ok THEN Res(Refused(req, tg.cls), c)
  ELSE LET m == req.mod
           a == tg.v
           acc == shape[m][a]
       IN IF acc.const # Null \/ acc.ro THEN Res(Refused(req, {"ReadOnly"}), c)
          ELSE LET r == Validate(acc.dt, req.payload, c[m][a]) IN
               IF ~r.ok THEN Res(Refused(req, r.cls), c)
               ELSE IF Chain(acc.hooks, 1, r.v, Limits(c, m, acc)) = "raise"
                    THEN \* hooks may have been called, each with the validated value; nothing else happened
                         Res(Outcome(req, Bad(RE), NoCalls, r.v, Null), c)
               ELSE IF acc.drv = "raise"
                    THEN \* the hardware refuses: the driver was called (once, with the validated value) and the
                         \* client learns the driver's error; nothing is cached, nothing announced
                         Res(Outcome(req, Bad({"HardwareError"}), <<Call("write", a, r.v)>>, r.v, Null), c)
               ELSE LET new == IF acc.drv = "fixed" THEN acc.ret ELSE r.v
                        calls == IF acc.drv = "absent" THEN NoCalls ELSE <<Call("write", a, r.v)>>
                    IN Res(WithErr(Outcome(req, Ok(new), calls, r.v, [mod |-> m, name |-> acc.wire, v |-> new]), "clear", m, a),
                           [c EXCEPT ![m][a] = new])

(* ---- do ---- *)
DoRes(c, req) ==
  LET tg == Target(req) IN
  IF ~tg.ok THEN Res(Refused(req, tg.cls), c)
  ELSE LET a == tg.v
           acc == shape[req.mod][a]
       IN IF acc.arg = NoDt     \* datainfo {"type": "command"}: only "no payload" is valid - not 0, 0.0, false, "", [], {}
          THEN IF ~IsNull(req.payload) THEN Res(Refused(req, WT), c)
               ELSE Res(Outcome(req, Ok(acc.ret), <<Call("cmd", a, Null)>>, Null, Null), c)
          ELSE IF IsNull(req.payload) THEN Res(Refused(req, WT), c)
               ELSE LET r == Validate(acc.arg, req.payload, Null) IN
                    IF ~r.ok THEN Res(Refused(req, r.cls), c)
                    ELSE Res(Outcome(req, Ok(acc.ret), <<Call("cmd", a, r.v)>>, Null, Null), c)

(* ---- read ---- a constant reads as its constant; a parameter without read function     *)
(* reads as the cache; a read function is called once, what it returns is cached,          *)
(* announced and replied - if it converts to the parameter's (final, configured) datainfo. *)
(* Otherwise the read fails: error reply, the cached value stays, the parameter enters the  *)
(* read-error state and an error update is announced - the value itself is never emitted.   *)
ReadRes(c, req) ==
  LET tg == Target(req) IN
  IF ~tg.ok THEN Res(Refused(req, tg.cls), c)
  ELSE LET m == req.mod
           a == tg.v
           acc == shape[m][a]
       IN IF acc.const # Null THEN Res(Outcome(req, Ok(acc.const), NoCalls, Null, Null), c)
          ELSE IF acc.rd = "fixed" /\ ~Converts(acc.dt, acc.rret)
               THEN Res(WithErr(Outcome(req, Bad(BV), <<Call("read", a, Null)>>, Null, [mod |-> m, name |-> acc.wire, v |-> ErrVal]),
                                "set", m, a), c)
          ELSE IF acc.rd = "fixed"
               THEN Res(WithErr(Outcome(req, Ok(acc.rret), <<Call("read", a, Null)>>, Null,
                                        [mod |-> m, name |-> acc.wire, v |-> acc.rret]), "clear", m, a),
                        [c EXCEPT ![m][a] = acc.rret])
          ELSE Res(Outcome(req, Ok(c[m][a]), NoCalls, Null, Null), c)

(* ---- activate ---- of a module (req.name = "") or of one parameter: the connection gets   *)
(* a snapshot update for every exported parameter concerned, carrying the cached value - for  *)
(* a constant that is the constant, whatever default, configured value or read function the   *)
(* parameter may have.  (Subscribing a command is not in the alphabet.)                        *)
ActivateRes(c, re, req) ==
  IF req.mod \notin DOMAIN shape THEN Res(Refused(req, {"NoSuchModule"}), c)
  ELSE LET accs == shape[req.mod]
           exported == {a \in DOMAIN accs : accs[a].kind = "param" /\ accs[a].wire # ""}
           sel == IF req.name = "" THEN exported ELSE {a \in exported : accs[a].wire = req.name}
       IN IF sel = {} /\ req.name # "" THEN Res(Refused(req, {"NoSuchParameter"}), c)
          ELSE Res([Outcome(req, Ok(Null), NoCalls, Null, Null)
                    EXCEPT !.hassnap = TRUE,
                           !.snap = {[mod |-> req.mod, name |-> accs[a].wire,
                                      v |-> IF re[req.mod][a] THEN ErrVal ELSE c[req.mod][a]] : a \in sel}], c)

Result(c, re, req) ==
  LET r == CASE req.act = "change" -> ChangeRes(c, req)
             [] req.act = "do"     -> DoRes(c, req)
             [] req.act = "read"   -> ReadRes(c, req)
             [] req.act = "activate" -> ActivateRes(c, re, req)
  IN [out |-> r.out, cache |-> r.cache,
      rerr |-> IF r.out.err = "keep" THEN re ELSE [re EXCEPT ![r.out.errm][r.out.erra] = (r.out.err = "set")]]

Step(req) ==
  /\ UNCHANGED shape
  /\ last' = Result(cache, rerr, req).out
  /\ cache' = Result(cache, rerr, req).cache
  /\ rerr' = Result(cache, rerr, req).rerr

\* the cache of a constant holds the constant from the beginning (not its default, not an error)
InitCache(sh) == [m \in DOMAIN sh |-> [a \in {x \in DOMAIN sh[m] : sh[m][x].kind = "param"}
                                        |-> IF sh[m][a].const # Null THEN sh[m][a].const ELSE sh[m][a].init]]
InitErr(sh) == [m \in DOMAIN sh |-> [a \in {x \in DOMAIN sh[m] : sh[m][x].kind = "param"} |-> FALSE]]
NoReq == [act |-> "none"]
InitWith(sh) == /\ shape = sh
                /\ cache = InitCache(sh)
                /\ rerr = InitErr(sh)
                /\ last = Outcome(NoReq, Ok(Null), NoCalls, Null, Null)

(* ------------------------------------------------------------------------------------ *)
(* the property, stated on one step (pre-state unprimed, outcome primed)                 *)

ReqParam(req) == \* the addressed parameter exists and is exported
  /\ req.mod \in DOMAIN shape
  /\ \E a \in DOMAIN shape[req.mod] : shape[req.mod][a].wire = WireOf(req) /\ shape[req.mod][a].kind = "param"
AccOf(req) == shape[req.mod][CHOOSE a \in DOMAIN shape[req.mod] : shape[req.mod][a].wire = WireOf(req)]
AttrOf(req) == CHOOSE a \in DOMAIN shape[req.mod] : shape[req.mod][a].wire = WireOf(req)

(* hooks that the value has to get past: none of the hooks before the first stopping one raises *)
HooksAccept(acc, v, lim) ==
  \A i \in 1 .. Len(acc.hooks) :
     (\A j \in 1 .. i - 1 : acc.hooks[j].at = "LIMIT" \/ ~InSeq(v, acc.hooks[j].stop))
       => IF acc.hooks[i].at = "LIMIT" THEN InLimits(v, lim) ELSE ~InSeq(v, acc.hooks[i].raise)

(* C04, first sentence: the driver is invoked only if everything holds, then exactly once *)
(* and with exactly the validated value                                                   *)
DriverOnlyIfAllowed ==
  [][ (last'.calls # NoCalls /\ ~(last'.req.act = "read" /\ last'.calls = <<Call("read", last'.calls[1].fn, Null)>>)) =>
        LET req == last'.req IN
        /\ Len(last'.calls) = 1
        /\ req.act \in {"change", "do"}
        /\ last'.calls[1].op = (IF req.act = "change" THEN "write" ELSE "cmd")
        /\ req.mod \in DOMAIN shape
        /\ \E a \in DOMAIN shape[req.mod] :
             LET acc == shape[req.mod][a] IN
             /\ acc.wire = WireOf(req) /\ acc.wire # ""
             /\ last'.calls[1].fn = a
             /\ IF req.act = "change"
                THEN /\ acc.kind = "param" /\ ~acc.ro /\ acc.const = Null
                     /\ InDatainfo(acc.dt, last'.calls[1].arg)
                     /\ Denotes(acc.dt, req.payload, cache[req.mod][a], last'.calls[1].arg)
                     /\ HooksAccept(acc, last'.calls[1].arg, Limits(cache, req.mod, acc))
                ELSE /\ acc.kind = "cmd"
                     /\ IF acc.arg = NoDt THEN IsNull(req.payload) /\ last'.calls[1].arg = Null
                        ELSE /\ InDatainfo(acc.arg, last'.calls[1].arg)
                             /\ Denotes(acc.arg, req.payload, Null, last'.calls[1].arg)
    ]_vars

(* second sentence: in every other case an error report of the fitting class, cache and   *)
(* hardware untouched, no update                                                          *)
Fitting(req) ==
  IF req.mod \notin DOMAIN shape THEN {"NoSuchModule", "NoSuchParameter", "NoSuchCommand"}
  ELSE IF ~\E a \in DOMAIN shape[req.mod] : shape[req.mod][a].wire = WireOf(req) /\ shape[req.mod][a].wire # ""
                                           /\ shape[req.mod][a].kind = Wanted(req.act)
       THEN {"NoSuchParameter", "NoSuchCommand"}
  ELSE IF req.act = "change" /\ (AccOf(req).ro \/ AccOf(req).const # Null) THEN {"ReadOnly"}
  ELSE BV
DriverFails(req) == req.act = "change" /\ ReqParam(req) /\ AccOf(req).drv = "raise"
ReadFails(req) == req.act = "read" /\ ReqParam(req) /\ AccOf(req).const = Null /\ AccOf(req).rd = "fixed"
                  /\ ~Converts(AccOf(req).dt, AccOf(req).rret)
ErrorLeavesNoTrace ==
  [][ ~last'.reply.ok =>
        /\ cache' = cache
        /\ last'.upd = Null \/ (ReadFails(last'.req) /\ last'.upd.v = ErrVal)
        /\ ReadFails(last'.req) \/ rerr' = rerr
        /\ \/ last'.calls = NoCalls
           \/ DriverFails(last'.req) /\ Len(last'.calls) = 1 /\ last'.reply.cls = {"HardwareError"}
           \/ ReadFails(last'.req) /\ last'.calls = <<Call("read", AttrOf(last'.req), Null)>>
        /\ last'.reply.cls # {}
        /\ last'.calls = NoCalls => last'.reply.cls \subseteq Fitting(last'.req)
    ]_vars

(* a request that satisfies every precondition is not refused *)
ValidIsServed ==
  [][ LET req == last'.req IN
      (req.act = "change" /\ ReqParam(req) /\ ~AccOf(req).ro /\ AccOf(req).const = Null /\ AccOf(req).drv # "raise"
          /\ Validate(AccOf(req).dt, req.payload, cache[req.mod][AttrOf(req)]).ok
          /\ HooksAccept(AccOf(req), Validate(AccOf(req).dt, req.payload, cache[req.mod][AttrOf(req)]).v,
                         Limits(cache, req.mod, AccOf(req))))
        => /\ last'.reply.ok
           /\ (AccOf(req).drv # "absent" => Len(last'.calls) = 1)
           /\ cache'[req.mod][AttrOf(req)] = last'.reply.v
    ]_vars

(* the cache always holds members of the described value sets; only the addressed parameter moves *)
CacheInDatainfo == \A m \in DOMAIN shape : \A a \in Params(m) : InDatainfo(shape[m][a].dt, cache[m][a])
(* C06's side of the coin: whatever is emitted for a parameter - read / change reply, update, snapshot - converts  *)
(* to its datainfo (or is the error marker); in particular not a hardware value that only fits the CLASS datatype  *)
EmittedConverts ==
  LET dtof(m, w) == shape[m][CHOOSE a \in DOMAIN shape[m] : shape[m][a].wire = w /\ shape[m][a].kind = "param"].dt
      ok(m, w, v) == v = ErrVal \/ Converts(dtof(m, w), v)
  IN /\ (last.req.act \in {"read", "change"} /\ last.reply.ok) => ok(last.req.mod, WireOf(last.req), last.reply.v)
     /\ last.upd # Null => ok(last.upd.mod, last.upd.name, last.upd.v)
     /\ \A u \in last.snap : ok(u.mod, u.name, u.v)
(* a constant is never anything else: in the cache, in a read reply, in a snapshot update *)
ConstantsHold ==
  /\ \A m \in DOMAIN shape : \A a \in Params(m) : shape[m][a].const # Null => cache[m][a] = shape[m][a].const
  /\ (last.req.act = "read" /\ last.reply.ok /\ AccOf(last.req).const # Null) => last.reply.v = AccOf(last.req).const
  /\ \A u \in last.snap : \A a \in DOMAIN shape[u.mod] :
        (shape[u.mod][a].wire = u.name /\ shape[u.mod][a].kind = "param" /\ shape[u.mod][a].const # Null)
           => u.v = shape[u.mod][a].const
Frame ==
  [][ \A m \in DOMAIN shape : \A a \in Params(m) :
        cache'[m][a] # cache[m][a] => /\ last'.req.act \in {"change", "read"} /\ last'.req.mod = m
                                       /\ shape[m][a].wire = WireOf(last'.req)
                                       /\ last'.req.act = "read" => shape[m][a].rd # "absent"
    ]_vars

(* ------------------------------------------------------------------------------------ *)
(* the family of shapes and requests the checks enumerate                                *)

DTf == [t |-> "double", lo |-> 0, hi |-> 8]
DTi == [t |-> "int", lo |-> 0, hi |-> 8]
DTe == [t |-> "enum", mem |-> <<[name |-> "a", val |-> 1], [name |-> "b", val |-> 2], [name |-> "c", val |-> 5]>>]
DTs == [t |-> "string", minc |-> 0, maxc |-> 3, utf8 |-> FALSE]
DTst == [t |-> "struct", mem |-> <<[name |-> "x", dt |-> DTf], [name |-> "y", dt |-> DTi]>>, opt |-> <<"y">>]
DTa == [t |-> "array", el |-> DTi, minlen |-> 0, maxlen |-> 3]
DTad == [t |-> "array", el |-> DTf, minlen |-> 0, maxlen |-> 2]       \* float-carrying elements
DTb == [t |-> "bool"]
DTsc == [t |-> "scaled", lo |-> 0, hi |-> 8]          \* gamma: ScaledInteger(0.5, 0, 4); values are the transported integers
DTbl == [t |-> "blob", minb |-> 1, maxb |-> 3]
DTname == [f |-> DTf, i |-> DTi, e |-> DTe, s |-> DTs, st |-> DTst, a |-> DTa, b |-> DTb, sc |-> DTsc, bl |-> DTbl,
           ad |-> DTad]
DTp(dt) == [t |-> "tuple", els |-> <<dt, dt>>]
DTl(dt) == [t |-> "limits", el |-> dt]

SAb == Str("ab", 2, TRUE, -1)
SXyz == Str("xyz", 3, TRUE, -1)
SLong == Str("toolong", 7, TRUE, -1)
SUni == Str("nonascii", 2, FALSE, -1)
SName(n) == Str(n, Len(n), TRUE, -1)
SB(n) == Str(<<"b64_0", "b64_1", "b64_2", "b64_3", "b64_4">>[n + 1], <<0, 4, 4, 4, 8>>[n + 1], TRUE, n)   \* base64 text of n bytes
St(x, y) == Obj(<<KV("x", x), KV("y", y)>>)
StX(x) == Obj(<<KV("x", x)>>)

(* payload catalogue of a datainfo: valid, at the limits, outside the datainfo range,    *)
(* inside the tolerance, wrong kind, partial / superfluous / missing struct members, ...  *)
BigCat == {Big(0), Big(3), Big(4), Big(5), Big(6), Big(8), Big(9), Big(10), Big(11), Big(12), SAb, Null}
BigLimCat == {Big(4), Big(8), Big(12), SAb}
Cat(dt) ==
  CASE "big" \in DOMAIN dt -> BigCat
    [] dt.t = "double" -> {Num(dt.lo - 1), Num(dt.lo), Num(3), Num(5), Num(dt.hi), Num(dt.hi + 1),
                           Eps(dt.hi), Frac(2), SAb, Null, List(<<Num(1)>>)} \cup Specials
    [] dt.t \in {"int", "scaled"} -> {Num(dt.lo - 1), Num(dt.lo), Num(3), Num(5), Num(dt.hi), Num(dt.hi + 1),
                        Frac(2), SAb, Null, List(<<Num(1)>>), Special("nan"), Special("pinf")}
    [] dt.t = "bool" -> {Bool(TRUE), Bool(FALSE), Num(3), SAb, Null, List(<<Bool(TRUE)>>)}
    [] dt.t = "blob" -> {SB(1), SB(2), SB(3), SB(0), SB(4), SAb, Num(1), Null, List(<<SB(2)>>)}
    [] dt.t = "limits" -> {List(<<Num(2), Num(5)>>), List(<<Num(0), Num(3)>>), List(<<Num(5), Num(2)>>), List(<<Num(2)>>),
                           Num(1), List(<<Num(2), Num(9)>>), List(<<Num(3), Num(3)>>),
                           List(<<Num(2), Special("nan")>>), List(<<Special("ninf"), Num(5)>>), List(<<Special("nan"), Special("nan")>>)}
    [] dt.t = "enum" -> {Num(1), Num(2), Num(3), SName("a"), SName("c"), SName("zz"), Null, List(<<Num(1)>>)}
    [] dt.t = "string" -> {SAb, SXyz, SLong, SUni, SB(0), Num(1), Null, List(<<SAb>>)}      \* SB(0): the empty string
    [] dt.t = "struct" -> {St(Num(3), Num(2)), St(Num(5), Num(4)), StX(Num(5)), StX(Num(0)),
                           Obj(<<KV("y", Num(4))>>), Obj(<<KV("x", Num(3)), KV("z", Num(1))>>),
                           St(Num(9), Num(2)), StX(SAb), St(Num(3), Frac(2)),
                           StX(Special("nan")), St(Special("pinf"), Num(2)), St(Num(3), Special("nan")),
                           Num(1), List(<<Num(1), Num(2)>>), SAb, Null, Obj(<<>>)}      \* {}: valid iff every member is optional
    [] dt.t = "array" -> {List(<<>>), List(<<Num(1)>>), List(<<Num(1), Num(2)>>), List(<<Num(2), Num(3), Num(4)>>),
                          List(<<Num(1), Num(2), Num(3), Num(4)>>), List(<<Num(9)>>), List(<<SAb>>),
                          List(<<Special("nan")>>), List(<<Num(1), Special("ninf")>>),
                          Num(1), SAb, Null, Obj(<<KV("x", Num(1))>>)}
    [] dt.t = "tuple" -> {List(<<Num(2), Num(5)>>), List(<<Num(0), Num(3)>>), List(<<Num(2)>>), Num(1),
                          List(<<Num(2), Num(9)>>), List(<<Special("nan"), Num(1)>>), List(<<Special("huge"), Num(5)>>)}
Short(dt) == \* two payloads for accessibles where the payload should not matter
  CASE dt.t = "double" -> {Num(3), SAb} [] dt.t \in {"int", "scaled"} -> {Num(3), SAb} [] dt.t = "enum" -> {Num(2), Null}
    [] dt.t = "bool" -> {Bool(TRUE), SAb} [] dt.t = "blob" -> {SB(2), Num(1)} [] dt.t = "limits" -> {List(<<Num(2), Num(5)>>)}
    [] dt.t = "string" -> {SAb, Num(1)} [] dt.t = "struct" -> {St(Num(3), Num(2)), Num(1)}
    [] dt.t = "array" -> {List(<<Num(1)>>), Num(1)} [] dt.t = "tuple" -> {List(<<Num(2), Num(5)>>)}
\* what may be offered to a command WITHOUT argument: nothing / null (valid) and the falsy and truthy JSON values
NoArgCat == {Null, JNull, Num(0), FZero, Bool(FALSE), SB(0), List(<<>>), Obj(<<>>),
             Num(1), SAb, List(<<Num(1)>>), Obj(<<KV("a", Num(1))>>)}
DTso == [t |-> "struct", mem |-> <<[name |-> "x", dt |-> DTf], [name |-> "y", dt |-> DTi]>>, opt |-> <<"x", "y">>]
LimCat == {Num(2), Num(5), Num(9), SAb, Special("nan"), Special("pinf"), Special("ninf")}

InitOf(dt) == CASE dt.t \in {"double", "int", "scaled"} -> Num(3) [] dt.t = "enum" -> Num(1) [] dt.t = "string" -> SAb
                [] dt.t = "bool" -> Bool(FALSE) [] dt.t = "blob" -> SB(2)
                [] dt.t = "struct" -> St(Num(3), Num(2)) [] dt.t = "array" -> List(<<Num(1)>>)
OtherOf(dt) == CASE dt.t \in {"double", "int", "scaled"} -> Num(5) [] dt.t = "enum" -> Num(2) [] dt.t = "string" -> SXyz
                [] dt.t = "bool" -> Bool(TRUE) [] dt.t = "blob" -> SB(3)
                [] dt.t = "struct" -> St(Num(5), Num(4)) [] dt.t = "array" -> List(<<Num(2), Num(3)>>)

NoLim == [kind |-> "none"]
Par(wire, dt, ro, const, lim, hooks, drv) ==
  [kind |-> "param", wire |-> wire, dt |-> dt, ro |-> ro, const |-> const, init |-> InitOf(dt),
   lim |-> lim, hooks |-> hooks, drv |-> drv, ret |-> OtherOf(dt), rd |-> "absent", rret |-> OtherOf(dt),
   islimit |-> FALSE, level |-> "X"]
\* level: the class of the hierarchy that defines the limit parameter(s) (only gamma reads it)
ParL(wire, dt, ro, const, lim, hooks, drv, lv) == [Par(wire, dt, ro, const, lim, hooks, drv) EXCEPT !.level = lv]
LimPar(wire, dt, init, lv) ==
  [kind |-> "param", wire |-> wire, dt |-> dt, ro |-> FALSE, const |-> Null, init |-> init,
   lim |-> NoLim, hooks |-> <<>>, drv |-> "absent", ret |-> Null, rd |-> "absent", rret |-> Null,
   islimit |-> TRUE, level |-> lv]
Cmd(wire, arg, ret) == [kind |-> "cmd", wire |-> wire, arg |-> arg, ret |-> ret]

(* A: access flags and export modes x datatype, commands with an argument of the datatype *)
ShapeA(d) == LET dt == DTname[d] IN
  [m |-> [pa |-> Par("_pa", dt, FALSE, Null, NoLim, <<>>, "none"),
          pc |-> Par("cust", dt, FALSE, Null, NoLim, <<>>, "same") @@ [short |-> TRUE],   \* (two payloads only)
          pr |-> Par("_pr", dt, TRUE, Null, NoLim, <<>>, "none"),
          \* (a constant whose transported form differs from the internal one has a shape of its own: K)
          pk |-> IF d \in {"sc", "bl"} THEN Par("_pk", dt, TRUE, Null, NoLim, <<>>, "none")
                 ELSE Par("_pk", dt, TRUE, OtherOf(dt), NoLim, <<>>, "none"),
          ph |-> Par("", dt, FALSE, Null, NoLim, <<>>, "none"),
          ca |-> Cmd("_ca", dt, Null),
          go |-> Cmd("go", NoDt, Null),
          ch |-> Cmd("", NoDt, Null),
          cr |-> Cmd("_cr", NoDt, Num(3))]]
(* B: driver scripts *)
ShapeB(d, drv) == [m |-> [pa |-> Par("_pa", DTname[d], FALSE, Null, NoLim, <<>>, drv)]]
(* C: dynamic limits and check hooks along the class hierarchy.  The generated classes are *)
(*   D(erived) - X (plain mixin) - M(iddle) - B(ase, defines the parameter)   (MRO order);   *)
(* hooks sit at D / M / B, the limit parameters at level lv \in {"X", "M", "D", "B"}:        *)
(*   X: plain mixin next to the hooked base        M, D: hooks in ancestors, limits in a     *)
(*   descendant      B: limits in the ancestor, hooks in descendants, or (h5) in the SAME    *)
(*   class as a hook (which then calls checkLimits itself, as documented).                   *)
(* The chain the property talks about is the same in every layout: hooks in MRO order, the   *)
(* limit check at the class of the limit parameters, a hook returning true ends the chain.   *)
HookSets == [h0 |-> <<[at |-> "LIMIT"]>>,
             h1 |-> <<[at |-> "D", raise |-> <<Num(5)>>, stop |-> <<>>], [at |-> "LIMIT"],
                      [at |-> "B", raise |-> <<Num(3)>>, stop |-> <<>>]>>,
             h2 |-> <<[at |-> "D", raise |-> <<>>, stop |-> <<Num(3), Num(8)>>], [at |-> "LIMIT"],
                      [at |-> "B", raise |-> <<Num(3), Num(0)>>, stop |-> <<>>]>>,
             \* limits in the most derived class: nothing further down can switch the limit check off
             h3 |-> <<[at |-> "LIMIT"], [at |-> "M", raise |-> <<Num(5)>>, stop |-> <<Num(3), Num(8)>>],
                      [at |-> "B", raise |-> <<Num(3), Num(0)>>, stop |-> <<>>]>>,
             \* limits in the base class, hooks in two descendants
             h4 |-> <<[at |-> "D", raise |-> <<Num(5)>>, stop |-> <<>>],
                      [at |-> "M", raise |-> <<>>, stop |-> <<Num(3), Num(8)>>], [at |-> "LIMIT"]>>,
             \* limits and a hook in the same (base) class
             h5 |-> <<[at |-> "D", raise |-> <<Num(5)>>, stop |-> <<>>],
                      [at |-> "B", raise |-> <<Num(3)>>, stop |-> <<Num(8)>>], [at |-> "LIMIT"]>>]
HooksFor == [X |-> {"h0", "h1", "h2"}, M |-> {"h0", "h1", "h2"}, D |-> {"h0", "h3"}, B |-> {"h0", "h4", "h5"}]
ShapeC(d, lk, h, drv, lv) == LET dt == DTname[d] IN
  IF lk = "minmax"
  THEN [m |-> [target |-> ParL("target", dt, FALSE, Null, [kind |-> "minmax", lo |-> "target_min", hi |-> "target_max"], HookSets[h], drv, lv),
               target_min |-> LimPar("target_min", dt, Num(dt.lo), lv),
               target_max |-> LimPar("target_max", dt, Num(dt.hi), lv)]]
  ELSE IF lk = "limits"
  THEN [m |-> [pa |-> ParL("_pa", dt, FALSE, Null, [kind |-> "limits", both |-> "pa_limits"], HookSets[h], drv, lv),
               pa_limits |-> LimPar("_pa_limits", DTl(dt), List(<<Num(dt.lo), Num(dt.hi)>>), lv)]]
  ELSE [m |-> [target |-> ParL("target", dt, FALSE, Null, [kind |-> "minmax", lo |-> "", hi |-> "target_max"], HookSets[h], drv, lv),
               target_max |-> LimPar("target_max", dt, Num(dt.hi), lv)]]
(* E: what only gamma varies (the spec sees the final accessible), plus failing drivers, read *)
(* functions, tuple / bool arguments and the default accessibles of a bare module specifier. *)
(*   cls: what the CLASS says where the final accessible differs, via: the difference comes   *)
(*   from the configuration ("cfg") or from a re-declaration in a subclass ("subclass");      *)
(*   initvia: the start value is a default, a Parameter(value=..), a bare value assigned in a *)
(*   subclass, or a value / default given in the configuration                                 *)
DTf5 == [t |-> "double", lo |-> 0, hi |-> 5]
ShapeE(n) ==
  IF n = 1
  THEN [m |-> [target |-> Par("target", DTf, FALSE, Null, NoLim, <<>>, "raise"),
               value |-> [Par("value", DTi, TRUE, Null, NoLim, <<>>, "none") EXCEPT !.rd = "fixed"],
               pa |-> [Par("_pa", DTe, FALSE, Null, NoLim, <<>>, "none") EXCEPT !.rd = "fixed"],
               ct |-> Cmd("_ct", [t |-> "tuple", els |-> <<DTf, DTe>>], Null),
               cb |-> Cmd("_cb", DTb, Num(3)),
               co |-> Cmd("_co", DTso, Null)]]        \* every member optional: {} is a valid argument
  ELSE IF n = 2
  THEN [m |-> [target |-> Par("target", DTf5, FALSE, Null, [kind |-> "minmax", lo |-> "", hi |-> "target_max"], <<[at |-> "LIMIT"]>>, "none")
                           @@ [cls |-> [hi |-> 8], via |-> "cfg"],
               target_max |-> LimPar("target_max", DTf5, Num(4), "X") @@ [initvia |-> "cfgvalue"],
               pa |-> Par("_pa", DTi, TRUE, Null, NoLim, <<>>, "none") @@ [cls |-> [ro |-> FALSE], via |-> "subclass"]]]
  ELSE IF n = 3
  THEN [m |-> [pb |-> Par("renamed", DTi, FALSE, Null, NoLim, <<>>, "same") @@ [cls |-> [wire |-> "_pb"], via |-> "cfg"],
               pc |-> Par("", DTi, FALSE, Null, NoLim, <<>>, "none") @@ [cls |-> [wire |-> "_pc"], via |-> "subclass"],
               ph |-> Par("_ph", DTf, FALSE, Null, NoLim, <<>>, "none") @@ [cls |-> [ro |-> TRUE], via |-> "cfg"]]]
  ELSE IF n = 4
  THEN [m |-> [pd |-> Par("_pd", DTi, FALSE, Null, NoLim, <<>>, "none") @@ [initvia |-> "value"],
               pe |-> Par("_pe", DTe, FALSE, Null, NoLim, <<>>, "none") @@ [initvia |-> "bare"]]]
  ELSE [m |-> [pg |-> Par("_pg", DTs, FALSE, Null, NoLim, <<>>, "none") @@ [initvia |-> "cfgvalue"],
               pi |-> Par("_pi", DTf5, FALSE, Null, NoLim, <<>>, "none") @@ [cls |-> [hi |-> 8], via |-> "subclass", redecl |-> "datatype", short |-> TRUE],
               pj |-> Par("_pj", DTf5, FALSE, Null, NoLim, <<>>, "none") @@ [cls |-> [hi |-> 8], via |-> "subclass", redecl |-> "props"]]]
(* K: a constant of a datatype whose transported form is not the internal one *)
ShapeK(d) == [m |-> [pa |-> Par("_pa", DTi, FALSE, Null, NoLim, <<>>, "none"),
                     pk |-> Par("_pk", DTname[d], TRUE, OtherOf(DTname[d]), NoLim, <<>>, "none")]]
(* Kf / Kt: where a constant comes from and what else the parameter has.  Falsy constants (0, 0.0, false, "", *)
(* the empty array, the enum member with code 0 that is not the first member) and a truthy one:                 *)
(*   pk: constant in the class, a DIFFERENT default, and a read function returning something else               *)
(*   pq: constant pinned in the configuration (constvia "cfg") on a writable parameter with read + write function *)
(*   pn: constant in the class, no default, nothing else      pv: constant in the class plus Parameter(value=..) *)
(* Read, describe, the cache and the snapshot update of an activate must all show the constant.                  *)
DTe0 == [t |-> "enum", mem |-> <<[name |-> "a", val |-> 1], [name |-> "z", val |-> 0]>>]
ConstCase == [i0 |-> [dt |-> DTi, c |-> Num(0), o |-> Num(5)],
              f0 |-> [dt |-> DTf, c |-> Num(0), o |-> Num(5)],
              b0 |-> [dt |-> DTb, c |-> Bool(FALSE), o |-> Bool(TRUE)],
              s0 |-> [dt |-> DTs, c |-> SB(0), o |-> SXyz],
              a0 |-> [dt |-> DTa, c |-> List(<<>>), o |-> List(<<Num(2), Num(3)>>)],
              e0 |-> [dt |-> DTe0, c |-> Num(0), o |-> Num(1)],
              f5 |-> [dt |-> DTf, c |-> Num(5), o |-> Num(3)]]
ConstPar(wire, k, initvia, constvia, rd, drv) ==
  [Par(wire, k.dt, TRUE, k.c, NoLim, <<>>, drv) EXCEPT !.init = k.o, !.ret = k.o, !.rd = rd, !.rret = k.o]
  @@ [initvia |-> initvia, constvia |-> constvia]
ShapeKc(d) == LET k == ConstCase[d] IN
  [m |-> [pa |-> Par("_pa", DTi, FALSE, Null, NoLim, <<>>, "none"),
          pk |-> ConstPar("_pk", k, "default", "class", "fixed", "absent"),
          pq |-> ConstPar("_pq", k, "default", "cfg", "fixed", "none") @@ [cls |-> [ro |-> FALSE]],
          pn |-> ConstPar("_pn", k, "none", "class", "absent", "absent"),
          pv |-> ConstPar("_pv", k, "value", "class", "absent", "none")]]
(* R: class limit vs. configured limit vs. hardware value.  The class datatype is wider (cls), the configuration   *)
(* narrows it to the final datainfo; the read function of pa delivers a value between the two (a read error),     *)
(* that of pb a value inside the final datainfo.  "sc": the class has twice the configured scale, the hardware     *)
(* value lies on the configured grid only - it must come out unrounded.                                            *)
ParR(wire, dt, cls, rret) ==
  [Par(wire, dt, FALSE, Null, NoLim, <<>>, "none") EXCEPT !.rd = "fixed", !.rret = rret] @@ [cls |-> cls, via |-> "cfg"]
ShapeR(k) ==
  CASE k = "s"  -> [m |-> [pa |-> ParR("_pa", DTs, [maxc |-> 7], SLong), pb |-> ParR("_pb", DTs, [maxc |-> 7], SXyz)]]
    [] k = "a"  -> [m |-> [pa |-> ParR("_pa", DTa, [maxlen |-> 5], List(<<Num(1), Num(2), Num(3), Num(4)>>)),
                           pb |-> ParR("_pb", DTa, [maxlen |-> 5], List(<<Num(2), Num(3)>>))]]
    [] k = "bl" -> [m |-> [pa |-> ParR("_pa", DTbl, [maxb |-> 5], SB(4)), pb |-> ParR("_pb", DTbl, [maxb |-> 5], SB(3))]]
    [] k = "sc" -> [m |-> [pa |-> [ParR("_pa", DTsc, [scale2 |-> TRUE], Num(5)) EXCEPT !.init = Num(4)],     \* (the default lies
                           pb |-> [ParR("_pb", DTsc, [scale2 |-> TRUE], Num(4)) EXCEPT !.init = Num(4)]]]    \*  on the class grid)
(* G: integers with wide limits: IntRange(0, 2^53) and IntRange(0, 2^56) with a dynamic upper limit.  One above the  *)
(* maximum / the limit is refused, and the driver receives exactly the integer requested (2^53+1 is not 2^53).       *)
DTg53 == [t |-> "int", lo |-> 0, hi |-> 4, big |-> TRUE]
DTg56 == [t |-> "int", lo |-> 0, hi |-> 11, big |-> TRUE]
BigPar(wire, dt, lim, hooks, drv) == [Par(wire, dt, FALSE, Null, lim, hooks, drv) EXCEPT !.init = Big(1), !.ret = Big(3), !.rret = Big(3)]
ShapeG(n) ==
  IF n = 1 THEN [m |-> [pa |-> BigPar("_pa", DTg53, NoLim, <<>>, "none"), ca |-> Cmd("_ca", DTg53, Null)]]
  ELSE [m |-> [target |-> BigPar("target", DTg56, [kind |-> "minmax", lo |-> "", hi |-> "target_max"], <<[at |-> "LIMIT"]>>, "same"),
               target_max |-> LimPar("target_max", DTg56, Big(11), "X")]]
(* D: a hook on a struct sees the merged value *)
ShapeD == [m |-> [pa |-> Par("_pa", DTst, FALSE, Null, NoLim,
                             <<[at |-> "D", raise |-> <<St(Num(5), Num(2))>>, stop |-> <<>>]>>, "none")]]

(* shapes are named by tuples: <<"A", d>>, <<"B", d, drv>>, <<"E", n>>, <<"C", d, limitkind, hookset, drv, level>>, <<"D">> *)
IdsOf(fam) ==
  CASE fam = "A" -> {<<"A", d>> : d \in DOMAIN DTname}
    [] fam = "A1" -> {<<"A", d>> : d \in {"e", "s", "a"}}
    [] fam = "B" -> {<<"B", d, drv>> : d \in DOMAIN DTname, drv \in {"same", "fixed", "absent"}}
    [] fam = "E" -> {<<"E", n>> : n \in 1 .. 5}
    [] fam = "E0" -> {<<"E", 1>>, <<"E", 2>>}
    [] fam = "K" -> {<<"K", "sc">>, <<"K", "bl">>} \cup {<<"Kc", d>> : d \in DOMAIN ConstCase}
    [] fam = "G" -> {<<"G", 1>>, <<"G", 2>>}
    [] fam = "R" -> {<<"R", k>> : k \in {"s", "a", "bl", "sc"}}
    [] fam = "K0" -> {<<"K", "sc">>, <<"Kc", "i0">>, <<"Kc", "e0">>, <<"Kc", "f5">>}
    [] fam = "C1" -> {<<"C", "f", "minmax", "h0", "none", "X">>, <<"C", "f", "minmax", "h1", "none", "X">>,
                      <<"C", "f", "limits", "h2", "none", "X">>,
                      <<"C", "f", "minmax", "h2", "none", "M">>, <<"C", "f", "limits", "h1", "none", "M">>,
                      <<"C", "i", "minmax", "h1", "same", "M">>,
                      <<"C", "f", "minmax", "h3", "none", "D">>, <<"C", "f", "limits", "h3", "none", "D">>,
                      <<"C", "f", "minmax", "h4", "none", "B">>, <<"C", "f", "limits", "h5", "none", "B">>,
                      <<"C", "f", "minmax", "h5", "none", "B">>,
                      <<"C", "i", "limits", "h0", "fixed", "X">>, <<"D">>}
    [] fam = "C0" -> {<<"C", "f", "minmax", "h1", "none", "X">>, <<"C", "f", "limits", "h1", "none", "M">>,   \* one per class layout
                      <<"C", "f", "minmax", "h3", "none", "D">>, <<"C", "f", "limits", "h5", "none", "B">>, <<"D">>}
    [] fam = "C2" -> UNION {{<<"C", d, lk, h, drv, lv>> : d \in {"f", "i"}, lk \in {"minmax", "limits", "max"},
                                                       h \in HooksFor[lv], drv \in {"none", "fixed"}}
                            : lv \in DOMAIN HooksFor}
ShapeIds(fams) == UNION {IdsOf(f) : f \in fams}
ShapeOf(id) ==
  CASE id[1] = "A" -> ShapeA(id[2])
    [] id[1] = "B" -> ShapeB(id[2], id[3])
    [] id[1] = "C" -> ShapeC(id[2], id[3], id[4], id[5], id[6])
    [] id[1] = "D" -> ShapeD
    [] id[1] = "E" -> ShapeE(id[2])
    [] id[1] = "K" -> ShapeK(id[2])
    [] id[1] = "Kc" -> ShapeKc(id[2])
    [] id[1] = "R" -> ShapeR(id[2])
    [] id[1] = "G" -> ShapeG(id[2])

Req(act, mod, name, payload) == [act |-> act, mod |-> mod, name |-> name, payload |-> payload]
(* requests: for every accessible every payload of its catalogue under its wire name (or  *)
(* its attribute name when it has no wire name), each accessible addressed by the wrong    *)
(* request kind, unknown names, unknown and unexported modules                             *)
AccReqs(sh, m, a) ==
  LET acc == sh[m][a]
      nm == IF acc.wire = "" THEN a ELSE acc.wire
  IN IF acc.kind = "param"
     THEN {Req("change", m, nm, p) : p \in (IF acc.islimit /\ "big" \in DOMAIN acc.dt THEN BigLimCat
                                            ELSE IF acc.islimit /\ acc.dt.t # "limits" THEN LimCat
                                            ELSE IF acc.ro \/ acc.wire = "" \/ "short" \in DOMAIN acc THEN Short(acc.dt)
                                            ELSE Cat(acc.dt))}
          \cup {Req("do", m, nm, Null)}
          \cup {Req("read", m, nm, Null), Req("activate", m, nm, Null)}
          \cup (IF "cls" \in DOMAIN acc /\ "wire" \in DOMAIN acc.cls      \* the name the class gave, before the configuration
                THEN {Req("change", m, acc.cls.wire, CHOOSE p \in Short(acc.dt) : TRUE), Req("read", m, acc.cls.wire, Null)} ELSE {})
          \cup (IF acc.wire # a /\ acc.wire # ""
                THEN {Req("change", m, a, CHOOSE p \in Short(acc.dt) : TRUE), Req("read", m, a, Null)} ELSE {})
     ELSE {Req("do", m, nm, p) : p \in (IF acc.arg = NoDt THEN NoArgCat ELSE Cat(acc.arg) \cup {JNull})}
          \cup {Req("change", m, nm, Num(1)), Req("read", m, nm, Null)}
          \cup (IF acc.wire # a /\ acc.wire # "" THEN {Req("do", m, a, Null)} ELSE {})
\* the unexported module "h" gamma adds to every node is of the same class: every accessible of it, commands
\* included (with no and with a valid argument), must be as unreachable as the module itself
HiddenReqs(acc, a) ==
  LET nm == IF acc.wire = "" THEN a ELSE acc.wire IN
  IF acc.kind = "cmd"
  THEN {Req("do", "h", nm, Null)}
       \cup (IF acc.arg.t \in {"double", "int", "scaled", "enum", "string", "bool", "blob", "struct", "array"}
             THEN {Req("do", "h", nm, InitOf(acc.arg))} ELSE {})
  ELSE {Req("read", "h", nm, Null), Req("change", "h", nm, acc.init), Req("activate", "h", nm, Null), Req("do", "h", nm, Null)}
ReqsOf(sh) ==
  UNION {UNION {AccReqs(sh, m, a) \cup HiddenReqs(sh[m][a], a) : a \in DOMAIN sh[m]} : m \in DOMAIN sh}
  \cup {Req(act, mod, nm, IF act = "change" THEN Num(3) ELSE Null) :
          act \in {"change", "read", "do", "activate"}, mod \in {"zz", "h"}, nm \in {"_pa", "target"}}
  \cup {Req("activate", mod, "", Null) : mod \in DOMAIN sh \cup {"zz", "h"}}
  \* unknown names; optional accessibles nobody implemented (popt, copt) and an accessible a subclass removed
  \* (prem = None): gamma puts them into every generated class
  \cup {Req(act, "m", nm, IF act = "change" THEN Num(3) ELSE Null) :
          act \in {"change", "read", "do", "activate"}, nm \in {"nope", "_popt", "_copt", "_prem"}}
  \* the bare module specifier: target for change, value for read
  \cup UNION {{Req("change", m, "", p) : p \in (IF \E a \in DOMAIN sh[m] : sh[m][a].wire = "target" /\ sh[m][a].kind = "param"
                                                                            /\ "big" \in DOMAIN sh[m][a].dt
                                                    THEN {Big(3), Big(12), SAb} ELSE {Num(3), Num(9), SAb})} : m \in DOMAIN sh}
  \cup {Req("read", m, "", Null) : m \in DOMAIN sh}

CONSTANT Families
Init == \E id \in ShapeIds(Families) : InitWith(ShapeOf(id))
Next == \E req \in ReqsOf(shape) : Step(req)
Spec == Init /\ [][Next]_vars
=============================================================================
