SPECIFICATION GSpecBoot
CONSTANTS
  Conns = {"c1"}
  Mods = {"m1", "m2"}
  Used = {"debug", "comlog", "info", "error", "off"}
  ComMods = {"m1"}
  Configs <- CfgSwitchesQuick
  MaxDay = 1
  Acts = {"emit", "mainemit", "comlog"}
  InitLevels = {99, 15}
  Depth = 1
CONSTRAINT Bound
INVARIANT Emit1
CHECK_DEADLOCK FALSE
