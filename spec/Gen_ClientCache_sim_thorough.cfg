SPECIFICATION GSpec
CONSTANTS
  Mods = {"m1", "m2"}
  PNames = {"value", "target", "x", "y"}
  ExtraM = {"zz"}
  ExtraP = {"cmd"}
  CmdP = {"cmd"}
  DescCmds = {"cmd", "stop", "_stop"}
  Wires = {"w1", "w2", "wbad"}
  ValidW = {"w1", "w2"}
  ValidWB = {"w2"}
  Variants = {"a"}
  OtherDescs = {}
  ENames = {"HardwareError", "Bogus"}
  KnownE = {"HardwareError"}
  Texts = {"t1"}
  PrefTexts = {}
  PrefClass = "RangeError"
  PrefRest = "t1"
  Stamps = {0, 2, 9, 999}
  MaxNow = 6
  Shapes = {"ok", "okq", "short", "scalar", "badt", "nodata"}
  LevelKinds = {"node", "module", "param"}
  Kinds = {"updateEvent", "updateItem"}
  Behs = {"ok", "oneshot", "raise"}
  ErrBehs = {"ok", "raise"}
  InitDescs <- GenInit3
  Descs <- GenDescs3
  GIdents <- GIdentsT
  GActions = {"update", "reply", "changed", "error_update", "error_read", "error_change"}
  GLevels <- GLevelsT
  EmitOneIn = 8
  MaxCbs = 4
  MaxWait = 2
  Depth = 14
CONSTRAINT GBound
INVARIANT Emit1
CHECK_DEADLOCK FALSE
