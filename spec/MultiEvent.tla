----------------------------- MODULE MultiEvent -----------------------------
(* Growth beyond the listed properties (used by C15: the node waits for the start    *)
(* events of all poll threads).  frappy/lib/multievent.py: a MultiEvent is set iff    *)
(* none of its single events is pending; actions queued on it run exactly once, when  *)
(* the last pending event is triggered (or at once if nothing is pending); wait()     *)
(* gives up at the latest deadline of the pending events.  Time in ticks.             *)
EXTENDS Naturals, Sequences, FiniteSets, TLC

CONSTANTS Ids,         \* single event ids
          Acts,        \* action ids
          Timeouts,    \* time-outs a single event may be created with (0 = none / eternity)
          MaxTime

VARIABLES pending,     \* ids of single events not yet triggered
          dl,          \* [Ids -> deadline], 0 = eternity
          created,     \* ids already created
          queued,      \* sequence of actions waiting
          ran,         \* sequence of actions executed
          now,
          waiter       \* [st |-> "idle"|"waiting"|"done", until |-> tick, res |-> BOOLEAN]
mvars == <<pending, dl, created, queued, ran, now, waiter>>

MInit == /\ pending = {} /\ dl = [i \in Ids |-> 0] /\ created = {} /\ queued = <<>> /\ ran = <<>> /\ now = 1
         /\ waiter = [st |-> "idle", until |-> 0, res |-> FALSE]

IsSet == pending = {}
Flush == IF pending' = {} THEN ran' = ran \o queued /\ queued' = <<>> ELSE UNCHANGED <<ran, queued>>

New(i, to) == /\ i \notin created /\ created' = created \cup {i}
              /\ pending' = pending \cup {i}
              /\ dl' = [dl EXCEPT ![i] = IF to = 0 THEN 0 ELSE now + to]
              /\ UNCHANGED <<queued, ran, now, waiter>>
Trigger(i) == /\ i \in created
              /\ pending' = pending \ {i}
              /\ Flush
              /\ UNCHANGED <<dl, created, now, waiter>>
Clear(i) == /\ i \in created /\ pending' = pending \cup {i}
            /\ UNCHANGED <<dl, created, queued, ran, now, waiter>>
Queue(a) == /\ ~\E n \in 1 .. Len(queued) : queued[n] = a
            /\ ~\E n \in 1 .. Len(ran) : ran[n] = a
            /\ IF IsSet THEN ran' = ran \o queued \o <<a>> /\ queued' = <<>>
               ELSE queued' = Append(queued, a) /\ UNCHANGED ran
            /\ UNCHANGED <<pending, dl, created, now, waiter>>

(* the latest deadline of the pending events; 0 if one of them has none *)
MaxDl == IF \E i \in pending : dl[i] = 0 THEN 0
         ELSE IF pending = {} THEN 0 ELSE CHOOSE d \in {dl[i] : i \in pending} : \A i \in pending : dl[i] <= d
WaitBegin(to) ==          \* wait(timeout); to = 0 means no time-out argument
   /\ waiter.st = "idle"
   /\ IF IsSet THEN waiter' = [st |-> "done", until |-> now, res |-> TRUE]
      ELSE LET lim == IF MaxDl = 0 THEN (IF to = 0 THEN 0 ELSE now + to)
                      ELSE IF to = 0 \/ MaxDl < now + to THEN MaxDl ELSE now + to IN
           IF lim # 0 /\ lim <= now THEN waiter' = [st |-> "done", until |-> now, res |-> FALSE]
           ELSE waiter' = [st |-> "waiting", until |-> lim, res |-> FALSE]
   /\ UNCHANGED <<pending, dl, created, queued, ran, now>>
WaitEnd == /\ waiter.st = "waiting"
           /\ \/ IsSet /\ waiter' = [waiter EXCEPT !.st = "done", !.res = TRUE]
              \/ ~IsSet /\ waiter.until # 0 /\ now >= waiter.until /\ waiter' = [waiter EXCEPT !.st = "done", !.res = FALSE]
           /\ UNCHANGED <<pending, dl, created, queued, ran, now>>
Tick == /\ now < MaxTime /\ now' = now + 1
        /\ ~(waiter.st = "waiting" /\ (IsSet \/ (waiter.until # 0 /\ now >= waiter.until)))   \* a due waiter wakes first
        /\ UNCHANGED <<pending, dl, created, queued, ran, waiter>>

MNext == \/ \E i \in Ids, to \in Timeouts : New(i, to)
         \/ \E i \in Ids : Trigger(i) \/ Clear(i)
         \/ \E a \in Acts : Queue(a)
         \/ \E to \in Timeouts : WaitBegin(to)
         \/ WaitEnd \/ Tick
MSpec == MInit /\ [][MNext]_mvars

(* every queued action runs exactly once, and only when nothing is pending any more *)
ActionsOnce == \A a \in Acts : Cardinality({n \in 1 .. Len(ran) : ran[n] = a}) + Cardinality({n \in 1 .. Len(queued) : queued[n] = a}) <= 1
NoActionWhilePending == [][ran' # ran => pending' = {}]_mvars
QueueOnlyWhilePending == queued # <<>> => pending # {}
(* a successful wait means nothing was pending when it returned; a wait never outlives its limit *)
WaitTruthful == [][(waiter.st # "done" /\ waiter'.st = "done" /\ waiter'.res) => pending = {}]_mvars
WaitBounded == (waiter.st = "waiting" /\ waiter.until # 0) => now <= waiter.until
=============================================================================
