SPECIFICATION DefSpec
CONSTANTS
  Layouts <- AllLayouts
  Impl <- AsImplLeak
PROPERTY VerdictStable
CHECK_DEADLOCK FALSE
