SPECIFICATION GSpec
CONSTANTS
  Nodes = {"A", "B"}
  Order <- OrderAB
  ModsOf <- ModsAB
  Params = {"value"}
  Values = {1, 2}
  UpErrs = {"hw"}
  Conns = {"c1"}
  StartDown = {"B"}
  ReqArgs <- OneArg
  ReqConns <- OneConn
  WaitSteps = {2, 12}
  ReadErrChoice = {TRUE, FALSE}
  GiveUpErrChoice = {TRUE, FALSE}
  Depth = 4
  Thin = 1
CONSTRAINT Bound
ACTION_CONSTRAINT EmitStep
VIEW AbstractView
CHECK_DEADLOCK FALSE
