SPECIFICATION TSpec
CONSTANTS
  Mods = {"m1", "m2", "m3"}
  PNames = {"value", "target", "x", "y", "s", "_target", "_value"}
  ExtraM = {"zz"}
  ExtraP = {"zz", "cmd"}
  CmdP = {"cmd"}
  DescCmds = {"cmd", "stop", "_stop"}
  Wires = {"w1", "w2", "w3", "wbad"}
  ValidW = {"w1", "w2", "w3"}
  ValidWB = {"w2"}
  Variants = {"a", "b"}
  OtherDescs <- AnyDescs
  ENames = {"ProtocolError", "NoSuchModule", "NoSuchParameter", "NoSuchCommand", "CommandFailed", "CommandRunning", "ReadOnly", "RangeError", "WrongType", "BadJSON", "CommunicationFailed", "TimeoutError", "HardwareError", "IsBusy", "IsError", "Disabled", "Impossible", "ReadFailed", "OutOfRange", "NotImplemented", "InternalError", "Bogus", "BadValue"}
  KnownE = {"ProtocolError", "NoSuchModule", "NoSuchParameter", "NoSuchCommand", "CommandFailed", "CommandRunning", "ReadOnly", "RangeError", "WrongType", "BadJSON", "CommunicationFailed", "TimeoutError", "HardwareError", "IsBusy", "IsError", "Disabled", "Impossible", "ReadFailed", "OutOfRange", "NotImplemented"}
  Texts = {"t1", "t2", "tp", "tm", "th", "tv"}
  PrefTexts = {"tp"}
  PrefClass = "RangeError"
  PrefRest = "t1"
  Stamps = {0, 1, 2, 3, 4, 5, 6, 7, 8, 9, 10, 11, 12, 13, 14, 15, 16, 17, 18, 19, 20, 21, 22, 23, 24, 25, 26, 27, 28, 29, 30, 999}
  MaxNow = 20
  Shapes = {"ok", "okq", "short", "scalar", "badq", "badt", "nodata", "badtext"}
  LevelKinds = {"node", "module", "param"}
  Kinds = {"updateEvent", "updateItem"}
  Behs = {"ok", "oneshot", "raise"}
  ErrBehs = {"ok", "raise"}
  InitDescs <- AnyDescs
  Descs <- AnyDescs
  MaxCbs = 99
  MaxWait = 99
  Depth = 99
CONSTRAINT Track
INVARIANT NoFuture
INVARIANT LastImport
INVARIANT RegisterSeesCache
INVARIANT ReleasedSeesNew
POSTCONDITION Verdicts
CHECK_DEADLOCK FALSE
