SPECIFICATION GSpec
CONSTANTS
  Tables = {"gap3"}
  Shapes = {"rw", "w"}
  Xs = {0, 1, 2, 3, 4, 5, 6, 7, 8}
  XW = {2, 6}
  WPos = {1}
  APos = {2}
  Reads = {"ri"}
  Depth = 5
CONSTRAINT Bound
INVARIANT Emit1
CHECK_DEADLOCK FALSE
