SPECIFICATION GSpec
CONSTANTS
  Tables = {"gap3"}
  Shapes = {"rw", "w"}
  Modes = {"echo", "none", "clamp", "raise", "crash"}
  Setups = {"rw-echo", "w-none", "rw-clamp", "w-crash", "rw-raise"}
  Xs = {0, 1, 2, 3, 4, 5, 6, 7, 8}
  XW = {3}
  WPos = {2}
  APos = {0}
  Reads = {"ri"}
  Depth = 5
CONSTRAINT Bound
INVARIANT Emit1
CHECK_DEADLOCK FALSE
