SPECIFICATION Spec
CONSTANTS
  Members = {"p"}
  Vals = {1}
  HwMax = 1
  HwModes = {"refuse"}
  Excs = {"other"}
  Tables = {"two"}
  Shapes = {"w"}
  Modes = {"clamp"}
  Xs = {2}
  Kinds = {"limits"}
  Lo = 0
  Hi = 1
  PVals = {1}
  LVals = {1}
  ForbSets = {{}}
  HookExcs = {"badvalue"}
  Inits = {1}
  Layouts = {10}
  CExcs = {"other"}
INVARIANT Consistent
PROPERTY LimitsRespected
PROPERTY ControlFrame
CHECK_DEADLOCK FALSE
