SPECIFICATION Spec
CONSTANTS
  Members = {"p"}
  Vals = {1}
  HwMax = 1
  Tables = {"two"}
  Shapes = {"w"}
  Xs = {2}
  Kinds = {"limits"}
  Lo = 0
  Hi = 1
  PVals = {1}
  LVals = {0, 1}
  ForbSets = {{}}
  Ctls = {"c1", "c2", "c3"}
INVARIANT Consistent
PROPERTY LimitsRespected
CHECK_DEADLOCK FALSE
