SPECIFICATION Spec
CONSTANTS
  Tier <- GTier
  Shard <- GShard
  NShards <- GNShards
INVARIANT EmitEq
CHECK_DEADLOCK FALSE
