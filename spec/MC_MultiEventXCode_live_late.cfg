SPECIFICATION FairSpec
CONSTANTS
  Threads = {"a", "b", "w"}
  Script <- Scen_server_late
  InitEv <- Init_server
  MaxTime = 4
  Inf = 99
  RaisingActs = {}
  FixLock = TRUE
  FixInit = TRUE
  FixIsSet = TRUE
  DetTime = FALSE
  Locked = TRUE
PROPERTY Termination
CHECK_DEADLOCK FALSE
