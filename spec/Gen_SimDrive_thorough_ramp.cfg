SPECIFICATION GSpec
CONSTANTS
  Vals = {0, 16, 48}
  Ramps = {0, 16, 32}
  Jitters = {0}
  Shapes = {"speed"}
  StartHv = {16}
  StartTarget = {16}
  Depth = 7
  MaxTargets = 1
  MaxStops = 0
  MaxRamps = 1
  MaxReads = 1
  MaxX = 0
CONSTRAINT Bound
ACTION_CONSTRAINT Canon
INVARIANT Emit1
CHECK_DEADLOCK FALSE
