SPECIFICATION TSpec
CONSTANTS
  Tables = {"asc3", "desc3", "gap3", "two", "dup3", "mix4"}
  Shapes = {"rw", "w"}
  Modes = {"echo", "none", "clamp", "raise", "crash"}
  Xs = {0, 1, 2, 3, 4, 5, 6, 7, 8}
CONSTRAINT Track
POSTCONDITION Verdicts
CHECK_DEADLOCK FALSE
