SPECIFICATION Spec
VIEW View
CONSTANTS
  Names = {"a", "b", "c", "name"}
  IntVals <- IV_thorough
  Specials = {"none", "ref", "zz", "numstr", "floatint", "floatfrac", "bool", "list", "mem"}
  DispNames = {"", "x"}
  MaxPieces = 2
  MaxExt = 1
  MaxDepth = 3
  AsImpl = {}
INVARIANT TypeOK
INVARIANT IsBijection
INVARIANT LookupsTotal
INVARIANT ComparesLikeItsValue
INVARIANT NamesLikeMembers
INVARIANT OperatorsUnwrap
INVARIANT OneCallEqualsChain
INVARIANT OrderIndependent
PROPERTY Grows
PROPERTY Frozen
CHECK_DEADLOCK FALSE
