SPECIFICATION SSpec
CONSTANTS
  MaxLen = 0
  ReadSize = 1
  Classes = {"idn"}
  MaxPend = 1
  Threads = {"req", "upd", "log"}
  UseLock = TRUE
  CheckRunning = TRUE
INVARIANT LinesWhole
INVARIANT NoGlue
CHECK_DEADLOCK FALSE
