------------------------------ MODULE PollerObs ------------------------------
(* C13 on the observable schedule of one poll thread: time-stamped starts of doPoll  *)
(* and read_* calls (ticks of 1/8 s, virtual time), environment actions, end of run.  *)
(* The bounds are those of the property; the thread body itself is modelled in        *)
(* Poller.tla, where TLC checks that the algorithm meets the same bounds.             *)
EXTENDS Naturals, Sequences, FiniteSets, TLC

VARIABLES cfg,        \* sequence of module records [interval, slow, dmax, polled (seq of names), nopoll (seq), rmax]
          started,    \* the start-up round is over
          nstarted,   \* number of times the started callback fired
          eff,        \* [module index -> effective poll interval]
          fast,       \* [module index -> fast polling on]
          dl,         \* [module index -> deadline for the start of the next doPoll]
          lastMain,   \* [module index -> start of the last doPoll]
          rdl,        \* set of [m, p, t]: deadline for the next poll of parameter p of module m
          polled,     \* set of [m, fn]: functions called before `started` (start-up bookkeeping)
          ep, cnt, extra   \* [module index -> ...] start of the current interval epoch, main polls since then, triggers since then
pvars == <<cfg, started, nstarted, eff, fast, dl, lastMain, rdl, polled, ep, cnt, extra>>

NM == Len(cfg)
Mods == 1 .. NM
Sum(f, S) == LET RECURSIVE sm(_)
                 sm(T) == IF T = {} THEN 0 ELSE LET x == CHOOSE y \in T : TRUE IN f[x] + sm(T \ {x})
             IN sm(S)
Max(S) == IF S = {} THEN 0 ELSE CHOOSE x \in S : \A y \in S : y <= x
(* one full turn of the thread: a main poll of every module plus one slow read, plus a tick of rounding *)
FullTurn == Sum([m \in Mods |-> cfg[m].dmax], Mods) + Max({cfg[m].rmax : m \in Mods}) + 1
NPolled == Sum([m \in Mods |-> Len(cfg[m].polled)], Mods)
SlowBound(m) == 2 * cfg[m].slow + (NPolled + 2) * FullTurn
ToSetS(s) == {s[n] : n \in 1 .. Len(s)}

PInit == /\ cfg = <<>> /\ started = FALSE /\ nstarted = 0 /\ eff = <<>> /\ fast = <<>> /\ dl = <<>> /\ lastMain = <<>>
         /\ rdl = {} /\ polled = {} /\ ep = <<>> /\ cnt = <<>> /\ extra = <<>>

Cfg(c) == /\ cfg = <<>> /\ cfg' = c
          /\ eff' = [m \in 1 .. Len(c) |-> c[m].interval] /\ fast' = [m \in 1 .. Len(c) |-> FALSE]
          /\ dl' = [m \in 1 .. Len(c) |-> 0] /\ lastMain' = [m \in 1 .. Len(c) |-> 0]
          /\ ep' = [m \in 1 .. Len(c) |-> 0] /\ cnt' = [m \in 1 .. Len(c) |-> 0] /\ extra' = [m \in 1 .. Len(c) |-> 0]
          /\ UNCHANGED <<started, nstarted, rdl, polled>>

(* the start-up round is over: from now on the bounds apply *)
Started(t) == /\ nstarted = 0                                    \* exactly once
              /\ nstarted' = 1 /\ started' = TRUE
              /\ dl' = [m \in Mods |-> t + eff[m] + FullTurn]
              /\ lastMain' = [m \in Mods |-> t]
              /\ rdl' = {[m |-> m, p |-> p, t |-> t + SlowBound(m)] : m \in Mods, p \in {} } \cup
                        UNION {{[m |-> m, p |-> cfg[m].polled[k], t |-> t + SlowBound(m)] : k \in 1 .. Len(cfg[m].polled)} : m \in Mods}
              /\ ep' = [m \in Mods |-> t] /\ cnt' = [m \in Mods |-> 0] /\ extra' = [m \in Mods |-> 0]
              /\ UNCHANGED <<cfg, eff, fast, polled>>

(* the interval is also respected from below: since the last change of the effective interval I of a module *)
(* (epoch), the number of its main polls is at most elapsed / I + 2, plus one per explicit trigger          *)
NotFaster(t, m) == (cnt[m] + 1) * eff[m] <= (t - ep[m]) + (2 + extra[m]) * eff[m]

(* a call made by the poll thread *)
Call(t, m, fn) ==
   /\ fn \notin ToSetS(cfg[m].nopoll)                            \* NoPollNeverRead
   /\ IF ~started
      THEN \* start-up: configured writes come before the first read / poll of the module
           /\ (fn = "write" => ~\E x \in polled : x.m = m)
           /\ polled' = (IF fn = "write" THEN polled ELSE polled \cup {[m |-> m, fn |-> fn]})
           /\ UNCHANGED <<dl, lastMain, rdl, cnt>>
      ELSE /\ fn # "write"                                       \* no configured write after the first round
           /\ IF fn = "doPoll"
              THEN /\ t <= dl[m]                                 \* MainBound / IntervalChangeNextWake
                   /\ NotFaster(t, m) /\ cnt' = [cnt EXCEPT ![m] = @ + 1]
                   /\ dl' = [dl EXCEPT ![m] = t + eff[m] + FullTurn]
                   /\ lastMain' = [lastMain EXCEPT ![m] = t]
                   /\ UNCHANGED rdl
              ELSE /\ \A x \in rdl : (x.m = m /\ x.p = fn) => t <= x.t        \* SlowBound
                   /\ rdl' = {x \in rdl : ~(x.m = m /\ x.p = fn)} \cup {[m |-> m, p |-> fn, t |-> t + SlowBound(m)]}
                   /\ UNCHANGED <<dl, lastMain, cnt>>
           /\ UNCHANGED polled
   /\ UNCHANGED <<cfg, started, nstarted, eff, fast, ep, extra>>

(* run-time change of the poll interval / fast polling: effective from the next wake-up *)
Change(t, m, newint, fastflag, isfast) ==
   LET blocked == ~isfast /\ fast[m]            \* a pollinterval change is ignored while fast polling is on
       i2 == IF blocked THEN eff[m] ELSE newint IN
   /\ eff' = [eff EXCEPT ![m] = i2]
   /\ fast' = [fast EXCEPT ![m] = IF isfast THEN fastflag ELSE @]
   /\ dl' = [dl EXCEPT ![m] = IF i2 < eff[m] THEN (IF t + i2 + FullTurn < @ THEN t + i2 + FullTurn ELSE @)
                              ELSE IF i2 > eff[m] THEN lastMain[m] + i2 + FullTurn + (IF t > lastMain[m] THEN t - lastMain[m] ELSE 0) ELSE @]
   /\ IF i2 # eff[m] THEN ep' = [ep EXCEPT ![m] = t] /\ cnt' = [cnt EXCEPT ![m] = 0] /\ extra' = [extra EXCEPT ![m] = 0]
      ELSE UNCHANGED <<ep, cnt, extra>>
   /\ UNCHANGED <<cfg, started, nstarted, lastMain, rdl, polled>>
Trigger(m) == extra' = [extra EXCEPT ![m] = @ + 1]
              /\ UNCHANGED <<cfg, started, nstarted, eff, fast, dl, lastMain, rdl, polled, ep, cnt>>

(* end of the observation: the thread is alive, died of no exception, and nothing is overdue *)
End(t, alive, excs) ==
   /\ alive /\ excs = <<>>                                       \* Survives
   /\ nstarted = 1
   /\ \A m \in Mods : t <= dl[m] + 1
   /\ \A x \in rdl : t <= x.t + 1
   /\ UNCHANGED pvars
=============================================================================
