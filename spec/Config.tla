------------------------------- MODULE Config -------------------------------
(* C10, part 2: node start-up as a state machine over the rules of ConfigRules.tla:   *)
(* create all modules, then EITHER refuse (all failing modules reported together,     *)
(* none of them registered, nothing started, nothing written to hardware) OR start:   *)
(* every configured write exactly once and before the module's first poll - for a     *)
(* module that is never polled (enablePoll = False, alone or served by the poll thread *)
(* of its io module): before the node reports ready.                                   *)
EXTENDS ConfigRules

(* ------------------------------------------------------------------ node start-up *)
VARIABLES cfgof,       \* [module name -> configuration] : the merged configuration, fixed during a start-up
          kindof,      \* [module name -> Kinds] : how the module is served (fixed)
          ready,       \* the node has reported "all modules started"
          created,     \* [Mods -> {"no", "accepted", "rejected"}]
          registered,  \* modules known to the node
          node,        \* "building" | "refused" | "running"
          reported,    \* modules named in the error report
          started,     \* modules whose startModule was called
          pending,     \* [Mods -> set of parameters still to be written]
          polled       \* modules that were polled / read at least once
nvars == <<cfgof, kindof, ready, created, registered, node, reported, started, pending, polled>>

Mods == DOMAIN cfgof
CfgOf == cfgof

NInit(c, k) == /\ cfgof = c /\ kindof = k /\ ready = FALSE
         /\ created = [m \in DOMAIN c |-> "no"] /\ registered = {} /\ node = "building" /\ reported = {}
         /\ started = {} /\ pending = [m \in DOMAIN c |-> {}] /\ polled = {}

Rejected == {m \in Mods : created[m] = "rejected"}
AllCreated == \A m \in Mods : created[m] # "no"

AllowedM(m) == IF kindof[m] = "noclass" THEN {"rejected"} ELSE Allowed(CfgOf[m])
Create(m, out) ==
    /\ node = "building" /\ created[m] = "no" /\ out \in AllowedM(m)
    /\ created' = [created EXCEPT ![m] = out]
    /\ registered' = IF out = "accepted" THEN registered \cup {m} ELSE registered
    /\ pending' = [pending EXCEPT ![m] = IF out = "accepted" THEN WriteSet(CfgOf[m]) ELSE {}]
    /\ UNCHANGED <<cfgof, kindof, ready, node, reported, started, polled>>

Refuse == /\ node = "building" /\ AllCreated /\ Rejected # {}
          /\ node' = "refused" /\ reported' = Rejected
          /\ UNCHANGED <<cfgof, kindof, ready, created, registered, started, pending, polled>>

Start(m) == /\ node = "building" /\ AllCreated /\ Rejected = {} /\ m \notin started
            /\ started' = started \cup {m}
            /\ node' = IF started' = Mods THEN "running" ELSE node
            /\ UNCHANGED <<cfgof, kindof, ready, created, registered, reported, pending, polled>>

(* the poll thread of m hands a configured value to write_<p>; the hardware call may take the configured *)
(* values of other parameters along (common write function): they are written by this call, not again    *)
Write(m, p) == /\ m \in started /\ p \in pending[m] /\ m \notin polled /\ ~ready
               /\ pending' = [pending EXCEPT ![m] = @ \ Consumes(p)]
               /\ UNCHANGED <<cfgof, kindof, ready, created, registered, node, reported, started, polled>>
(* ... a configured value outside the limits may fail the range check instead (loose clause) *)
WriteRefused(m, p) ==
               /\ m \in started /\ p \in pending[m] /\ m \notin polled /\ ~ready
               /\ \E e \in Outside(CfgOf[m]) : e.par = p /\ e.prop = "value"
               /\ pending' = [pending EXCEPT ![m] = @ \ {p}]
               /\ UNCHANGED <<cfgof, kindof, ready, created, registered, node, reported, started, polled>>
FirstPoll(m) == /\ m \in started /\ pending[m] = {} /\ m \notin polled
                /\ polled' = polled \cup {m}
                /\ UNCHANGED <<cfgof, kindof, ready, created, registered, node, reported, started, pending>>

(* the start-up is reported complete: nothing is left to be written, every polled module was polled once *)
Ready == /\ node = "running" /\ ~ready
         /\ \A m \in Mods : pending[m] = {} /\ (kindof[m] \in PolledKinds => m \in polled)
         /\ ready' = TRUE
         /\ UNCHANGED <<cfgof, kindof, created, registered, node, reported, started, pending, polled>>

NNext == \/ \E m \in Mods, out \in {"accepted", "rejected"} : Create(m, out)
         \/ Refuse \/ Ready
         \/ \E m \in Mods : Start(m) \/ FirstPoll(m)
         \/ \E m \in Mods, p \in Params : Write(m, p) \/ WriteRefused(m, p)

NTypeOK == /\ registered \subseteq Mods /\ started \subseteq Mods /\ polled \subseteq started
           /\ node \in {"building", "refused", "running"}
(* rejected whole: a failing module is never registered; a refused node reports ALL failing modules, *)
(* started nothing and wrote nothing                                                                 *)
NoHalfModule == registered \cap Rejected = {}
RefusedWhole == node = "refused" => /\ reported = Rejected /\ Rejected # {}
                                    /\ started = {} /\ polled = {}
                                    /\ \A m \in Mods : created[m] = "accepted" => pending[m] = WriteSet(CfgOf[m])
NeverIgnored == \A m \in Mods : (Failing(CfgOf[m]) # {} \/ Missing(CfgOf[m]) # {} \/ kindof[m] = "noclass") /\ created[m] # "no"
                                   => created[m] = "rejected" /\ node # "running"
DecideFirst == started # {} => AllCreated /\ Rejected = {}
WritesBeforePoll == \A m \in polled : pending[m] = {}
WritesBeforeReady == ready => \A m \in Mods : pending[m] = {}      \* (also the never polled modules)
(* exactly once: a parameter leaves `pending` once and never comes back *)
WriteOnce == [][\A m \in Mods : pending'[m] \subseteq pending[m] \/ created[m] = "no"]_nvars
=============================================================================
