---------------------------- MODULE LinkedSerial ----------------------------
(* C18, concurrent driver updates seen from outside: because an update and   *)
(* its consistency callbacks are ONE locked step (LinkedConc, Locked), every *)
(* execution of several driver threads is a serial order of complete         *)
(* updates.  A job of a thread is a driver assignment                        *)
(*    am : self.<x>_<m> = v    (struct x without combined access methods)    *)
(*    as : self.<x> = sv       (struct x with combined access methods)       *)
(*    ai : self.r_idx = i      (index of the float parameter r)              *)
(* or a hardware access through the generated methods (they hold the module's *)
(* access lock from the driver call to the last announcement)                 *)
(*    rs : read_<x>()          reads all members of struct x from the hardware *)
(*    wm : write_<x>_<m>(v)    writes one member to the hardware              *)
(* and is observed through the updates it announces (kind str / mem / idx /  *)
(* flt).  The first announcement of a job is the point where the whole job   *)
(* takes effect; until all its announcements were seen no other thread       *)
(* announces anything; every announced value is the value after the job.     *)
EXTENDS Naturals, Sequences, FiniteSets, TLC
CONSTANTS Threads, Structs, Members, Vals, Idxs

Tab(i) == CASE i = 0 -> 1 [] i = 1 -> 3 [] i = 2 -> 7 [] OTHER -> 0

VARIABLES hw,                       \* what the hardware holds, per struct name and member
          str, mem, idx, fval,      \* struct and member caches per struct name, index and float
          script, pos,              \* jobs of every thread and the number of the next one
          busy, pend                \* the thread whose job is being announced, what it still has to announce
svars == <<hw, str, mem, idx, fval, script, pos, busy, pend>>

Fn == [Members -> Vals]
SInit(sc, hw0) == /\ hw = hw0
             /\ str = [x \in Structs |-> [m \in Members |-> 0]] /\ mem = str
             /\ idx = 0 /\ fval = Tab(0)
             /\ script = sc /\ pos = [w \in DOMAIN sc |-> 1]
             /\ busy = "none" /\ pend = {}

(* identification of a parameter: <<kind, struct name, member name>> *)
Emits(j) == CASE j.k = "am" -> {<<"str", j.x, "">>, <<"mem", j.x, j.m>>}
              [] j.k = "as" -> {<<"str", j.x, "">>} \cup {<<"mem", j.x, m>> : m \in Members}
              [] j.k = "ai" -> {<<"idx", "", "">>, <<"flt", "", "">>}
              [] j.k = "rs" -> {<<"str", j.x, "">>} \cup {<<"mem", j.x, m>> : m \in Members}
              [] j.k = "wm" -> {<<"str", j.x, "">>, <<"mem", j.x, j.m>>}
Apply(j) == CASE j.k = "am" -> /\ mem' = [mem EXCEPT ![j.x][j.m] = j.v]
                               /\ str' = [str EXCEPT ![j.x][j.m] = j.v] /\ UNCHANGED <<hw, idx, fval>>
              [] j.k = "as" -> /\ mem' = [mem EXCEPT ![j.x] = j.sv]
                               /\ str' = [str EXCEPT ![j.x] = j.sv] /\ UNCHANGED <<hw, idx, fval>>
              [] j.k = "ai" -> idx' = j.i /\ fval' = Tab(j.i) /\ UNCHANGED <<hw, str, mem>>
              [] j.k = "rs" -> /\ mem' = [mem EXCEPT ![j.x] = hw[j.x]]
                               /\ str' = [str EXCEPT ![j.x] = hw[j.x]] /\ UNCHANGED <<hw, idx, fval>>
              [] j.k = "wm" -> /\ hw' = [hw EXCEPT ![j.x][j.m] = j.v]
                               /\ mem' = [mem EXCEPT ![j.x][j.m] = j.v]
                               /\ str' = [str EXCEPT ![j.x][j.m] = j.v] /\ UNCHANGED <<idx, fval>>
(* value of a parameter in the state after the step *)
ValueOK(p, v) == CASE p[1] = "str" -> v = str'[p[2]]
                   [] p[1] = "mem" -> v = mem'[p[2]][p[3]]
                   [] p[1] = "idx" -> v = idx'
                   [] p[1] = "flt" -> v = fval'

(* thread w announces parameter p with value v *)
Announce(w, p, v) ==
    /\ IF busy = "none"
       THEN /\ pos[w] <= Len(script[w])
            /\ LET j == script[w][pos[w]] IN
                 /\ p \in Emits(j) /\ Apply(j)
                 /\ pend' = Emits(j) \ {p}
                 /\ busy' = (IF Emits(j) = {p} THEN "none" ELSE w)
            /\ pos' = [pos EXCEPT ![w] = pos[w] + 1]
       ELSE /\ busy = w /\ p \in pend
            /\ pend' = pend \ {p} /\ busy' = (IF pend = {p} THEN "none" ELSE w)
            /\ UNCHANGED <<hw, str, mem, idx, fval, pos>>
    /\ ValueOK(p, v)
    /\ UNCHANGED script

Finished == busy = "none" /\ \A w \in DOMAIN script : pos[w] = Len(script[w]) + 1
Agree == /\ \A x \in Structs : str[x] = mem[x]
         /\ fval = Tab(idx)
=============================================================================
