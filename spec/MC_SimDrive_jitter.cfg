SPECIFICATION DSpec
CONSTANTS
  Vals = {0, 4, 8}
  Ramps = {0, 2}
  Jitters = {2}
  Shapes = {"ramp"}
INVARIANT TypeOK
INVARIANT Storage
INVARIANT ReadNear
CONSTRAINT Window
PROPERTY BusyOnChange
PROPERTY BusyUntilArrival
PROPERTY BusyAfterTick
PROPERTY NoOvershoot
PROPERTY RampRate
PROPERTY Progress
PROPERTY Settles
PROPERTY OnlyTickMoves
CHECK_DEADLOCK FALSE
