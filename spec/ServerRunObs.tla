--------------------------- MODULE ServerRunObs ---------------------------
(* X06 - the run loop of a frappy node (frappy/server.py: Server.__init__, run, restart, shutdown,       *)
(* _interfaceThread, signal_handler) restated over OBSERVABLE events only.  It composes what C15          *)
(* (Lifecycle: modules of one generation) and C19 (DiscoveryServer: responder generations) state          *)
(* separately: GENERATIONS of a node.  An execution of the real code is a sequence of events              *)
(*    boot g | create g m | start g m | ready g | poll g m            (main thread / poll thread)         *)
(*    if_begin g i | bind g i | serve_b g i | serve_e g i res | close g i | if_end g i   (interface i)    *)
(*    report g i kind | noiface g | up g ann | disc_new g given | announce g p | disc_close g | disc_end g *)
(*    stopped g | mdown g m | hook g | down g | ret | exc name                                            *)
(*    req_b r kind | req_e r kind exc | sig_b | sig_e | crash i | quiet ...       (environment)           *)
(* in the total order of the deterministic scheduler.  Step(s, e) gives the states after event e - or a   *)
(* state whose field rej names the clause that forbids e.  What is demanded:                              *)
(*  G1 ModulesBeforeListen  an interface of generation g listens only while all modules of g are started  *)
(*                          (created and started before the first bind, shut down after the last close)   *)
(*  G2 AnnounceExact        `_interfaces`, the log line and the discovery responder name exactly the      *)
(*                          interfaces that listen at that moment; a start-up broadcast names a port that  *)
(*                          listens                                                                       *)
(*  G3 FailedReported       an interface that did not come up is reported once, before the node goes on;  *)
(*                          'timeout' only after the 12 s have elapsed; start-up is over 12 s after ready  *)
(*  G4 NoInterface          without any interface the node stops AND leaves no module running             *)
(*  G5 GenerationOrder      boot of g+1 only when every module of g is shut down (exactly once), every    *)
(*                          interface thread of g has ended, the responder of g is closed, the hook was   *)
(*                          called once; no poll of a generation that is not the current, started one      *)
(*  R1 RestartJustified     a new generation needs a restart request of its own (requests arriving while  *)
(*                          one is pending are merged into it)                                             *)
(*  R2 RestartHonoured      an accepted restart request is not forgotten (checked at the end: quiet)      *)
(*  S1 ShutdownFinal        no new generation and no serving loop entered after a shutdown request has     *)
(*                          returned; nothing enters its serving loop after any stop request of this       *)
(*                          generation has returned                                                        *)
(*  S2 ShutdownHonoured     once a shutdown was requested, run() returns, 'shut down' is logged once,      *)
(*                          nothing is left (threads, sockets, modules)              (at the end: quiet)   *)
(*  E1 RequestsReturn       restart() / shutdown() return without exception, whenever they are called      *)
EXTENDS Integers, Sequences, FiniteSets, TLC

CONSTANTS MaxIf, Mods

Ifs == 1 .. MaxIf
ToSet(q) == {q[k] : k \in DOMAIN q}
Stem == [plain |-> "x06node", path |-> "x06node_cfg"]
StartTimeout == 120          \* tenths of a second

S0 == [gen |-> 0, ph |-> "init", mods |-> [m \in Mods |-> "none"], ifs |-> [i \in Ifs |-> "none"],
       thr |-> [i \in Ifs |-> "none"], rep |-> [i \in Ifs |-> "none"], ann |-> {}, disc |-> "none",
       oldDisc |-> {}, run |-> "no", openR |-> {}, freshR |-> {}, pend |-> FALSE, shutOpen |-> {},
       shutAny |-> FALSE, shutDone |-> FALSE, stopDone |-> FALSE, hooks |-> 0, downs |-> 0,
       crashInj |-> {}, ishReq |-> {}, readyAt |-> 0, mode |-> "", nif |-> 0, nameform |-> "plain",
       reqGen |-> {}, kinds |-> <<>>, early |-> FALSE, raced |-> FALSE, aborted |-> FALSE, modsLeft |-> {}, devs |-> {}, rej |-> ""]

Fail(s, why) == [s EXCEPT !.rej = why]
(* the first clause (in list order) that does not hold, "" if all hold *)
First(cs) == IF \A k \in DOMAIN cs : cs[k][1] THEN ""
             ELSE cs[CHOOSE k \in DOMAIN cs : ~cs[k][1] /\ \A j \in 1 .. k - 1 : cs[j][1]][2]
(* checked step: all clauses hold -> the given next states, otherwise the rejection *)
Chk(s, cs, nxt) == IF First(cs) = "" THEN nxt ELSE {Fail(s, First(cs))}

Listening(s) == {i \in Ifs : s.ifs[i] \in {"bound", "serving"}}
Configured(s) == 1 .. s.nif
AllMods(s, v) == \A m \in Mods : s.mods[m] = v
ThreadsGone(s) == \A i \in Ifs : s.thr[i] \in {"none", "end"}
RestartWanted(s) == s.pend \/ s.openR # {}
TestOnly(s) == s.mode = "testonly"
BadCfg(s) == (s.mode = "badcfg1" /\ s.gen = 1) \/ (s.mode = "badcfg2" /\ s.gen = 2)

NewGen(s, g) == [s EXCEPT !.gen = g, !.ph = "boot", !.mods = [m \in Mods |-> "none"],
                          !.ifs = [i \in Ifs |-> "none"], !.thr = [i \in Ifs |-> "none"],
                          !.rep = [i \in Ifs |-> "none"], !.ann = {}, !.disc = "none", !.hooks = 0,
                          !.pend = FALSE, !.freshR = {}, !.stopDone = FALSE, !.ishReq = {}, !.run = "run"]

H_cfg(s, e) == {[s EXCEPT !.nif = e.nif, !.mode = e.mode, !.nameform = e.nameform, !.kinds = e.kinds]}

(* what the environment does to interface i at the (re)start of the current generation: an interface whose bind  *)
(* succeeds at once, after at most four 'address in use' (the retries of TCPServer, 4.5 s) or after a slow (5 s)   *)
(* constructor has to come up; one that comes up after the time-out may be given up                                *)
KindOf(s, i) == IF s.gen >= 1 /\ s.gen <= Len(s.kinds) /\ i <= Len(s.kinds[s.gen]) THEN s.kinds[s.gen][i] ELSE "?"
ComesUp(s, i) == KindOf(s, i) \in {"ok", "inuse1", "inuse2", "inuse3", "inuse4", "slow"}
(* address in use five times and more: TCPServer gives up (after 4.5 s); permission denied / refused: at once;    *)
(* an option the interface class does not know: the interface must not serve                                      *)
GivesUp(s, i) == KindOf(s, i) \in {"inuse5", "inuse6", "inuse7", "inuse8", "inuse9", "denied", "fail"}
TakesLong(s, i) == KindOf(s, i) \in {"late", "-"}
StopAsked(s) == s.stopDone \/ s.shutAny \/ s.ishReq # {} \/ s.openR # {} \/ s.pend

H_init(s, e) ==
  Chk(s, << <<s.mode # "noif", "init.no interface but accepted">>,
            <<e.name = Stem[s.nameform], "init.name is the file stem">>,
            <<e.main = 1, "init.main interface">>,
            <<ToSet(e.handlers) = {"sigint", "sigterm"}, "init.both signal handlers installed">>,
            <<e.disc, "init.no responder yet">> >>, {s})

H_init_exc(s, e) ==
  Chk(s, << <<s.mode = "noif" /\ e.exc = "ConfigError", "init.refused">> >>, {[s EXCEPT !.run = "exc"]})

H_boot(s, e) ==
  Chk(s, << <<e.g = s.gen + 1, "boot.generation number">>,
            <<s.run \in {"no", "run"}, "boot.after run() ended">>,
            <<s.gen = 0 \/ s.ph = "hooked", "G5.boot before previous is down">>,
            <<s.gen = 0 \/ s.disc # "open", "G5.old responder still open">>,
            <<~s.shutDone, "S1.generation after shutdown()">>,
            <<s.gen = 0 \/ RestartWanted(s), "R1.generation without restart request">> >>,
      {NewGen(s, e.g)})

H_create(s, e) ==
  Chk(s, << <<e.g = s.gen /\ s.ph = "boot", "create.phase">>,
            <<s.mods[e.m] = "none", "create.twice">> >>,
      {[s EXCEPT !.mods[e.m] = "created"]})

H_start(s, e) ==
  Chk(s, << <<e.g = s.gen /\ s.ph = "boot", "start.phase">>,
            <<~TestOnly(s), "start.test mode starts nothing">>,
            <<s.mods[e.m] = "created", "start.not created / twice">> >>,
      {[s EXCEPT !.mods[e.m] = "started"]})

H_ready(s, e) ==
  Chk(s, << <<e.g = s.gen /\ s.ph = "boot", "ready.phase">>,
            <<IF TestOnly(s) THEN AllMods(s, "created") ELSE AllMods(s, "started"), "ready.modules">> >>,
      {[s EXCEPT !.ph = "ready", !.readyAt = e.vt]})

H_poll(s, e) ==
  Chk(s, << <<e.g = s.gen \/ e.g \in s.modsLeft, "G5.poll of a generation that is gone">>,
            <<e.g # s.gen \/ s.mods[e.m] = "started", "G5.poll of a module not started">> >>, {s})

H_if_begin(s, e) ==
  Chk(s, << <<e.g = s.gen /\ s.ph = "ready", "if_begin.phase">>,
            <<s.thr[e.i] = "none", "if_begin.twice">> >>,
      {[s EXCEPT !.thr[e.i] = "run"]})

H_bind(s, e) ==
  Chk(s, << <<e.g = s.gen /\ s.thr[e.i] = "run" /\ s.ifs[e.i] \in {"none", "failed"}, "bind.state">>,
            <<s.ph \in {"ready", "up"} /\ AllMods(s, "started"), "G1.listening without started modules">>,
            <<~GivesUp(s, e.i), "bind.retry budget exceeded, listens">> >>,
      {[s EXCEPT !.ifs[e.i] = "bound"]})

H_bindfail(s, e) ==
  Chk(s, << <<e.g = s.gen /\ s.thr[e.i] = "run" /\ s.ifs[e.i] \in {"none", "failed"}, "bindfail.state">> >>,
      {[s EXCEPT !.ifs[e.i] = "failed"]})

H_serve_b(s, e) ==
  Chk(s, << <<e.g = s.gen /\ s.ifs[e.i] = "bound", "serve_b.state">>,
            <<s.ph \in {"ready", "up"} /\ AllMods(s, "started"), "G1.serving without started modules">>,
            <<KindOf(s, e.i) # "opts", "serve_b.unknown option accepted">>,
            <<~s.stopDone /\ ~s.shutDone, "S1.serves after a stop returned">> >>,
      {[s EXCEPT !.ifs[e.i] = "serving"]})

H_serve_e(s, e) ==
  Chk(s, << <<e.g = s.gen /\ s.ifs[e.i] = "serving", "serve_e.state">>,
            <<IF e.res = "crash" THEN e.i \in s.crashInj ELSE e.i \in s.ishReq, "serve_e.left without request">> >>,
      {[s EXCEPT !.ifs[e.i] = IF e.res = "crash" THEN "crashed" ELSE "served"]})

H_close(s, e) ==
  Chk(s, << <<e.g = s.gen /\ s.ifs[e.i] \in {"bound", "served", "crashed"}, "close.state">> >>,
      {[s EXCEPT !.ifs[e.i] = IF @ = "crashed" THEN "crashclosed" ELSE "closed"]})

H_if_end(s, e) ==
  Chk(s, << <<e.g = s.gen /\ s.thr[e.i] = "run", "if_end.state">>,
            <<s.ifs[e.i] \in {"none", "failed", "closed", "crashclosed"}, "if_end.leaves its socket open">> >>,
      {[s EXCEPT !.thr[e.i] = "end"]})

H_ish_b(s, e) == {IF e.g = s.gen THEN [s EXCEPT !.ishReq = @ \cup {e.i}] ELSE s}

H_report(s, e) ==
  IF s.ph = "ready"
  THEN Chk(s, << <<e.g = s.gen /\ e.i \in Configured(s), "report.which">>,
                 <<s.rep[e.i] = "none", "G3.reported twice">>,
                 <<e.i \notin Listening(s), "G3.listening one reported dead">>,
                 <<~ComesUp(s, e.i) \/ StopAsked(s) \/ e.i \in s.crashInj, "G3.startable interface given up">>,
                 <<e.kind = "timeout" => e.vt - s.readyAt >= StartTimeout - 1, "G3.time-out reported before 12 s">>,
                 <<e.kind = "timeout" => (TakesLong(s, e.i) \/ StopAsked(s)), "G3.time-out reported of a prompt one">>,
                 <<e.kind = "fail" => s.ifs[e.i] \in {"failed", "closed", "crashclosed"}, "G3.failure reported, did not fail">> >>,
           {[s EXCEPT !.rep[e.i] = e.kind]})
  ELSE Chk(s, << <<e.g = s.gen /\ s.ph = "up" /\ ThreadsGone(s), "report.phase">>,
                 <<s.ifs[e.i] = "crashclosed" /\ e.kind = "fail", "report.loop that did not fail">> >>,
           {[s EXCEPT !.ifs[e.i] = "closed"]})

StartupOver(s, e) == e.vt - s.readyAt <= StartTimeout + 1
AllReported(s) == \A i \in Configured(s) : i \in Listening(s) \/ s.rep[i] # "none"

H_noiface(s, e) ==
  Chk(s, << <<e.g = s.gen /\ s.ph = "ready", "noiface.phase">>,
            <<Listening(s) = {}, "G4.gives up although one listens">>,
            <<AllReported(s), "G3.dead interface not reported">>,
            <<StartupOver(s, e), "G3.start-up longer than time-out">> >>,
      {[s EXCEPT !.ph = "noif"]})

H_up(s, e) ==
  Chk(s, << <<e.g = s.gen /\ s.ph = "ready", "up.phase">>,
            <<ToSet(e.ann) = Listening(s) \ {i \in Ifs : s.rep[i] # "none"}, "G2._interfaces is not what listens">>,
            <<ToSet(e.named) = ToSet(e.ann), "G2.log line names other interfaces">>,
            <<Listening(s) # {}, "G4.goes on without any interface">>,
            <<AllReported(s), "G3.dead interface not reported">>,
            <<StartupOver(s, e), "G3.start-up longer than time-out">> >>,
      {[s EXCEPT !.ph = "up", !.ann = ToSet(e.ann)]})

H_disc_new(s, e) ==
  Chk(s, << <<e.g = s.gen /\ s.ph = "up" /\ s.disc = "none", "disc_new.phase">>,
            <<ToSet(e.given) = s.ann, "G2.responder given other interfaces">>,
            <<ToSet(e.given) \subseteq (Listening(s) \cup s.crashInj) \/ s.stopDone \/ s.ishReq # {},
              "G2.responder for dead interfaces">> >>,
      {[s EXCEPT !.disc = "open"]})

H_announce(s, e) ==
  Chk(s, << <<(e.g = s.gen /\ s.disc = "open") \/ e.g \in s.oldDisc, "announce.by a closed responder">>,
            <<e.g \in s.oldDisc \/ e.p \in Listening(s) \/ e.p \in s.crashInj, "G2.announced a dead port">> >>, {s})

H_disc_end(s, e) ==
  Chk(s, << <<e.g # s.gen \/ s.disc = "closed", "disc_end.responder ends by itself">> >>, {s})

H_notify(s, e) ==
  Chk(s, << <<e.what = "INIT" => s.ph \in {"init", "hooked"}, "notify.initializing">>,
            <<e.what = "READY" => (s.ph = "up" /\ s.disc # "none"), "notify.ready before the node serves">>,
            <<e.what = "RELOADING" => (s.ph = "stopped" /\ RestartWanted(s)), "notify.reloading without restart">>,
            <<e.what = "STOPPING" => (s.ph = "stopped" /\ (~s.pend \/ s.shutAny)), "notify.stopping although restarting">> >>, {s})

H_disc_close(s, e) ==
  {IF e.g = s.gen THEN [s EXCEPT !.disc = "closed"] ELSE [s EXCEPT !.oldDisc = @ \ {e.g}]}

H_stopped(s, e) ==
  Chk(s, << <<e.g = s.gen /\ (s.ph \in {"up", "noif"} \/ (s.ph = "ready" /\ (s.shutAny \/ RestartWanted(s)))), "stopped.phase">>,
            <<ThreadsGone(s) /\ Listening(s) = {}, "G5.wind-down with live interface">>,
            <<\A i \in Ifs : s.ifs[i] # "crashclosed", "G3.failed loop not reported">> >>,
      {[s EXCEPT !.ph = "stopped"]})

H_mdown(s, e) ==
  Chk(s, << <<e.g = s.gen /\ s.ph \in {"stopped", "noif"}, "G1.module shut down while serving">>,
            <<s.mods[e.m] = "started", "G5.module shut down twice">> >>,
      {[s EXCEPT !.mods[e.m] = "down"]})

H_hook(s, e) ==
  Chk(s, << <<e.g = s.gen /\ s.ph = "stopped" /\ AllMods(s, "down"), "hook.phase">>,
            <<s.hooks = 0, "G5.hook called twice">>,
            <<~s.shutDone, "S1.hook after shutdown() returned">>,
            <<RestartWanted(s), "R1.hook without restart request">> >>,
      {[s EXCEPT !.ph = "hooked", !.hooks = 1]})

H_down(s, e) ==
  Chk(s, << <<s.downs = 0, "S2.'shut down' logged twice">>,
            <<s.gen = 0 \/ (s.ph \in {"stopped", "hooked"} /\ AllMods(s, "down")), "down.phase">>,
            <<~(s.pend /\ ~s.shutAny), "R2.ends despite accepted restart">> >>,
      {[s EXCEPT !.ph = "end", !.downs = 1]})

H_ret(s, e) ==
  IF TestOnly(s)
  THEN Chk(s, << <<s.ph = "ready", "ret.test mode">> >>, {[s EXCEPT !.run = "ret"]})
  ELSE Chk(s, << <<s.ph \in {"end", "noif"}, "ret.phase">>,
                 <<s.ph = "noif" => ~AllMods(s, "none"), "ret.phase">>,
                 <<Listening(s) = {}, "ret.an interface still listens">>,
                 <<\A m \in Mods : s.mods[m] \in {"none", "down"}, "G4.returns leaving modules running">> >>,
           {[s EXCEPT !.run = "ret"]})

H_exc(s, e) ==
  Chk(s, << <<s.ph = "boot" /\ ((BadCfg(s) /\ e.exc = "SystemExit") \/ (s.mode = "startexc" /\ e.exc = "RuntimeError")),
              "exc.run() raises">>,
            <<BadCfg(s) => \A m \in Mods : s.mods[m] # "started", "exc.refused but a module started">> >>,
      {[s EXCEPT !.run = "exc"]})

Early(s) == s.early \/ s.ph \in {"init", "boot", "ready"}
H_req_b(s, e) ==
  LET s1 == [s EXCEPT !.reqGen = @ \cup {<<e.r, s.gen, s.ph>>}, !.early = Early(s),
                      \* a restart and a shutdown request at the same time
                      !.raced = @ \/ (IF e.kind = "restart" THEN s.shutOpen # {} ELSE s.openR # {})] IN
  IF e.kind = "restart"
  THEN \* (a node that is already going down - by itself or on request - may ignore the request or restart)
       {[s1 EXCEPT !.openR = @ \cup {e.r},
                   !.freshR = IF s.shutDone \/ s.ph \in {"noif", "stopped", "end"} THEN @ ELSE @ \cup {e.r}]}
  ELSE {[s1 EXCEPT !.shutOpen = @ \cup {e.r}, !.shutAny = TRUE]}

(* the request was made and returned inside one generation that had begun and not yet wound down by itself *)
Within(s, r) == \E x \in s.reqGen : x[1] = r /\ x[2] = s.gen /\ s.gen > 0 /\ x[3] \notin {"init", "hooked", "end"}
                                   /\ s.ph \notin {"hooked", "end"}

(* the node is going down by itself (no interface left / all serving loops failed), nobody asked an interface to *)
(* stop: a restart request that meets this may be ignored                                                         *)
SelfDown(s) == s.ph \in {"noif", "stopped", "end"} /\ s.ishReq = {}

H_req_e(s, e) ==
  IF e.exc # "" THEN {Fail(s, "E1.request raises")}
  ELSE LET sd == s.stopDone \/ Within(s, e.r) IN
       IF e.kind = "restart"
       THEN LET s1 == [s EXCEPT !.openR = @ \ {e.r}, !.freshR = @ \ {e.r}, !.stopDone = sd] IN
            IF e.r \in s.freshR /\ ~s.shutAny /\ ~SelfDown(s) THEN {[s1 EXCEPT !.pend = TRUE]}
            ELSE IF e.r \in s.freshR \/ (e.r \in s.openR /\ ~s.shutDone) THEN {s1, [s1 EXCEPT !.pend = TRUE]}
            ELSE {s1}
       ELSE {[s EXCEPT !.shutOpen = @ \ {e.r}, !.shutDone = TRUE, !.stopDone = sd]}

(* a signal is a shutdown request; when the handler returns the shutdown has been REQUESTED (the handler may *)
(* carry it out itself or hand it to another thread): only S2 speaks about it                                  *)
H_sig_b(s, e) == {[s EXCEPT !.shutOpen = @ \cup {"sig"}, !.shutAny = TRUE, !.reqGen = @ \cup {<<"sig", s.gen, s.ph>>},
                             !.early = Early(s), !.raced = @ \/ s.openR # {}]}
H_sig_e(s, e) == {[s EXCEPT !.shutOpen = @ \ {"sig"}]}

H_crash(s, e) == {[s EXCEPT !.crashInj = @ \cup {e.i}]}

Pairs(q) == {<<q[k][1], q[k][2]>> : k \in DOMAIN q}
H_quiet(s, e) ==
  IF s.aborted THEN {s} ELSE
  Chk(s, << <<~e.livelock /\ e.reqalive = <<>>, "E1.a request never returns">>,
            <<s.openR = {} /\ s.shutOpen = {}, "E1.a request never returns">>,
            <<s.run = "exc" \/ ~s.shutAny \/ (e.run = "ret" /\ s.run = "ret"), "S2.shutdown lost, run() goes on">>,
            <<~(s.pend /\ ~s.shutAny /\ s.run # "exc"), "R2.accepted restart never happened">>,
            <<(e.run = "alive") = (s.run = "run"), "quiet.run state">>,
            <<s.run # "run" \/ TestOnly(s) \/ (s.ph = "up" /\ s.disc = "open"), "quiet.neither serving nor ended">>,
            <<s.run # "run" \/ TestOnly(s) \/ s.gen \in ToSet(e.discalive), "quiet.no responder thread">>,
            <<s.run # "run" \/ TestOnly(s) \/ (ToSet(e.discopen) = {s.gen} \cup s.oldDisc /\ ToSet(e.polls) = {s.gen}
                                /\ {p[2] : p \in Pairs(e.listening)} = Listening(s)
                                /\ \A p \in Pairs(e.listening) : p[1] = s.gen),
              "quiet.serving node owns other things">>,
            <<s.run = "run" \/ (e.ifalive = <<>> /\ e.listening = <<>>), "S2.interface left after the end">>,
            <<s.run = "run" \/ ~s.shutAny \/ (e.discopen = <<>> /\ e.discalive = <<>>), "S2.responder left after the end">>,
            <<s.run = "run" \/ s.mode = "startexc" \/ ToSet(e.polls) \subseteq s.modsLeft, "S2.poll thread left after the end">>,
            <<s.run # "ret" \/ TestOnly(s) \/ s.ph = "noif" \/ s.downs = 1, "S2.'shut down' not logged">> >>,
      {s})

Step(s, e) ==
  CASE e.ev = "cfg" -> H_cfg(s, e)
    [] e.ev = "init" -> H_init(s, e)
    [] e.ev = "init_exc" -> H_init_exc(s, e)
    [] e.ev = "boot" -> H_boot(s, e)
    [] e.ev = "create" -> H_create(s, e)
    [] e.ev = "start" -> H_start(s, e)
    [] e.ev = "ready" -> H_ready(s, e)
    [] e.ev = "poll" -> H_poll(s, e)
    [] e.ev = "if_begin" -> H_if_begin(s, e)
    [] e.ev = "bind" -> H_bind(s, e)
    [] e.ev = "bindfail" -> H_bindfail(s, e)
    [] e.ev = "serve_b" -> H_serve_b(s, e)
    [] e.ev = "serve_e" -> H_serve_e(s, e)
    [] e.ev = "close" -> H_close(s, e)
    [] e.ev = "if_end" -> H_if_end(s, e)
    [] e.ev = "ish_b" -> H_ish_b(s, e)
    [] e.ev = "report" -> H_report(s, e)
    [] e.ev = "noiface" -> H_noiface(s, e)
    [] e.ev = "up" -> H_up(s, e)
    [] e.ev = "disc_new" -> H_disc_new(s, e)
    [] e.ev = "announce" -> H_announce(s, e)
    [] e.ev = "disc_close" -> H_disc_close(s, e)
    [] e.ev = "disc_end" -> H_disc_end(s, e)
    [] e.ev = "notify" -> H_notify(s, e)
    [] e.ev = "stopped" -> H_stopped(s, e)
    [] e.ev = "mdown" -> H_mdown(s, e)
    [] e.ev = "hook" -> H_hook(s, e)
    [] e.ev = "down" -> H_down(s, e)
    [] e.ev = "ret" -> H_ret(s, e)
    [] e.ev = "exc" -> H_exc(s, e)
    [] e.ev = "req_b" -> H_req_b(s, e)
    [] e.ev = "req_e" -> H_req_e(s, e)
    [] e.ev = "sig_b" -> H_sig_b(s, e)
    [] e.ev = "sig_e" -> H_sig_e(s, e)
    [] e.ev = "crash" -> H_crash(s, e)
    [] e.ev = "quiet" -> H_quiet(s, e)
    [] OTHER -> {s}          \* hints (ish_e, restarting, sig_sent, ...)
=============================================================================
