SPECIFICATION TSpec
CONSTANTS
  NClasses = 0
  NInsts = 0
  Bodies = {}
  Cfgs = {}
  Muts = {}
  DescIds = {}
  MaxBases = 0
  MaxMuts = 0
  MaxLevel = 0
CONSTRAINT Track
INVARIANT TInv
POSTCONDITION Verdicts
CHECK_DEADLOCK FALSE
