SPECIFICATION GSpec
CONSTANTS
  MaxIf = 2
  MaxGen = 2
  RestartRule = "stop_old"
  PortRule = "opened"
  ShutdownRule = "close_always"
  TeardownOrder = "responder_first"
INVARIANT Emit1
CHECK_DEADLOCK FALSE
