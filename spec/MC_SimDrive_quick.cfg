SPECIFICATION DSpec
CONSTANTS
  Vals = {0, 16, 48, 80}
  Ramps = {0, 16, 32}
  Jitters = {0}
  Shapes = {"ramp", "none", "writable", "readable"}
INVARIANT TypeOK
INVARIANT Storage
INVARIANT WritableFollows
PROPERTY BusyOnChange
PROPERTY BusyUntilArrival
PROPERTY BusyAfterTick
PROPERTY NoOvershoot
PROPERTY RampRate
PROPERTY Progress
PROPERTY Settles
PROPERTY OnlyTickMoves
CHECK_DEADLOCK FALSE
