SPECIFICATION TSpec
CONSTANTS
  Vals = {0}
  Ramps = {0}
  Shapes = {"ramp", "speed", "none", "writable", "readable"}
  Jitters = {0}
CONSTRAINT Track
INVARIANT Done
POSTCONDITION Verdicts
CHECK_DEADLOCK FALSE
