SPECIFICATION TSpec
CONSTANTS
  Vals = {0}
  Ramps = {0}
  Shapes = {"ramp", "speed", "none"}
  Jitters = {0}
CONSTRAINT Track
INVARIANT Done
POSTCONDITION Verdicts
CHECK_DEADLOCK FALSE
