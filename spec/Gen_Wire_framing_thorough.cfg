SPECIFICATION GFSpec
CONSTANTS
  MaxLen = 5
  ReadSize = 5
  Classes = {"idn"}
  MaxPend = 1
  Threads = {"req"}
  UseLock = TRUE
  CheckRunning = TRUE
  Depth = 0
  FullDepth = 0
  WideDepth = 0
  Wide = {}
  Pauses = FALSE
  Core = {}
INVARIANT EmitF
INVARIANT FramingOK
CHECK_DEADLOCK FALSE
