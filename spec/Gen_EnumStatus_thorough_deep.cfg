SPECIFICATION SSpec
CONSTANTS
  Names = {"a"}
  IntVals <- IV_small
  Specials = {}
  DispNames = {""}
  MaxPieces = 1
  MaxExt = 1
  MaxDepth = 1
  AsImpl = {}
  MaxClasses = 3
  StdArgs <- SA_deep
  KwArgs <- KA_deep
  ExtraKinds = {}
INVARIANT Monotone
INVARIANT AllBijections
PROPERTY FrozenClasses
INVARIANT Emit
CHECK_DEADLOCK FALSE
