SPECIFICATION RSpec
CONSTANTS
  Conns = {"c1"}
  Mods = {"m1", "m2"}
  Used = {"comlog", "info", "off"}
  ComMods = {"m1"}
  Configs <- CfgSwitchesQuick
  MaxDay = 1
INVARIANT TypeOK
INVARIANT DeadSilent
INVARIANT ExactRouting
INVARIANT ExactSinks
INVARIANT ComlogNeverInMainFile
INVARIANT ComlogOnceInComlogFile
INVARIANT RetentionOK
PROPERTY SinksIsolated
PROPERTY RolloverKeepsNewest
PROPERTY CfgFixed
CHECK_DEADLOCK FALSE
