SPECIFICATION Spec
CONSTANTS
  States = {"A", "B", "K1"}
  StartStates = {"A", "B"}
  CleanupTargets = {"K1"}
  Keys = {"x"}
  Vals = {"1"}
  MaxLoops = 2
  Construct = FALSE
  Concurrent = TRUE
INVARIANT TypeOK
INVARIANT CycleBounded
INVARIANT InitFlag
INVARIANT CleanupAtMostOnce
INVARIANT CleanupOnlyWhenInterrupted
INVARIANT TakenIsCalled
INVARIANT PopOnlyInactive
INVARIANT NoInterruptWhileCleaning
INVARIANT TaskTakenOrCleaning
PROPERTY CleanupConsumedByCall
PROPERTY InterruptedRunCleaned
PROPERTY ReasonStable
PROPERTY StopInactive
PROPERTY OnlyStartActivates
PROPERTY NoLostTask
PROPERTY EnterRequested
PROPERTY AttrsOfRequested
PROPERTY AttrsOnlyAtEntry
