SPECIFICATION RSpec
CONSTANTS
  Conns = {"c1", "c2", "c3"}
  Mods = {"m1", "m2"}
  Used = {"info", "error", "off"}
INVARIANT TypeOK
INVARIANT DeadSilent
INVARIANT ExactRouting
PROPERTY Isolation
PROPERTY ResetClears
CHECK_DEADLOCK FALSE
