--------------------------- MODULE Trace_PollerObs ---------------------------
EXTENDS PollerObs, Json, IOUtils, TLCExt
Traces == JsonDeserialize(IOEnv.TRACE_FILE)
NT == Len(Traces)
VARIABLES t, l
ASSUME \A i \in 1 .. NT : TLCSet(i, 1)
Ev == Traces[t][l]
TInit == PInit /\ t \in 1 .. NT /\ l = 1
TStep ==
  /\ l <= Len(Traces[t])
  /\ l' = l + 1 /\ t' = t
  /\ \/ Ev.ev = "cfg" /\ Cfg(Ev.modules)
     \/ Ev.ev = "started" /\ Started(Ev.t)
     \/ Ev.ev = "call" /\ Call(Ev.t, Ev.m, Ev.fn)
     \/ Ev.ev = "change" /\ Change(Ev.t, Ev.m, Ev.interval, Ev.flag, Ev.isfast)
     \/ Ev.ev = "trigger" /\ Trigger(Ev.m)
     \/ Ev.ev = "end" /\ End(Ev.t, Ev.alive, Ev.exc)
TSpec == TInit /\ [][TStep]_<<pvars, t, l>>
Track == TLCSet(t, IF l > TLCGet(t) THEN l ELSE TLCGet(t))
Verdicts == \A i \in 1 .. NT :
   IF TLCGet(i) = Len(Traces[i]) + 1 THEN PrintT(<<"ACCEPT", i>>)
   ELSE PrintT(<<"REJECT", i, TLCGet(i), "event not allowed by PollerObs">>)
=============================================================================
