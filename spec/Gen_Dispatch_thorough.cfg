SPECIFICATION GSpec
CONSTANTS
  Families = {"A", "B", "C1", "C2", "E", "K", "R", "G"}
  Depth = 6
VIEW View
CONSTRAINT Bound
ACTION_CONSTRAINT EmitStep
INVARIANT EmitShape
CHECK_DEADLOCK FALSE
