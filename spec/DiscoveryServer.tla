--------------------------- MODULE DiscoveryServer ---------------------------
(* C19, server wiring (frappy/server.py run / restart / shutdown / _interfaceThread,   *)
(* frappy/protocol/interface/tcp.py TCPServer.__init__): "a TCP port it really listens *)
(* on", "the node identity".                                                           *)
(* A node is configured with a list of interfaces (tcp / ws).  At every (re)start each  *)
(* of them comes up or fails anew (a port may have been taken meanwhile, or be free     *)
(* again).  The responder of generation g carries the identity (description) the node   *)
(* had when it was (re)started the g-th time and the ports it was given then.  A        *)
(* broadcast discover request reaches every responder that is still running.  Demanded: *)
(* while the node serves, a request is answered exactly once per TCP port that is open  *)
(* NOW, with the identity of NOW; a node that is shut down (or did not come up) is      *)
(* silent.                                                                              *)
EXTENDS Integers, Sequences, FiniteSets, TLC

CONSTANTS MaxIf,        \* maximal number of configured interfaces
          MaxGen,       \* maximal number of (re)starts
          RestartRule,  \* DESIGN parameter: "stop_old" (as repaired) | "leak"
          PortRule      \* DESIGN parameter: "opened" (as implemented) | "configured" | "sticky"

Schemes == {"tcp", "ws"}

VARIABLES cfg,      \* sequence of interface schemes
          up,       \* indices of the interfaces that are open now
          ever,     \* indices that were open in some generation (only used by the "sticky" design)
          phase,    \* "down" | "up" | "stopped"
          gen,      \* number of (re)starts so far
          live,     \* generations whose responder thread still runs
          given,    \* generation -> port indices handed to its responder
          last      \* observable outcome of the last operation (incl. a probe request)
wvars == <<cfg, up, ever, phase, gen, live, given, last>>

Tcp(c) == {i \in 1 .. Len(c) : c[i] = "tcp"}
(* the ports a responder started now is given *)
Ports(c, u, ev) == CASE PortRule = "opened" -> Tcp(c) \cap u
                     [] PortRule = "configured" -> Tcp(c)
                     [] PortRule = "sticky" -> Tcp(c) \cap (ev \cup u)
(* the server gives up when it believes no interface is open *)
Serving(u, ev) == IF PortRule = "sticky" THEN (ev \cup u) # {} ELSE u # {}

(* what the property allows as answers to a probe request *)
Demanded(c, u, ph, g) == IF ph = "up" THEN {<<g, i>> : i \in Tcp(c) \cap u} ELSE {}
(* what the design produces: every running responder answers for the ports it was given *)
Answers(lv, gv) == UNION {{<<g, i>> : i \in gv[g]} : g \in lv}

Seqs(n) == UNION {[1 .. k -> Schemes] : k \in 1 .. n}
WInit == /\ cfg \in Seqs(MaxIf) /\ up = {} /\ ever = {} /\ phase = "down" /\ gen = 0 /\ live = {}
         /\ given = <<>> /\ last = [kind |-> "none"]

(* (re)start with the interfaces u coming up *)
Come(kind, u) ==
    /\ up' = u /\ ever' = ever \cup u
    /\ IF Serving(u, ever)
       THEN /\ phase' = "up" /\ gen' = gen + 1
            /\ live' = (IF RestartRule = "stop_old" THEN {} ELSE live) \cup {gen + 1}
            /\ given' = Append(given, Ports(cfg, u, ever))
       ELSE /\ phase' = "stopped" /\ gen' = gen                    \* "no interface started": run() returns
            /\ live' = IF RestartRule = "stop_old" THEN {} ELSE live
            /\ given' = given
    /\ last' = [kind |-> kind, answers |-> Answers(live', given')]
    /\ UNCHANGED cfg

Boot == phase = "down" /\ \E u \in SUBSET (1 .. Len(cfg)) : Come("boot", u)
Restart == phase = "up" /\ gen < MaxGen /\ \E u \in SUBSET (1 .. Len(cfg)) : Come("restart", u)

Shutdown == /\ phase = "up"
            /\ phase' = "stopped" /\ up' = {}
            /\ live' = IF RestartRule = "stop_old" THEN {} ELSE live \ {gen}
            /\ last' = [kind |-> "shutdown", answers |-> Answers(live', given)]
            /\ UNCHANGED <<cfg, ever, gen, given>>

WNext == Boot \/ Restart \/ Shutdown
WSpec == WInit /\ [][WNext]_wvars

OneResponder == IF phase = "up" THEN live = {gen} ELSE live = {}
AnswersTrue == last.kind # "none" => last.answers = Demanded(cfg, up, phase, gen)
=============================================================================
