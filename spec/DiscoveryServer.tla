--------------------------- MODULE DiscoveryServer ---------------------------
(* C19, server wiring (frappy/server.py run / restart / shutdown / _interfaceThread,   *)
(* frappy/protocol/interface/tcp.py TCPServer.__init__): "a TCP port it really listens *)
(* on", "the node identity".                                                           *)
(* A node is configured with a list of interfaces (tcp / ws).  At every (re)start each  *)
(* of them comes up or fails anew (a port may have been taken meanwhile, or be free     *)
(* again).  The responder of generation g carries the identity (description) the node   *)
(* had when it was (re)started the g-th time and the ports it was given then.  A        *)
(* broadcast discover request reaches every responder that is still running.  Demanded: *)
(* while the node serves, a request is answered exactly once per TCP port that is open  *)
(* NOW, with the identity of NOW; a node that is shut down (or did not come up) is      *)
(* silent.                                                                              *)
(* The responder runs in a thread of its own: between its creation (socket bound,       *)
(* thread started) and the first statement of that thread the server may already be     *)
(* restarted or shut down.  A responder is CREATED, later RUNNING; shutting down a       *)
(* created one closes its socket, so that it ends as soon as it runs.  Answers are      *)
(* judged when no created thread is pending (Probe).                                    *)
(* Restart and shutdown TEAR DOWN step by step: the responder is stopped, the           *)
(* interfaces are closed one at a time (each close blocks until the port is free), and  *)
(* a request may arrive between any two steps: an answer must name only ports that are  *)
(* open at that moment.                                                                 *)
EXTENDS Integers, Sequences, FiniteSets, TLC

CONSTANTS MaxIf,        \* maximal number of configured interfaces
          MaxGen,       \* maximal number of (re)starts
          RestartRule,  \* DESIGN parameter: "stop_old" (as repaired) | "leak"
          PortRule,     \* DESIGN parameter: "opened" (as implemented) | "configured" | "sticky"
          ShutdownRule, \* DESIGN parameter: "close_always" (as implemented) | "guarded" (no-op unless running) | "close_only"
          TeardownOrder \* DESIGN parameter: "responder_first" (as implemented) | "interfaces_first" | "any"
                        \* (trace validation: the order itself is not observable, only the answers are judged)

Schemes == {"tcp", "ws"}

VARIABLES cfg,      \* sequence of interface schemes
          up,       \* indices of the interfaces that are open now
          ever,     \* indices that were open in some generation (only used by the "sticky" design)
          phase,    \* "down" | "up" | "closing" (tearing down for a restart or a shutdown) | "stopped"
          rstopped, \* closing: UDPListener.shutdown of the current responder has been called
          gen,      \* number of (re)starts so far
          created,  \* generations whose responder exists but whose thread has not executed anything yet
          closed,   \* generations whose socket was closed
          live,     \* generations whose responder thread runs (serves requests)
          given,    \* generation -> port indices handed to its responder
          last      \* observable outcome of the last operation (incl. a probe request)
wvars == <<cfg, up, ever, phase, rstopped, gen, created, closed, live, given, last>>

Tcp(c) == {i \in 1 .. Len(c) : c[i] = "tcp"}
(* the ports a responder started now is given *)
Ports(c, u, ev) == CASE PortRule = "opened" -> Tcp(c) \cap u
                     [] PortRule = "configured" -> Tcp(c)
                     [] PortRule = "sticky" -> Tcp(c) \cap (ev \cup u)
(* the server gives up when it believes no interface is open *)
Serving(u, ev) == IF PortRule = "sticky" THEN (ev \cup u) # {} ELSE u # {}

(* what the property allows as answers to a probe request *)
Demanded(c, u, ph, g) == IF ph \in {"up", "closing"} THEN {<<g, i>> : i \in Tcp(c) \cap u} ELSE {}
(* what the design produces: every running responder answers for the ports it was given *)
Answers(lv, gv) == UNION {{<<g, i>> : i \in gv[g]} : g \in lv}

Seqs(n) == UNION {[1 .. k -> Schemes] : k \in 1 .. n}
WInit == /\ cfg \in Seqs(MaxIf) /\ up = {} /\ ever = {} /\ phase = "down" /\ gen = 0 /\ live = {}
         /\ created = {} /\ closed = {} /\ rstopped = FALSE
         /\ given = <<>> /\ last = [kind |-> "none"]

(* UDPListener.shutdown of generation g *)
(* "close_only": close() without shutdown(SHUT_RDWR) does not wake a thread blocked in recvfrom: a running  *)
(* responder stays (its socket remains in the reuse-port group and swallows the requests it gets)          *)
CanClose(g) == \/ ShutdownRule = "close_always"
               \/ ShutdownRule = "guarded" /\ g \in live
               \/ ShutdownRule = "close_only" /\ g \notin live
Stopped(g) == IF RestartRule = "stop_old" /\ g > 0 /\ CanClose(g) THEN {g} ELSE {}

(* (re)start with the interfaces u coming up; held: the new responder thread does not run yet *)
Come(kind, u, held) ==
    /\ up' = u /\ ever' = ever \cup u /\ rstopped' = FALSE
    /\ IF Serving(u, ever)
       THEN /\ phase' = "up" /\ gen' = gen + 1
            /\ created' = IF held THEN created \cup {gen + 1} ELSE created
            /\ live' = live \cup (IF held THEN {} ELSE {gen + 1})
            /\ given' = Append(given, Ports(cfg, u, ever))
       ELSE /\ phase' = "stopped" /\ gen' = gen                    \* "no interface started": run() returns
            /\ created' = created /\ live' = live
            /\ given' = given
    /\ last' = [kind |-> kind]
    /\ UNCHANGED <<cfg, closed>>

Boot == phase = "down" /\ \E u \in SUBSET (1 .. Len(cfg)), h \in BOOLEAN : Come("boot", u, h)

(* ---- tearing down (first step of Server.restart / Server.shutdown onwards) ---- *)
StopResponder ==
    /\ phase \in {"up", "closing"} /\ ~ rstopped
    /\ TeardownOrder \in {"responder_first", "any"} \/ up = {}
    /\ phase' = "closing" /\ rstopped' = TRUE
    /\ closed' = closed \cup Stopped(gen) /\ live' = live \ Stopped(gen)
    /\ last' = [kind |-> "stop_responder"]
    /\ UNCHANGED <<cfg, up, ever, gen, created, given>>

CloseInterface(i) ==
    /\ phase \in {"up", "closing"} /\ i \in up
    /\ TeardownOrder \in {"interfaces_first", "any"} \/ rstopped
    /\ phase' = "closing" /\ up' = up \ {i}
    /\ last' = [kind |-> "close_iface"]
    /\ UNCHANGED <<cfg, ever, rstopped, gen, created, closed, live, given>>

TornDown == phase = "closing" /\ up = {} /\ rstopped
Restart == TornDown /\ gen < MaxGen /\ \E u \in SUBSET (1 .. Len(cfg)), h \in BOOLEAN : Come("restart", u, h)

Shutdown == /\ TornDown
            /\ phase' = "stopped"
            /\ last' = [kind |-> "shutdown"]
            /\ UNCHANGED <<cfg, up, ever, rstopped, gen, created, closed, live, given>>

(* the pending responder threads get the processor: one whose socket is closed ends at once *)
RunAll == /\ created # {}
          /\ created' = {} /\ live' = live \cup (created \ closed)
          /\ last' = [kind |-> "run"]
          /\ UNCHANGED <<cfg, up, ever, phase, rstopped, gen, closed, given>>

(* a broadcast request, once every thread has had its turn *)
Probe == /\ created = {} /\ last.kind \notin {"probe", "none"}
         /\ last' = [kind |-> "probe", answers |-> Answers(live, given)]
         /\ UNCHANGED <<cfg, up, ever, phase, rstopped, gen, created, closed, live, given>>

WNext == Boot \/ StopResponder \/ (\E i \in 1 .. Len(cfg) : CloseInterface(i)) \/ Restart \/ Shutdown \/ RunAll \/ Probe
WSpec == WInit /\ [][WNext]_wvars

OneResponder == created = {} => CASE phase = "up" -> live = {gen}
                                   [] phase = "closing" -> live \subseteq {gen}
                                   [] OTHER -> live = {}
(* while tearing down the responder may already be silent, but it never names a closed port *)
AnswersTrue == last.kind = "probe" =>
    IF phase = "closing" THEN last.answers \subseteq Demanded(cfg, up, phase, gen)
    ELSE last.answers = Demanded(cfg, up, phase, gen)
=============================================================================
