--------------------------- MODULE DiscoveryServer ---------------------------
(* C19, server wiring (frappy/server.py run / restart / shutdown / _interfaceThread,   *)
(* frappy/protocol/interface/tcp.py TCPServer.__init__): "a TCP port it really listens *)
(* on", "the node identity".                                                           *)
(* A node is configured with a list of interfaces; each comes up or fails.  The        *)
(* responder of generation g carries the identity (description) the node had when it   *)
(* was (re)started the g-th time.  A broadcast discover request reaches every          *)
(* responder that is still running.  Demanded: while the node serves, a request is     *)
(* answered exactly once per TCP port that is open NOW, with the identity of NOW; a    *)
(* node that is shut down (or never came up) is silent.                                *)
EXTENDS Integers, Sequences, FiniteSets, TLC

CONSTANTS MaxIf,        \* maximal number of configured interfaces
          MaxGen,       \* maximal number of (re)starts
          RestartRule,  \* DESIGN parameter: "stop_old" (proposed) | "leak" (as implemented)
          PortRule      \* DESIGN parameter: "opened" (as implemented) | "configured"

Kinds == {"tcp_up", "tcp_fail", "ws_up", "ws_fail"}

VARIABLES cfg,      \* sequence of interface kinds
          phase,    \* "down" | "up" | "stopped"
          gen,      \* number of (re)starts so far
          live,     \* generations whose responder thread still runs
          last      \* observable outcome of the last operation (incl. a probe request)
wvars == <<cfg, phase, gen, live, last>>

Opened(c) == {i \in 1 .. Len(c) : c[i] \in {"tcp_up", "ws_up"}}
TcpOpened(c) == {i \in 1 .. Len(c) : c[i] = "tcp_up"}
TcpConfigured(c) == {i \in 1 .. Len(c) : c[i] \in {"tcp_up", "tcp_fail"}}
Ports(c) == IF PortRule = "opened" THEN TcpOpened(c) ELSE TcpConfigured(c)

(* what the property allows as answers to a probe request *)
Demanded(c, ph, g) == IF ph = "up" THEN {<<g, i>> : i \in TcpOpened(c)} ELSE {}
(* what the design produces: every running responder answers for the ports it was given *)
Answers(c, lv) == {<<g, i>> : g \in lv, i \in Ports(c)}

Seqs(n) == UNION {[1 .. k -> Kinds] : k \in 1 .. n}
WInit == /\ cfg \in Seqs(MaxIf) /\ phase = "down" /\ gen = 0 /\ live = {}
         /\ last = [kind |-> "none"]

Boot == /\ phase = "down"
        /\ IF Opened(cfg) = {}
           THEN phase' = "stopped" /\ gen' = gen /\ live' = {}        \* "no interface started"
           ELSE phase' = "up" /\ gen' = 1 /\ live' = {1}
        /\ last' = [kind |-> "boot", listening |-> IF Opened(cfg) = {} THEN {} ELSE TcpOpened(cfg),
                    answers |-> Answers(cfg, live')]
        /\ UNCHANGED cfg

Restart == /\ phase = "up" /\ gen < MaxGen
           /\ gen' = gen + 1
           /\ live' = (IF RestartRule = "stop_old" THEN {} ELSE live) \cup {gen + 1}
           /\ last' = [kind |-> "restart", listening |-> TcpOpened(cfg), answers |-> Answers(cfg, live')]
           /\ UNCHANGED <<cfg, phase>>

Shutdown == /\ phase = "up"
            /\ phase' = "stopped"
            /\ live' = IF RestartRule = "stop_old" THEN {} ELSE live \ {gen}
            /\ last' = [kind |-> "shutdown", listening |-> {}, answers |-> Answers(cfg, live')]
            /\ UNCHANGED <<cfg, gen>>

WNext == Boot \/ Restart \/ Shutdown
WSpec == WInit /\ [][WNext]_wvars

OneResponder == IF phase = "up" THEN live = {gen} ELSE live = {}
AnswersTrue == last.kind # "none" => last.answers = Demanded(cfg, phase, gen)
=============================================================================
