SPECIFICATION Spec
CONSTANTS
  Threads = {"t1", "t2", "t3"}
  Params = {"p1"}
  Vals = {"a", "b"}
  Errs = {}
  Conns = {"c1"}
  MaxOps = 2
  Omit = 2
  MaxNow = 1
  OpKinds = {"read", "assign"}
  UseLock = TRUE
INVARIANT StreamReconstructs
INVARIANT Ordered
INVARIANT Complete
INVARIANT NotifyUnderLock
INVARIANT RecoveryAnnounced
INVARIANT StampsOrdered
CHECK_DEADLOCK TRUE
