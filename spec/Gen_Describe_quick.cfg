SPECIFICATION GSpec
CONSTANTS
  Families = {"A", "C1", "E", "K", "R"}
CHECK_DEADLOCK FALSE
