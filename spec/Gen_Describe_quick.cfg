SPECIFICATION GSpec
CONSTANTS
  Families = {"A", "C1", "E", "K"}
CHECK_DEADLOCK FALSE
