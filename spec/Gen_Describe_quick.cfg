SPECIFICATION GSpec
CONSTANTS
  Families = {"A", "C1"}
CHECK_DEADLOCK FALSE
