-------------------------- MODULE Trace_ClientCache --------------------------
(* code -> spec: executions recorded from the real SecopClient receive loop     *)
(* (message level) and records of real nodes / proxies over TCP (end to end)    *)
(* must be behaviours of ClientCache / satisfy its end-to-end law.  One JVM     *)
(* validates a batch; the first clause that fails is named in the verdict.      *)
EXTENDS ClientCache, Json, IOUtils, TLCExt, SequencesExt
Traces == JsonDeserialize(IOEnv.TRACE_FILE)
NT == Len(Traces)
VARIABLES t, l
ASSUME \A i \in 1 .. NT : TLCSet(i, 1) /\ TLCSet(NT + i, 0)

ClauseName == <<"message outside the alphabet", "cache entry is not the import of the message",
                "release of the waiting request", "cache after the step",
                "callbacks invoked (exactly once each, with the new entry)",
                "registered callbacks after the step", "waiting requests after the step",
                "cache seen by the released caller", "immediate call-backs of a registration",
                "DriverReceived = Sent", "ClientCache = DriverReturned", "ClientCache error = raised error",
                "description", "clock",
                "concurrent updates: malformed line or lost update",
                "name maps identifier <-> internal name">>
(* evaluates to b; remembers the clause number when b is false *)
Clause(n, b) == IF b THEN TRUE ELSE ~TLCSet(NT + t, n)

Ev == Traces[t][l]
TInit == /\ variant = "a" /\ other = NoOther
         /\ desc = {} /\ cache = [k \in AllKeys |-> Undef] /\ cbs = {} /\ waiting = {} /\ now = 0
         /\ last = [kind |-> "init"]
         /\ t \in 1 .. NT /\ l = 1

ObsCache(c) == [k \in AllKeys |->
                  IF \E i \in 1 .. Len(c) : <<c[i].m, c[i].p>> = k
                  THEN c[CHOOSE i \in 1 .. Len(c) : <<c[i].m, c[i].p>> = k].e ELSE Undef]
ObsKeysOK(c) == \A i \in 1 .. Len(c) : <<c[i].m, c[i].p>> \in AllKeys
ObsWaiting(w) == {<<w[i][1], w[i][2]>> : i \in 1 .. Len(w)}

TRecv ==
  LET raw == Ev.msg
      \* fields without meaning for the message class carry the specification's fixed filler
      msg == [raw EXCEPT !.en = IF raw.action \in ValueActions \/ raw.shape \in BadShapes THEN E0 ELSE @,
                         !.tx = IF raw.action \in ValueActions \/ raw.shape \in BadShapes THEN X0 ELSE @,
                         !.w = IF raw.action \notin ValueActions \/ raw.shape \in BadShapes THEN W0 ELSE @]
      k == Resolve(msg.action, msg.ident, desc)
      h == Handled(msg, desc)
      oc == ObsCache(Ev.cache)
      e == IF h THEN oc[k] ELSE Undef
      hit == {c \in cbs : h /\ Matches(c, k)}
  IN /\ Clause(1, msg \in Msgs /\ ObsKeysOK(Ev.cache))
     /\ Clause(2, h => e \in AllowedEntries(msg, now))
     /\ Clause(3, Ev.released \in RelAllowed(msg, desc, waiting))
     /\ Recv(msg, e, Ev.released)
     /\ Clause(4, cache' = oc)
     /\ Clause(5, /\ Len(Ev.calls) = Cardinality(hit)
                  /\ {Ev.calls[i].cb : i \in 1 .. Len(Ev.calls)} = hit
                  /\ \A i \in 1 .. Len(Ev.calls) : <<Ev.calls[i].m, Ev.calls[i].p>> = k /\ Ev.calls[i].e = e)
     /\ Clause(6, cbs' = ToSet(Ev.cbs))
     /\ Clause(7, waiting' = ObsWaiting(Ev.waiting))
     /\ Clause(8, Ev.released /\ h => ObsCache(Ev.seen) = cache')

TRegister ==
  LET S == {<<Ev.icalls[i].m, Ev.icalls[i].p>> : i \in 1 .. Len(Ev.icalls)}
  IN /\ Clause(9, /\ Ev.cb \in CbSpace \ cbs
                  /\ S \in ImmAllowed(Ev.cb)
                  /\ Ev.cb.beh # "oneshot" => Len(Ev.icalls) = Cardinality(S)
                  /\ \A i \in 1 .. Len(Ev.icalls) : Ev.icalls[i].e = cache[<<Ev.icalls[i].m, Ev.icalls[i].p>>])
     /\ Register(Ev.cb, S)
     \* merged: not the last callback of ONE register_callback call - the set in between is not observable
     /\ Clause(6, Ev.merged \/ cbs' = ToSet(Ev.cbs))
     /\ Clause(5, Ev.foreign = 0)
     /\ Clause(4, ObsKeysOK(Ev.cache) /\ cache' = ObsCache(Ev.cache))

TUnregister == /\ Unregister(Ev.cb)
               /\ Clause(6, cbs' = ToSet(Ev.cbs))

TExpect == /\ Expect(<<Ev.rk[1], Ev.rk[2]>>)
           /\ Clause(7, waiting' = ObsWaiting(Ev.waiting))

(* several ticks at once *)
TTick == /\ Clause(14, Ev.now >= now /\ Ev.now <= MaxNow)
         /\ now' = Ev.now
         /\ last' = [kind |-> "tick"]
         /\ UNCHANGED <<variant, other, desc, cache, cbs, waiting>>

(* (re)description: any description over the universe *)
TDescribe == /\ Clause(13, ToSet(Ev.desc) \subseteq AllKeys)
             /\ desc' = ToSet(Ev.desc) /\ variant' = Ev.variant
             /\ last' = [kind |-> "describe"]
             /\ UNCHANGED <<other, cache, cbs, waiting, now>>
             /\ Clause(4, ObsKeysOK(Ev.cache) /\ cache' = ObsCache(Ev.cache))
             /\ Clause(16, /\ {<<x[1], x[2]>> : x \in ToSet(Ev.idmap)} = NameMaps(desc')
                           /\ {<<x[1], x[2]>> : x \in ToSet(Ev.intmap)} = NameMaps(desc'))

TE2E == /\ Clause(10, E2EReceived(Ev))
        /\ Clause(11, E2ECache(Ev))
        /\ Clause(12, E2EError(Ev))
        /\ Clause(15, E2EQuiet(Ev))
        /\ UNCHANGED vars

TStep ==
  /\ l <= Len(Traces[t])
  /\ l' = l + 1 /\ t' = t
  /\ \/ Ev.ev = "recv" /\ TRecv
     \/ Ev.ev = "register" /\ TRegister
     \/ Ev.ev = "unregister" /\ TUnregister
     \/ Ev.ev = "expect" /\ TExpect
     \/ Ev.ev = "tick" /\ TTick
     \/ Ev.ev = "idle" /\ Idle /\ Clause(4, ObsKeysOK(Ev.cache) /\ cache' = ObsCache(Ev.cache))
                       /\ Clause(6, cbs' = ToSet(Ev.cbs))
     \/ Ev.ev = "descr" /\ TDescribe
     \/ Ev.ev = "other" /\ other' = [desc |-> ToSet(Ev.desc), variant |-> Ev.variant] /\ last' = [kind |-> "other"]
                        /\ UNCHANGED <<variant, desc, cache, cbs, waiting, now>>
                        /\ Clause(4, ObsKeysOK(Ev.cache) /\ cache' = ObsCache(Ev.cache))
                        /\ Clause(16, /\ {<<x[1], x[2]>> : x \in ToSet(Ev.idmap)} = NameMaps(desc)
                                      /\ {<<x[1], x[2]>> : x \in ToSet(Ev.intmap)} = NameMaps(desc))
     \/ Ev.ev = "e2e" /\ TE2E

TSpec == TInit /\ [][TStep]_<<vars, t, l>>

Track == TLCSet(t, IF l > TLCGet(t) THEN l ELSE TLCGet(t))
Verdicts == \A i \in 1 .. NT :
   IF TLCGet(i) = Len(Traces[i]) + 1 THEN PrintT(<<"ACCEPT", i>>)
   ELSE PrintT(<<"REJECT", i, TLCGet(i),
                 IF TLCGet(NT + i) = 0 THEN "event not explained by ClientCache" ELSE ClauseName[TLCGet(NT + i)]>>)

(* universe of the recorded descriptions: anything over Mods x PNames *)
AnyDescs == SUBSET AllKeys
=============================================================================
