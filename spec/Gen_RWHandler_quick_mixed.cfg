SPECIFICATION GSpec
CONSTANTS
  Layouts <- GenMixed
  Impl <- NoDevs
  Depth = 5
  GenModes <- QuickModes
  GenBy = FALSE
CONSTRAINT Bound
ACTION_CONSTRAINT EmitStep
VIEW AbstractView
CHECK_DEADLOCK FALSE
