SPECIFICATION MCSpec
CONSTANTS
  Layouts <- CatPlain
  Impl <- AsImplNone
CONSTRAINT MCBound5
INVARIANT CleanWrite
CHECK_DEADLOCK FALSE
