SPECIFICATION TSpec
CONSTANTS
  Families = {}
CHECK_DEADLOCK FALSE
