SPECIFICATION TSpec
CONSTANTS
  Threads = {"t1", "t2", "t3"}
  Structs = {"s", "c"}
  Members = {"p", "q", "r"}
  Vals = {0, 1, 2, 3, 4, 5, 6, 7, 8, 9}
  Idxs = {0, 1, 2}
CONSTRAINT Track
POSTCONDITION Verdicts
CHECK_DEADLOCK FALSE
