SPECIFICATION TSpec
CONSTANTS
  Conns = {"c1", "c2", "c3"}
CONSTRAINT Track
INVARIANT Done
POSTCONDITION Verdicts
CHECK_DEADLOCK FALSE
