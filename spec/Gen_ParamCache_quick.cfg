SPECIFICATION GSpec
CONSTANTS
  Params = {"p1", "p2"}
  Mod2 = {"p2"}
  Vals = {"a", "b"}
  Errs = {"e1", "e2"}
  Invs = {"i1"}
  Conns = {"c1", "c2"}
  OmitChoices = {0, 2}
  InitStamps = {0}
  NoDefault = {"p1"}
  InitScopeSets = {{}, {"all"}}
  HiddenChoices = {{}, {"p2"}}
  ActScopes = {"all", "mod"}
  RepKinds = {}
  MaxNow = 6
  Depth = 2
  FullParams = {"p1"}
  LiteParams = {"p2"}
  GenConns = {"c2"}
  GenDefaults = {"a"}
  GenLiteOmit = {2}
  GenFixedSub = {"all"}
  GenFullKinds = {"ReadOk", "ReadRaise", "ReadInvalid", "Write", "Assign", "AnnounceErr", "Untouched"}
  GenExtra = {"At", "Nest", "Deact", "Untouched"}
CONSTRAINT Bound
INVARIANT EmitMax
CHECK_DEADLOCK FALSE
