SPECIFICATION GSpec
CONSTANTS
  Params = {"p1", "p2"}
  Mod2 = {}
  Vals = {"a", "b"}
  Errs = {"e1", "e2"}
  Invs = {"i1"}
  Conns = {"c1", "c2"}
  OmitChoices = {0}
  InitStamps = {0}
  NoDefault = {"p1"}
  InitScopeSets = {{"all"}}
  HiddenChoices = {{}}
  ActScopes = {"all"}
  RepKinds = {}
  MaxNow = 4
  Depth = 4
  FullParams = {"p1"}
  LiteParams = {}
  GenConns = {}
  GenDefaults = {"a"}
  GenLiteOmit = {0}
  GenFixedSub = {"all"}
  GenFullKinds = {"ReadInvalid", "Assign"}
  GenExtra = {"NestInv"}
CONSTRAINT Bound
INVARIANT EmitMax
CHECK_DEADLOCK FALSE
