SPECIFICATION Spec
CONSTANTS
  Params = {"p1", "p2"}
  Mod2 = {}
  Vals = {"a", "b"}
  Errs = {"e1", "e2"}
  Invs = {"i1"}
  Conns = {"c1"}
  OmitChoices = {2}
  InitStamps = {0}
  NoDefault = {"p1"}
  InitScopeSets = {{"all"}}
  HiddenChoices = {{}, {"p2"}}
  ActScopes = {"mod"}
  RepKinds = {}
  MaxNow = 3
CONSTRAINT TimeBound
INVARIANT TypeOK
INVARIANT StreamReconstructs
INVARIANT RecoveryNeverSuppressed
PROPERTY Ordered
PROPERTY RecoveryAnnounced
PROPERTY Isolation
PROPERTY Frame
PROPERTY ScopeIndependence
CHECK_DEADLOCK FALSE
