---------------------------- MODULE Gen_SimDrive ----------------------------
(* spec -> code: every sequence of client actions and ticks of SimDrive up to Depth; where the      *)
(* specification leaves a choice (Canon) one representative is emitted - the harness executes the   *)
(* ACTIONS on the real SimDrivable (real simulation thread, virtual time), records what it observes *)
(* after every step and Trace_SimDrive (the loose specification) judges the recorded execution.     *)
EXTENDS SimDrive, Json, Sequences, FiniteSets
CONSTANTS Depth, MaxTargets, MaxStops, MaxRamps, MaxReads, MaxX, StartHv, StartTarget
VARIABLE hist

Count(a) == Cardinality({j \in DOMAIN hist : hist[j].act = a})
Obs == [hv |-> hv', target |-> target', status |-> status', val |-> val', xp |-> xp', last |-> last']
Rec(a, arg) == [act |-> a, arg |-> arg, exp |-> Obs, away |-> (arg # hv), idle |-> (status = "idle"),
                init |-> [shape |-> shape, hv |-> IF hist = <<>> THEN hv ELSE 0,
                          target |-> IF hist = <<>> THEN target ELSE 0, ramp |-> IF hist = <<>> THEN ramp ELSE 0]]

GInit == DInit /\ hv \in StartHv /\ target \in StartTarget /\ hist = <<>>
GNext ==
  \/ \E T \in Vals : Count("target") < MaxTargets /\ SetTarget(T) /\ hist' = Append(hist, Rec("target", T))
  \/ Count("stop") < MaxStops /\ Stop /\ hist' = Append(hist, Rec("stop", val))
  \/ \E r \in Ramps : Count("ramp") < MaxRamps /\ SetRamp(r) /\ hist' = Append(hist, Rec("ramp", r))
  \/ Count("read") < MaxReads /\ Read /\ hist' = Append(hist, Rec("read", 0))
  \/ \E v \in Vals : Count("setx") < MaxX /\ SetX(v) /\ hist' = Append(hist, Rec("setx", v))
  \/ Count("readx") < MaxX /\ ReadX /\ hist' = Append(hist, Rec("readx", 0))
  \/ Tick /\ hist' = Append(hist, Rec("tick", 0))
GSpec == GInit /\ [][GNext]_<<dvars, hist>>

Canon == last'.op = "tick" => /\ val' = (IF hv = target /\ mode = "wait" THEN val ELSE hv)
                              /\ (hv # target => status' = "busy")
                              /\ (mode = "move" /\ hv # target => sp' = sp)
Bound == TLCGet("level") <= Depth
Emit1 == (TLCGet("level") = Depth + 1) => PrintT(<<"BEH", ToJson(hist)>>)
=============================================================================
