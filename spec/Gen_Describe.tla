----------------------------- MODULE Gen_Describe -----------------------------
(* spec -> code for C06: for every shape of the family TLC prints the description the    *)
(* node has to give and the probes to run against it: every request of Dispatch's         *)
(* alphabet (payload catalogues of the datainfos, every accessible addressed by the wrong *)
(* kind, attribute names, unknown and unexported modules), reads of constants, and        *)
(* subscriptions of undescribed and described names.                                      *)
EXTENDS Describe, Json

Probes(sh) ==
  ReqsOf(sh)
  \cup UNION {{Req("read", m, sh[m][a].wire, Null) : a \in {x \in DOMAIN sh[m] : sh[m][x].kind = "param" /\ sh[m][x].wire # "" /\ sh[m][x].const # Null}}
              : m \in DOMAIN sh}
  \cup {Req("activate", mod, nm, Null) : mod \in {"zz", "h"}, nm \in {"", "_pa", "target"}}
  \cup UNION {{Req("activate", m, IF sh[m][a].wire = "" THEN a ELSE sh[m][a].wire, Null) : a \in {x \in DOMAIN sh[m] : sh[m][x].kind = "param"}}
              : m \in DOMAIN sh}
  \cup {Req("activate", "m", nm, Null) : nm \in {"nope", "pa", ""}}

(* every shape plain; the shapes of family A for two datatypes in every class-hierarchy variant *)
Nodes == {<<id, 1>> : id \in ShapeIds(Families)}
         \cup {<<id, v>> : id \in {<<"A", "f">>, <<"A", "e">>} \cap ShapeIds(Families), v \in 2 .. Len(Variants)}
         \cup (IF "C2" \in Families THEN {<<id, v>> : id \in IdsOf("A"), v \in 2 .. Len(Variants)} ELSE {})
ASSUME \A nd \in Nodes :
   LET var == Variants[nd[2]]
       sh == WithFeatures(ShapeOf(nd[1]), var.feats)
   IN PrintT(<<"NODE", ToJson([sid |-> <<nd[1], nd[2]>>, shape |-> sh, desc |-> Described(sh), probes |-> Probes(sh),
                              feats |-> var.feats, base |-> var.base,
                              expfeatures |-> FeaturesOf(var.feats), expiface |-> IfaceOf(var.base)])>>)

VARIABLE x
GInit == x = 0 /\ shape = <<>> /\ cache = <<>> /\ rerr = <<>> /\ last = <<>>
GSpec == GInit /\ [][UNCHANGED <<x, vars>>]_<<x, vars>>
=============================================================================
