SPECIFICATION GSpec
VIEW GView
CONSTANTS
  Names = {"a", "b", "c"}
  IntVals <- IV_small
  Specials = {"none", "ref", "zz"}
  DispNames = {"", "x"}
  MaxPieces = 2
  MaxExt = 1
  MaxDepth = 2
  AsImpl = {}
  Families = {"build"}
CHECK_DEADLOCK FALSE
