--------------------------- MODULE HasStatesDesign ---------------------------
(* C14, design level of HasStates.start_machine against the poll thread.                *)
(* start_machine() is two steps - SetBusy (sm.status := BUSY ...) and StartMachine       *)
(* (sm.start(...)) - and a cycle of the poll thread may run between them.  A cycle may   *)
(* finish the running machine (status := final status) and may take a pending start and  *)
(* even run it to its end at once ("quick" machine).                                      *)
(*   Atomic = TRUE  : request and cycle exclude each other (the repair proposed for the   *)
(*                    open findings: both under the module's accessLock)                  *)
(*   Atomic = FALSE : as implemented; Orders = {"busy_first"} is the code of /repo        *)
(*                    (BusyWhileRunning fails: finding C14-start-request-while-run-       *)
(*                    finishes), Orders = {"start_first"} the tempting reordering         *)
(*                    (QuiescentNotBusy fails: BUSY forever with no machine running).     *)
EXTENDS Naturals
CONSTANTS Atomic, Orders
VARIABLES machine,   \* "idle" | "pending" (start requested, not yet taken) | "running"
          status,    \* "busy" | "final"
          rpc,       \* request thread: "idle" | "s1" | "s2"
          order      \* order of the two steps in the request under way

dvars == <<machine, status, rpc, order>>
DInit == machine = "idle" /\ status = "final" /\ rpc = "idle" /\ order \in Orders

SetBusy == status' = "busy" /\ UNCHANGED machine
StartMachine == machine' = "pending" /\ UNCHANGED status

Begin == rpc = "idle" /\ rpc' = "s1" /\ order' \in Orders /\ UNCHANGED <<machine, status>>
Step1 == rpc = "s1" /\ rpc' = "s2" /\ UNCHANGED order
         /\ IF order = "busy_first" THEN SetBusy ELSE StartMachine
Step2 == rpc = "s2" /\ rpc' = "idle" /\ UNCHANGED order
         /\ IF order = "busy_first" THEN StartMachine ELSE SetBusy

(* one cycle of the poll thread (cycle_machine) *)
Cycle == /\ Atomic => rpc = "idle"
         /\ UNCHANGED <<rpc, order>>
         /\ \/ machine = "pending" /\ machine' = "running" /\ UNCHANGED status      \* state entered, Retry
            \/ machine = "pending" /\ machine' = "idle" /\ status' = "final"        \* entered and finished at once
            \/ machine = "running" /\ machine' = "running" /\ UNCHANGED status      \* Retry
            \/ machine = "running" /\ machine' = "idle" /\ status' = "final"        \* Finish
            \/ machine = "idle" /\ UNCHANGED <<machine, status>>

DNext == Begin \/ Step1 \/ Step2 \/ Cycle
DSpec == DInit /\ [][DNext]_dvars

DTypeOK == machine \in {"idle", "pending", "running"} /\ status \in {"busy", "final"} /\ rpc \in {"idle", "s1", "s2"}
(* evaluated at quiescence of the request thread *)
BusyWhileRunning == (rpc = "idle" /\ machine # "idle") => status = "busy"
QuiescentNotBusy == (rpc = "idle" /\ machine = "idle") => status = "final"
=============================================================================
