SPECIFICATION Spec
CONSTANTS
  Conns = {"c1", "c2", "c3"}
  UseLock = TRUE
INVARIANT NoLostMember
CHECK_DEADLOCK FALSE
