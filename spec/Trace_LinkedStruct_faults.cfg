SPECIFICATION TSpec
CONSTANTS
  Members = {"p", "q"}
  Vals = {1, 2, 3, 4}
  HwMax = 3
  HwModes = {"clip", "refuse"}
  Excs = {"badvalue", "hardware", "other"}
CONSTRAINT Track
POSTCONDITION Verdicts
CHECK_DEADLOCK FALSE
