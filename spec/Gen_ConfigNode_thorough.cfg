SPECIFICATION GSpec
CONSTANTS
  NMods = 3
  Choices = {1, 2, 3, 4, 5, 6, 7, 8, 9}
  Splits = {0, 1, 2}
  Modes = {"plain", "share", "twice"}
INVARIANT Emit1
CHECK_DEADLOCK FALSE
