SPECIFICATION GSpec
CONSTANTS
  NMods = 3
  Choices = {1, 2, 3, 4, 5, 6, 7, 8, 9, 10, 11}
  Splits = {0, 1, 2}
  Scen = {"plain1", "share1", "twice1", "plain2", "share2", "twice2", "plain3", "plain4", "share3", "twice3"}
INVARIANT Emit1
CHECK_DEADLOCK FALSE
