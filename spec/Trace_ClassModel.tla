-------------------------- MODULE Trace_ClassModel --------------------------
(* code -> spec for C09: recorded programs (operations + the description map of  *)
(* ALL live classes and instances after every operation) must be behaviours of   *)
(* ClassModel.  A trace may hold several runs separated by "reset"; the law is   *)
(* kept across runs, which decides OrderIndependent on permuted programs.        *)
(* Total step function: the first clause that fails is named.                    *)
EXTENDS ClassModel, Json, IOUtils, TLCExt, SequencesExt
Traces == JsonDeserialize(IOEnv.TRACE_FILE)
NT == Len(Traces)
VARIABLES t, l,
          mix,        \* ids of plain mixin classes of the current run
          conf,       \* digest of the retained configuration objects ("" = not yet seen in this run)
          tainted,    \* keys of classes one of whose descendants overrode a parameter by a bare value (whole trace)
          degraded    \* a known deviation happened in this run: only Frame is decided until reset
tvars == <<vars, t, l, mix, conf, tainted, degraded>>
ASSUME \A i \in 1 .. NT : TLCSet(i, 1) /\ TLCSet(NT + i, 0)

Ev == Traces[t][l]
D(e) == [y \in DOMAIN e.desc \ {"_"} |-> e.desc[y]]
BadOf(e) == ToSet(e.bad)

NewDefs(e) == IF e.ev = "defclass" THEN defs @@ (e.x :> [bases |-> e.bases, body |-> e.body]) ELSE defs
NewInsts(e) == CASE e.ev = "instantiate" -> insts @@ (e.x :> [cls |-> e.c, cfg |-> e.cfg, muts |-> <<>>])
                 [] e.ev = "mutate" -> [insts EXCEPT ![e.x].muts = Append(@, e.mut)]
                 [] OTHER -> insts
Guard(e) == CASE e.ev = "defclass" -> e.x \notin Live /\ \A j \in 1 .. Len(e.bases) : e.bases[j] \in Classes \ bad
              [] e.ev = "instantiate" -> e.x \notin Live /\ e.c \in Classes \ bad
              [] e.ev = "mutate" -> e.x \in Insts \ bad
              [] OTHER -> FALSE

(* first clause of the property that the observed event breaks, "" if none *)
Viol(e) ==
  IF ~Guard(e) THEN "harness: operation not applicable" ELSE
  LET d2 == NewDefs(e)
      n2 == NewInsts(e)
      nd == D(e)
      x == e.x
      ok == x \notin BadOf(e)
      k == Key(d2, n2, x)
  IN IF e.tabsb # e.tabsa THEN "Frame: class level property tables changed"   \* (of the datatype / accessible
                                              \* classes: what one class declares never changes what another may declare)
     ELSE IF conf # "" /\ e.conf # conf THEN "Frame: retained configuration changed"   \* instances are created from shallow
                                              \* copies of ONE configuration object: using it must not change it
     ELSE IF DOMAIN nd # Live \cup {x} THEN "Frame: set of live objects"
     ELSE IF \E y \in Live \ {x} : nd[y] # desc[y] THEN "Frame"
     ELSE IF BadOf(e) \ {x} # bad \ {x} THEN "Frame: refused set"
     ELSE IF degraded THEN ""
     ELSE IF \E y \in Live \ {x} : Key(d2, n2, y) = k /\ (nd[y] # nd[x] \/ ((y \in bad) = ok)) THEN "Functional"
     ELSE IF k \in DOMAIN law /\ law[k] # <<nd[x], ok>> THEN "OrderIndependent"
     ELSE ""

Apply(e) ==
  LET nd == D(e)
      x == e.x
      ok == x \notin BadOf(e)
  IN IF degraded
     THEN /\ defs' = NewDefs(e) /\ insts' = NewInsts(e) /\ desc' = nd /\ bad' = BadOf(e)
          /\ UNCHANGED law
     ELSE /\ CASE e.ev = "defclass" -> DefClass(x, e.bases, e.body, nd[x], ok)
               [] e.ev = "instantiate" -> Instantiate(x, e.c, e.cfg, nd[x], ok)
               [] e.ev = "mutate" -> Mutate(x, e.mut, nd[x])
          /\ desc' = nd

(* ---- known deviation (findings.d/C09.json): HasAccessibles.__init_subclass__ merges the  *)
(* inherited properties INTO the Accessible object owned by a base class / plain mixin when *)
(* the new class does not define the accessible itself.  Admissible only for a class        *)
(* definition with several bases or a plain mixin among its ancestors, and only for victims *)
(* that share an ancestor with the new class.                                               *)
DevOK(e) ==
  /\ e.ev = "defclass" /\ e.dev /\ Guard(e)
  /\ LET d2 == NewDefs(e)
         nd == D(e)
         x == e.x
         V == {y \in Live : nd[y] # desc[y]}
         mx == IF e.mixin THEN mix \cup {x} ELSE mix
     IN /\ DOMAIN nd = Live \cup {x}
        /\ V # {} /\ V \subseteq Classes
        /\ (Len(e.bases) >= 2 \/ Anc(d2, x) \cap mx # {} \/ degraded)   \* degraded: a later re-merge moves the shared object again
        /\ \A y \in V : (Anc(d2, y) \cup {y}) \cap Anc(d2, x) # {}
        /\ BadOf(e) \ {x} = bad \ {x}
(* second face of the same deviation: the shared object of a plain mixin was rewritten by an  *)
(* EARLIER class definition (not visible then, a mixin has no description), so a class built *)
(* on that mixin now gets a description that depends on what was defined before it.          *)
DevLawOK(e, v) == /\ e.ev = "defclass" /\ v \in {"Functional", "OrderIndependent"}
                  /\ Anc(NewDefs(e), e.x) \cap mix # {}
(* ---- second known deviation: Parameter.clone (bare value override -> create_from_value)   *)
(* applies the inherited datatype properties to the ORIGINAL datatype object of the ancestor *)
(* that defined it before copying it: afterwards new subclasses of that ancestor inherit the *)
(* override.  Admissible only for a class one of whose ancestors has (had, in an earlier run *)
(* of this trace) a descendant with a bare-value override.                                   *)
DevCloneOK(e, v) == /\ e.ev = "defclass" /\ v \in {"Functional", "OrderIndependent"}
                    /\ \E a \in Anc(NewDefs(e), e.x) : CKey(NewDefs(e), a) \in tainted
(* ... the polluted original becomes visible in a BASE class when a later subclass re-merges it *)
DevCloneFrameOK(e) ==
  /\ e.ev = "defclass" /\ e.dev /\ Guard(e)
  /\ LET d2 == NewDefs(e)
         nd == D(e)
         x == e.x
         V == {y \in Live : nd[y] # desc[y]}
     IN /\ DOMAIN nd = Live \cup {x}
        /\ V # {} /\ V \subseteq Classes
        /\ \A y \in V : (Anc(d2, y) \cup {y}) \cap Anc(d2, x) # {}
        /\ \E a \in Anc(d2, x) : CKey(d2, a) \in tainted
        /\ BadOf(e) \ {x} = bad \ {x}
Taint(e) == IF e.ev = "defclass" /\ e.bare
            THEN tainted \cup {CKey(NewDefs(e), a) : a \in Anc(NewDefs(e), e.x)} ELSE tainted
DevStep(e) == /\ defs' = NewDefs(e) /\ insts' = insts /\ desc' = D(e) /\ bad' = BadOf(e)
              /\ UNCHANGED law
              /\ degraded' = TRUE
DevNote(kind) == TLCSet(NT + t, IF TLCGet(NT + t) = 0 THEN 10 * l + kind ELSE TLCGet(NT + t))

TInit == Init /\ t \in 1 .. NT /\ l = 1 /\ mix = {} /\ conf = "" /\ tainted = {} /\ degraded = FALSE

TStep ==
  /\ l <= Len(Traces[t]) /\ t' = t
  /\ conf' = (IF l <= Len(Traces[t]) THEN Ev.conf ELSE conf)
  /\ LET e == Ev IN
     IF e.ev = "reset"
     THEN Reset /\ mix' = {} /\ degraded' = FALSE /\ l' = l + 1 /\ UNCHANGED tainted
     ELSE IF DevOK(e)
     THEN DevStep(e) /\ DevNote(1) /\ l' = l + 1 /\ mix' = (IF e.mixin THEN mix \cup {e.x} ELSE mix) /\ tainted' = Taint(e)
     ELSE IF DevCloneFrameOK(e)
     THEN DevStep(e) /\ DevNote(2) /\ l' = l + 1 /\ mix' = (IF e.mixin THEN mix \cup {e.x} ELSE mix) /\ tainted' = Taint(e)
     ELSE LET v == Viol(e) IN
          IF DevLawOK(e, v)
          THEN DevStep(e) /\ DevNote(1) /\ l' = l + 1 /\ mix' = mix /\ tainted' = Taint(e)
          ELSE IF DevCloneOK(e, v)
          THEN DevStep(e) /\ DevNote(2) /\ l' = l + 1 /\ mix' = mix /\ tainted' = Taint(e)
          ELSE IF v # ""
          THEN /\ PrintT(<<"REJECT", t, l, v>>)
               /\ l' = Len(Traces[t]) + 2            \* dead: no ACCEPT for this trace
               /\ UNCHANGED <<vars, mix, tainted, degraded>>   \* (conf: see above)
          ELSE /\ Apply(e) /\ l' = l + 1
               /\ mix' = (IF e.ev = "defclass" /\ e.mixin THEN mix \cup {e.x} ELSE mix)
               /\ tainted' = Taint(e)
               /\ UNCHANGED degraded

TSpec == TInit /\ [][TStep]_tvars

(* safety net: what the clause analysis accepted is a state of the specification *)
TInv == degraded \/ l > Len(Traces[t]) + 1 \/ (TypeOK /\ Functional /\ Lawful)

Track == TLCSet(t, IF l > TLCGet(t) THEN l ELSE TLCGet(t))
Verdicts == \A i \in 1 .. NT :
   IF TLCGet(i) = Len(Traces[i]) + 1
   THEN IF TLCGet(NT + i) = 0 THEN PrintT(<<"ACCEPT", i>>)
        ELSE PrintT(<<"REJECT", i, TLCGet(NT + i) \div 10,
                      IF TLCGet(NT + i) % 10 = 1 THEN "DEV:Dev_MergeInPlace" ELSE "DEV:Dev_CloneInPlace">>)
   ELSE PrintT(<<"REJECT", i, TLCGet(i), "event not explained by ClassModel">>)
=============================================================================
