---------------------------- MODULE LinkedControl ----------------------------
(* C18 (4): control hand-over between input (controller) modules and one       *)
(* output module (frappy/mixins.py HasControlledBy / HasOutputModule):         *)
(* at most one controller is marked active, the output's controlled_by names   *)
(* exactly that one (or "self" when none is), taking over control switches the *)
(* previous controller off.                                                    *)
EXTENDS Naturals, FiniteSets, TLC

CONSTANTS Ctls        \* all controller names, e.g. {"c1", "c2", "c3"}

VARIABLES n,        \* the group: controllers c1 .. cn are attached to the output
          active,   \* [Ctls -> BOOLEAN]  control_active of each controller
          cby       \* controlled_by of the output: "self" or a controller name
cvars == <<n, active, cby>>

Num(c) == CASE c = "c1" -> 1 [] c = "c2" -> 2 [] c = "c3" -> 3
Group == {c \in Ctls : Num(c) <= n}
Only(c) == [d \in Ctls |-> d = c]
None == [d \in Ctls |-> FALSE]

CInit == /\ n \in 1 .. Cardinality(Ctls)
         /\ active = None /\ cby = "self"

TakeOver(c) ==            \* change <c>:target / c.write_target(): c takes control
    /\ c \in Group
    /\ active' = Only(c) /\ cby' = c /\ UNCHANGED n

SelfControl ==            \* change <out>:target / out.write_target(): manual mode
    /\ active' = None /\ cby' = "self" /\ UNCHANGED n

UpdateTarget(c) ==        \* driver of c: out.update_target(c, v)
    /\ c \in Group
    /\ IF cby = c
       THEN UNCHANGED <<active, cby>>     \* the controlling module updates the output value
       ELSE \* the property is silent on whether this is a take-over: the control state
            \* may stay, or c takes over, or the output falls back to manual mode
            \/ UNCHANGED <<active, cby>>
            \/ active' = Only(c) /\ cby' = c
            \/ active' = None /\ cby' = "self"
    /\ UNCHANGED n

CNext == \/ \E c \in Ctls : TakeOver(c) \/ UpdateTarget(c)
         \/ SelfControl
CSpec == CInit /\ [][CNext]_cvars

(* ---- properties ---- *)
TypeOK == active \in [Ctls -> BOOLEAN] /\ cby \in Group \cup {"self"}
AtMostOne == Cardinality({c \in Ctls : active[c]}) <= 1
NamesTheActive == /\ \A c \in Ctls : active[c] => cby = c
                  /\ cby # "self" => active[cby]
OutsideGroupInactive == \A c \in Ctls \ Group : ~active[c]
HandOver == [][\A c \in Ctls : TakeOver(c) =>
                 /\ \A d \in Ctls \ {c} : ~active'[d]
                 /\ active'[c] /\ cby' = c]_cvars
=============================================================================
