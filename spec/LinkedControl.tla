---------------------------- MODULE LinkedControl ----------------------------
(* C18 (4): control hand-over between input (controller) modules and their     *)
(* output module (frappy/mixins.py HasControlledBy / HasOutputModule).  A node *)
(* has one or two outputs, each with its own group of controllers:             *)
(*   o1 : a1 .. a<n1>  (n1 = 1..3)        o2 : b1 .. b<n2>  (n2 = 0..2)         *)
(* Per output: at most one controller of its group is marked active, the       *)
(* output's controlled_by names exactly that one (or "self" when none is),     *)
(* taking over control switches the previous controller of THAT output off.    *)
(* Frame: an operation on one output or its controllers never changes the      *)
(* control state of the other output, nor of modules of other nodes that live  *)
(* in the same process (foreign).                                              *)
(* Whether the request that triggered a hand-over is finally accepted or the   *)
(* driver raises afterwards (a SECoP error or anything else, e.g. when the     *)
(* hardware write of the target fails) is irrelevant for the control state:    *)
(* the binding lets the drivers raise after the control call in some steps.    *)
(* Faults of the hardware hook set_control_active (f): "off" - switching a     *)
(* controller off fails during this operation, "on" - switching the new one on *)
(* fails; exc is what the hook raises ("hardware": a SECoP error, "other": a   *)
(* plain exception).  A controller whose switch-off failed is still in control *)
(* of the hardware, one whose switch-on failed is not: the invariants hold     *)
(* after EVERY step, also after a failed one (controlled_by names exactly the  *)
(* set of controllers marked active).                                          *)
EXTENDS Naturals, FiniteSets, TLC

CONSTANTS Layouts,    \* subset of {10, 20, 30, 11, 21, 22}: code 10 * n1 + n2
          Excs        \* subset of {"hardware", "other"}: what a failing hook raises

Ctls == {"a1", "a2", "a3", "b1", "b2"}
Outs == {"o1", "o2"}
OutOf(c) == IF c \in {"a1", "a2", "a3"} THEN "o1" ELSE "o2"
Num(c) == CASE c \in {"a1", "b1"} -> 1 [] c \in {"a2", "b2"} -> 2 [] c = "a3" -> 3

VARIABLES lay,      \* the layout code, fixed in a behaviour
          exc,      \* what a failing hook raises, fixed in a behaviour
          active,   \* [Ctls -> BOOLEAN]  control_active of each controller
          cby,      \* [Outs -> name]     controlled_by of each output: "self" or a controller
          foreign   \* TRUE: the control state of other nodes' modules in the process is as they left it
cvars == <<lay, exc, active, cby, foreign>>

Size(o) == IF o = "o1" THEN lay \div 10 ELSE lay % 10
Group(o) == {c \in Ctls : OutOf(c) = o /\ Num(c) <= Size(o)}
Built == Group("o1") \cup Group("o2")
BuiltOuts == {o \in Outs : Size(o) > 0}

CInit == /\ lay \in Layouts /\ exc \in Excs
         /\ active = [c \in Ctls |-> FALSE]
         /\ cby = [o \in Outs |-> "self"]
         /\ foreign = TRUE

(* new control state of output o: controller w (or nobody, w = "self") is in control *)
InControl(o, w) == /\ active' = [d \in Ctls |-> IF OutOf(d) = o THEN d = w ELSE active[d]]
                   /\ cby' = [cby EXCEPT ![o] = w]

OthersActive(c) == {d \in Group(OutOf(c)) \ {c} : active[d]}

TakeOver(c, f) ==         \* change <c>:target / c.write_target(): c takes control of its output
    /\ c \in Built
    /\ CASE f = "none" -> InControl(OutOf(c), c)
         [] f = "off"  -> \* the controller in charge cannot be switched off: it stays in charge
                          IF OthersActive(c) # {} THEN UNCHANGED <<active, cby>> ELSE InControl(OutOf(c), c)
         [] f = "on"   -> \* c cannot be switched on: either nothing happened at all or the previous
                          \* controller is off already and nobody is in control
                          IF active[c] THEN UNCHANGED <<active, cby>>
                          ELSE UNCHANGED <<active, cby>> \/ InControl(OutOf(c), "self")
    /\ UNCHANGED <<lay, exc, foreign>>

SelfControl(o, f) ==      \* change <o>:target / o.write_target(): manual mode
    /\ o \in BuiltOuts
    /\ IF f = "off" /\ \E d \in Group(o) : active[d]
       THEN UNCHANGED <<active, cby>>        \* the controller in charge cannot be switched off
       ELSE InControl(o, "self")
    /\ UNCHANGED <<lay, exc, foreign>>

UpdateTarget(c) ==        \* driver of c: <its output>.update_target(c, v)
    /\ c \in Built
    /\ IF cby[OutOf(c)] = c
       THEN UNCHANGED <<active, cby>>     \* the controlling module updates the output value
       ELSE \* the property is silent on whether this is a take-over: the control state
            \* may stay, or c takes over, or the output falls back to manual mode
            \/ UNCHANGED <<active, cby>>
            \/ InControl(OutOf(c), c)
            \/ InControl(OutOf(c), "self")
    /\ UNCHANGED <<lay, exc, foreign>>

CNext == \/ \E c \in Ctls : UpdateTarget(c) \/ \E f \in {"none", "off", "on"} : TakeOver(c, f)
         \/ \E o \in Outs, f \in {"none", "off"} : SelfControl(o, f)
CSpec == CInit /\ [][CNext]_cvars

(* ---- properties ---- *)
TypeOK == /\ active \in [Ctls -> BOOLEAN]
          /\ \A o \in Outs : cby[o] \in Group(o) \cup {"self"}
AtMostOne == \A o \in Outs : Cardinality({c \in Group(o) : active[c]}) <= 1
NamesTheActive == \A o \in Outs : /\ \A c \in Group(o) : active[c] => cby[o] = c
                                  /\ cby[o] # "self" => active[cby[o]]
NotBuiltInactive == \A c \in Ctls \ Built : ~active[c]
ForeignIntact == foreign
HandOver == [][\A c \in Ctls : TakeOver(c, "none") =>
                 /\ \A d \in Group(OutOf(c)) \ {c} : ~active'[d]
                 /\ active'[c] /\ cby'[OutOf(c)] = c]_cvars
Same(o) == cby'[o] = cby[o] /\ \A d \in Ctls : OutOf(d) = o => active'[d] = active[d]
Frame == [][/\ \A c \in Ctls : (UpdateTarget(c) \/ \E f \in {"none", "off", "on"} : TakeOver(c, f))
                                   => \A o \in Outs \ {OutOf(c)} : Same(o)
            /\ \A p \in Outs : (\E f \in {"none", "off"} : SelfControl(p, f)) => \A o \in Outs \ {p} : Same(o)]_cvars
(* a controller whose switch-off failed is still marked as controlling *)
FailedOffKeeps == [][\A c \in Ctls : (TakeOver(c, "off") /\ OthersActive(c) # {}) => active' = active]_cvars
=============================================================================
