SPECIFICATION FairSpec
CONSTANTS
  States = {"A", "B", "K1", "K2"}
  StartStates = {"A", "B"}
  CleanupTargets = {"K1", "K2"}
  Keys = {"x", "y"}
  Vals = {"1", "2"}
  MaxLoops = 4
  Construct = TRUE
  Concurrent = FALSE
INVARIANT TypeOK
INVARIANT CycleBounded
INVARIANT InitFlag
INVARIANT CleanupAtMostOnce
INVARIANT CleanupOnlyWhenInterrupted
INVARIANT TakenIsCalled
INVARIANT PopOnlyInactive
INVARIANT NoInterruptWhileCleaning
INVARIANT TaskTakenOrCleaning
PROPERTY CleanupConsumedByCall
PROPERTY InterruptedRunCleaned
PROPERTY ReasonStable
PROPERTY StopInactive
PROPERTY OnlyStartActivates
PROPERTY NoLostTask
PROPERTY EnterRequested
PROPERTY AttrsOfRequested
PROPERTY AttrsOnlyAtEntry
PROPERTY CycleEnds
