SPECIFICATION GSpec
CONSTANTS
  Tables = {"asc3", "gap3", "mix4"}
  Shapes = {"rw", "w"}
  Modes = {"echo", "none", "clamp", "raise", "crash"}
  Setups = {"rw-echo", "w-none", "rw-clamp", "w-clamp", "rw-raise", "w-crash"}
  Xs = {0, 1, 2, 3, 4, 5, 6, 7, 8}
  XW = {0, 4, 8}
  WPos = {0, 2}
  APos = {2}
  Reads = {"ri", "rf"}
  Depth = 4
CONSTRAINT Bound
INVARIANT Emit1
CHECK_DEADLOCK FALSE
