SPECIFICATION GSpec
CONSTANTS
  Tables = {"asc3", "desc3", "gap3", "two", "dup3", "mix4"}
  Shapes = {"rw", "w"}
  Xs = {0, 1, 2, 3, 4, 5, 6, 7, 8}
  XW = {0, 4, 8}
  WPos = {0, 1}
  APos = {2}
  Reads = {"ri", "rf"}
  Depth = 4
CONSTRAINT Bound
INVARIANT Emit1
CHECK_DEADLOCK FALSE
