SPECIFICATION GSpec
VIEW GView
CONSTANTS
  Names = {"a", "b", "c"}
  IntVals <- IV_quick
  Specials = {"none"}
  DispNames = {"x"}
  MaxPieces = 2
  MaxExt = 1
  MaxDepth = 1
  AsImpl = {}
  Families = {"cmp"}
CHECK_DEADLOCK FALSE
