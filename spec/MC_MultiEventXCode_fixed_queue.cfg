SPECIFICATION Spec
CONSTANTS
  Threads = {"a", "b", "w"}
  Script <- Scen_queue
  InitEv <- Init_one
  MaxTime = 2
  Inf = 99
  RaisingActs = {"a2"}
  FixLock = TRUE
  FixInit = TRUE
  FixIsSet = TRUE
  DetTime = FALSE
  Locked = TRUE
INVARIANT NoError
INVARIANT NoLostWakeup
INVARIANT FlagConsistent
INVARIANT ActionsAtMostOnce
INVARIANT NoActionLeft
INVARIANT ActionsExactlyOnce
PROPERTY WaitTrueEmpty
PROPERTY WaitTrueQuiet
PROPERTY WaitFalseNotEarly
PROPERTY WaitNotLate
PROPERTY WaitingForExact
PROPERTY DeadlineExact
PROPERTY IsSetRight
PROPERTY ActionsOnlyWhenSet
CHECK_DEADLOCK FALSE
