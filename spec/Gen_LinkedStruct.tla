-------------------------- MODULE Gen_LinkedStruct --------------------------
(* spec -> code: all operation sequences of LinkedStruct over a configurable  *)
(* alphabet, for every layout; each state carries its history with the        *)
(* expected abstract state after every step.  The layout (with / without      *)
(* combined read_/write_<struct> methods) does not influence what the         *)
(* property demands; it only tells the harness which module class to build.   *)
EXTENDS LinkedStruct, Json, Sequences
CONSTANTS Depth, Depth2,  \* depth for the clipping / the refusing hardware
          Layouts,      \* subset of {"combined", "separate"}
          WM, WV,       \* members / values used by WriteMember
          AM, AV,       \* members / values used by AssignMember
          RM,           \* members used by ReadMember
          SWV, SAV,     \* pattern numbers used by WriteStruct / AssignStruct
          RS            \* TRUE: ReadStruct is part of the alphabet
VARIABLES hist, layout

Idx(m) == CASE m = "p" -> 0 [] m = "q" -> 1 [] m = "r" -> 2
(* a struct value with a different value in every member *)
Pat(v) == [m \in Members |-> ((v + Idx(m)) % 4) + 1]
ASSUME \A v \in SWV \cup SAV : Pat(v) \in [Members -> Vals]

Obs == [hw |-> hw', mem |-> mem', str |-> str', merr |-> merr', serr |-> serr', ok |-> ok']
Rec(a) == hist' = Append(hist, a @@ [exp |-> Obs])

GInit == /\ SInit
         /\ layout \in Layouts
         /\ hwmode = "clip" => exc = "badvalue"     \* nothing is raised by a clipping hardware
         /\ hist = <<[act |-> "init", layout |-> layout, hwmax |-> HwMax, hwmode |-> hwmode, exc |-> exc,
                      exp |-> [hw |-> hw, mem |-> mem, str |-> str, merr |-> merr, serr |-> serr, ok |-> ok]]>>
GNext == /\ UNCHANGED layout
         /\ \/ \E v \in SWV : WriteStruct(Pat(v), "none") /\ Rec([act |-> "ws", v |-> Pat(v)])
            \/ \E v \in SAV : AssignStruct(Pat(v)) /\ Rec([act |-> "as", v |-> Pat(v)])
            \/ \E m \in WM, v \in WV : WriteMember(m, v, "none") /\ Rec([act |-> "wm", m |-> m, v |-> v])
            \/ \E m \in AM, v \in AV : AssignMember(m, v) /\ Rec([act |-> "am", m |-> m, v |-> v])
            \/ RS /\ ReadStruct("none") /\ Rec([act |-> "rs"])
            \/ \E m \in RM : ReadMember(m, "none") /\ Rec([act |-> "rm", m |-> m])
GSpec == GInit /\ [][GNext]_<<svars, hist, layout>>

(* ---- sequences with faults: only the operations are enumerated (every one with and without a fault on *)
(* member FM); the recorded execution is judged by Trace_LinkedStruct, because a failing operation has    *)
(* many allowed outcomes                                                                                  *)
CONSTANTS FM, FDepth
HwOps == {[act |-> "ws", v |-> Pat(2)], [act |-> "wm", m |-> "p", v |-> 1], [act |-> "wm", m |-> FM, v |-> 2],
          [act |-> "rs"], [act |-> "rm", m |-> "p"], [act |-> "rm", m |-> FM]}
FOps == {o @@ [f |-> f] : o \in HwOps, f \in {"none", FM}} \cup {[act |-> "am", m |-> "p", v |-> 3]}
FInit == /\ SInit /\ layout \in Layouts /\ hwmode = "clip"
         /\ hist = <<[act |-> "init", layout |-> layout, hwmax |-> HwMax, hwmode |-> hwmode, exc |-> exc,
                      exp |-> [hw |-> hw]]>>
FNext == /\ UNCHANGED <<svars, layout>>
         /\ \E o \in FOps : hist' = Append(hist, o)
FGSpec == FInit /\ [][FNext]_<<svars, hist, layout>>
FBound == TLCGet("level") <= FDepth
FEmit == (TLCGet("level") = FDepth + 1) => PrintT(<<"SEQ", ToJson(hist)>>)

D == IF hwmode = "clip" THEN Depth ELSE Depth2
Bound == TLCGet("level") <= D
Emit1 == (TLCGet("level") = D + 1) => PrintT(<<"BEH", ToJson(hist)>>)
=============================================================================
