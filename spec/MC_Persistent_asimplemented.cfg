SPECIFICATION Spec
CONSTANTS
  Params = {"P1", "P2"}
  Vals = {"v0", "v1"}
  NChunks = 2
  AutoChoices = {{"P1"}}
  HwChoices = {{}, {"P2"}}
  Faults = {"crash", "ioerror"}
  Corruptions = {"missing", "notjson", "notdict", "extra", "bad", "drop"}
  Dev = {"BelieveEarly"}
INVARIANT Retry
CHECK_DEADLOCK FALSE
