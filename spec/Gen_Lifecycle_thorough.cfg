SPECIFICATION GSpec
CONSTANTS
  Names = {"a", "b", "c"}
  Missing = "zz"
  MaxMods = 3
  MaxEdges = 9
INVARIANT Emit1
CHECK_DEADLOCK FALSE
