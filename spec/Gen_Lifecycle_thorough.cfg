SPECIFICATION GSpec
CONSTANTS
  Names = {"a", "b", "c"}
  Missing = "zz"
  MaxMods = 3
INVARIANT Emit1
CHECK_DEADLOCK FALSE
