------------------------------ MODULE ClientObs ------------------------------
(* C11 at the level the property is stated: what callers, the peer and the user can  *)
(* observe of one SecopClient connection.  Used to validate executions of the real   *)
(* client (Trace_ClientObs); the code-shaped protocol model is Client.tla.           *)
(* Internal queue/event operations appear only as *hints* that locate an entry       *)
(* (txq / tx / pending / sent); they never decide a verdict, they only attribute a    *)
(* violation to a cause so that a known defect is told apart from a new one.         *)
EXTENDS Naturals, Sequences, FiniteSets, TLC

CONSTANTS NC,        \* callers are 1 .. NC
          Tmo,       \* caller time-out in tenths of a second (100)
          Prompt     \* "promptly": tenths of a second after the loss of the connection (15)

Callers == 1 .. NC
VARIABLES st,        \* [Callers -> "idle" | "called" | "ret"]
          key,       \* [Callers -> key string]
          where,     \* [Callers -> "none"|"txq"|"tx"|"pending"|"sent"] last known place of the entry
          released,  \* callers whose event has been set
          recv, ans, \* requests the peer has seen / answered
          handed,    \* ghost ids of replies already handed to some caller
          lost, lostAt, now,
          stale,     \* callers parked although no colliding request was outstanding any more
          closing,   \* a user disconnect() has been called
          tcall, tret, \* [Callers -> time] of the call / of its return (-1: not yet)
          nref, refAt,  \* refused connection attempts so far; [Callers -> nref at the time of the call]
          life,         \* last announced node state ("" before the first)
          devs       \* deviations from the property that were needed to explain the execution
ovars == <<st, key, where, released, recv, ans, handed, lost, lostAt, now, stale, devs, closing, tcall, tret, nref, refAt, life>>

OInit == /\ st = [i \in Callers |-> "idle"] /\ key = [i \in Callers |-> ""]
         /\ where = [i \in Callers |-> "none"] /\ released = {} /\ recv = {} /\ ans = {}
         /\ handed = {} /\ closing = FALSE /\ tcall = [i \in Callers |-> 0 - 1] /\ tret = [i \in Callers |-> 0 - 1]
         /\ nref = 0 /\ refAt = [i \in Callers |-> 0] /\ life = "" /\ lost = FALSE /\ lostAt = 0 - 1 /\ now = 0 /\ stale = {} /\ devs = {}

Call(i, k) == /\ st[i] = "idle"
              /\ st' = [st EXCEPT ![i] = "called"] /\ key' = [key EXCEPT ![i] = k]
              /\ tcall' = [tcall EXCEPT ![i] = now'] /\ UNCHANGED <<tret, nref, life>>
              /\ refAt' = [refAt EXCEPT ![i] = nref]
              /\ UNCHANGED <<where, released, recv, ans, handed, lost, lostAt, stale, devs, closing>>

(* hints *)
Colliding(i) == \E j \in Callers : j # i /\ key[j] = key[i] /\ where[j] = "sent" /\ j \notin released
Hint(i, place) ==
   /\ where' = [where EXCEPT ![i] = place]
   /\ stale' = IF place = "pending" /\ ~Colliding(i) THEN stale \cup {i}
               ELSE IF place = "txq" THEN stale \ {i} ELSE stale
   /\ UNCHANGED <<st, key, released, recv, ans, handed, lost, lostAt, devs, closing, tcall, tret, nref, refAt, life>>
EvSet(i) == /\ released' = released \cup {i}
            /\ UNCHANGED <<st, key, where, recv, ans, handed, lost, lostAt, stale, devs, closing, tcall, tret, nref, refAt, life>>

(* the peer *)
PeerRecv(i) == /\ recv' = recv \cup {i}
               /\ UNCHANGED <<st, key, where, released, ans, handed, lost, lostAt, stale, devs, closing, tcall, tret, nref, refAt, life>>
PeerSend(i) == /\ i \in recv /\ ans' = ans \cup {i}
               /\ UNCHANGED <<st, key, where, released, recv, handed, lost, lostAt, stale, devs, closing, tcall, tret, nref, refAt, life>>
Lose == /\ lost' = TRUE /\ lostAt' = (IF lost \/ closing THEN lostAt ELSE now')
        /\ UNCHANGED <<st, key, where, released, recv, ans, handed, stale, devs, closing, tcall, tret, nref, refAt, life>>
(* the user asks for a shutdown: from now on callers may be released with a connection error *)
DiscCall == /\ closing' = TRUE /\ lostAt' = (IF lost \/ closing THEN lostAt ELSE now')
            /\ UNCHANGED <<st, key, where, released, recv, ans, handed, stale, devs, lost, tcall, tret, nref, refAt, life>>

(* the node accepts connections again (only with a client that reconnects by itself) *)
Reopen == /\ lost' = FALSE
          /\ UNCHANGED <<st, key, where, released, recv, ans, handed, lostAt, stale, devs, closing, tcall, tret, nref, refAt, life>>
Refused == /\ nref' = nref + 1
           /\ UNCHANGED <<st, key, where, released, recv, ans, handed, lost, lostAt, stale, devs, closing, tcall, tret, refAt, life>>
(* node state callbacks: after the shutdown was announced nothing else is announced *)
StateCb(online, state, by) ==
                          \* (a new request re-opens a shut down client: what a CALLER's thread announces is its business;
                          \*  the client's own threads have nothing to announce after the shutdown)
                          /\ (life = "shutdown" => ((state = "shutdown" /\ ~online) \/ by = "caller"))
                          /\ life' = (IF life \in {"shutdown", "reopened"} /\ state # "shutdown" THEN "reopened" ELSE state)
                          /\ UNCHANGED <<st, key, where, released, recv, ans, handed, lost, lostAt, stale, devs, closing, tcall, tret, nref, refAt>>
(* what the property allows a caller to get *)
RetReply(i, gid) ==          \* its own reply, handed to nobody else
   /\ st[i] = "called" /\ gid = i /\ i \in ans /\ gid \notin handed
   /\ handed' = handed \cup {gid}
   /\ st' = [st EXCEPT ![i] = "ret"] /\ tret' = [tret EXCEPT ![i] = now']
   /\ UNCHANGED <<key, where, released, recv, ans, lost, lostAt, stale, devs, closing, tcall, nref, refAt, life>>
(* SECoP replies carry no request id: the answer to a request that had timed out (the node was late, outside  *)
(* what the client can repair) is indistinguishable from the answer to the next request with the same key.   *)
(* A caller may get that late reply - of a request with ITS key that returned without a reply - and nothing  *)
(* else; the late reply is handed out at most once.                                                          *)
RetLateReply(i, gid) ==
   /\ st[i] = "called" /\ gid \in Callers /\ gid # i /\ key[gid] = key[i]
   /\ st[gid] = "ret" /\ gid \in ans /\ gid \notin handed /\ where[i] = "sent"
   /\ handed' = handed \cup {gid}
   /\ st' = [st EXCEPT ![i] = "ret"] /\ tret' = [tret EXCEPT ![i] = now']
   /\ UNCHANGED <<key, where, released, recv, ans, lost, lostAt, stale, devs, closing, tcall, nref, refAt, life>>
RetTimeout(i, dt) ==         \* only a peer that ignored the request, on a live connection, after the time-out
   /\ st[i] = "called" /\ ~lost /\ dt >= Tmo /\ dt <= Tmo + 5
   /\ \E j \in Callers : /\ key[j] = key[i] /\ j \in recv /\ j \notin ans      \* own or colliding request ignored,
                         /\ (j = i \/ st[j] = "called" \/ tret[j] >= tcall[i])   \* the colliding one still outstanding when i called
   /\ st' = [st EXCEPT ![i] = "ret"] /\ tret' = [tret EXCEPT ![i] = now']
   /\ UNCHANGED <<key, where, released, recv, ans, handed, lost, lostAt, stale, devs, closing, tcall, nref, refAt, life>>
RetConnErr(i) ==             \* connection error, promptly after the loss
   /\ st[i] = "called" /\ (lost \/ closing \/ (lostAt >= 0 /\ tcall[i] <= lostAt)) /\ now' <= lostAt + Prompt
   /\ st' = [st EXCEPT ![i] = "ret"] /\ tret' = [tret EXCEPT ![i] = now']
   /\ UNCHANGED <<key, where, released, recv, ans, handed, lost, lostAt, stale, devs, closing, tcall, nref, refAt, life>>

RetRefused(i) ==             \* a caller that arrived after the loss: its own reconnect attempt was refused
   /\ st[i] = "called" /\ (lost \/ closing \/ nref > refAt[i]) /\ where[i] = "none"     \* nothing of it was ever queued or sent
   /\ st' = [st EXCEPT ![i] = "ret"] /\ tret' = [tret EXCEPT ![i] = now']
   /\ UNCHANGED <<key, where, released, recv, ans, handed, lost, lostAt, stale, devs, closing, tcall, nref, refAt, life>>

(* named deviations of the pinned implementation (known findings); each records itself *)
Dev(i, name) == /\ st[i] = "called" /\ st' = [st EXCEPT ![i] = "ret"] /\ tret' = [tret EXCEPT ![i] = now']
                /\ devs' = devs \cup {name}
                /\ UNCHANGED <<key, where, released, recv, ans, handed, lost, lostAt, stale, closing, tcall, nref, refAt, life>>
(* a request parked behind a colliding one *after* that one had been answered: nobody re-queues it *)
Dev_TimeoutStalePark(i) == i \in stale /\ where[i] = "pending" /\ i \notin recv /\ ~lost /\ Dev(i, "TimeoutStalePark")
(* a request still sitting in (or put into) the transmit queue when the connection was torn down *)
Dev_TimeoutLostInTxq(i) == lost /\ where[i] \in {"txq", "tx"} /\ i \notin released /\ Dev(i, "TimeoutLostInTxq")

DiscRetOK == UNCHANGED <<st, key, where, released, recv, ans, handed, lost, lostAt, stale, devs, closing, tcall, tret, nref, refAt, life>>
Dev_DiscRaised(who) == /\ devs' = devs \cup {"JoinOnClearedHandle"}
                       /\ UNCHANGED <<st, key, where, released, recv, ans, handed, lost, lostAt, stale, closing, tcall, tret, nref, refAt, life>>

(* invariants over the observable state (mirror Client.tla's) *)
AtMostOnce == Cardinality(handed) = Cardinality({i \in Callers : st[i] = "ret" /\ i \in handed})
=============================================================================
