---------------------------- MODULE EnumStatus ----------------------------
(* Class level use of frappy.lib.enum: the status enum of module classes.  Readable.Status = {IDLE, WARN, ERROR},  *)
(* Drivable extends it by BUSY; a subclass extends the enum of its base class in one of the ways the code base     *)
(* uses.  What has to hold for every class, whatever was defined before or after it:                               *)
(*   - cls.Status, the enum in the description of the status parameter and the set of status codes an instance     *)
(*     accepts are one and the same enum (what a module can emit through self.Status.X is in its described enum);   *)
(*   - it contains every pair of the base class's enum (Monotone) and is a bijection;                               *)
(*   - defining a class - successfully or not - never changes the enum of another class (Frozen).                   *)
(* kinds of declaration in the class body:                                                                          *)
(*   none    nothing: the status parameter is inherited                                                             *)
(*   std     status = Parameter(datatype=StatusType(Base, 'NAME', ...))       standard names, standard codes          *)
(*   kw      status = Parameter(datatype=StatusType(Base, NAME=code))         a non standard member                    *)
(*   enum    Status = Enum(Base.Status, NAME=code); status = Parameter(datatype=StatusType(Status))                  *)
(*   tuple   Status = Enum(Base.Status, NAME=code); status = Parameter(datatype=TupleOf(EnumType(Status), StringType())) *)
(*   lost    Status = Enum(Base.Status, NAME=code)   and no status parameter: the class attribute is replaced by    *)
(*           the enum of the inherited parameter - the declaration has no effect (cls.Status always is the          *)
(*           described enum)                                                                                        *)
EXTENDS EnumLib
CONSTANTS MaxClasses, StdArgs, KwArgs,
          ExtraKinds     \* {} or {"fresh"}: status = Parameter(datatype=StatusType('IDLE', 'BUSY')) - a new enum that does not
                         \* extend the base class's (possible in the code, not used in the code base; Monotone must fail)
VARIABLES classes, hist
svars == <<classes, hist>>
(* argument alphabets of the configurations *)
SA_quick == {<<"RAMPING">>, <<"BUSY", "FINALIZING">>, <<"NOPE">>, <<"IDLE", "DISABLED">>}
KA_quick == {<<"X", 777>>, <<"X", 100>>, <<"IDLE", 5>>, <<"RAMPING", 370>>}
SA_thorough == SA_quick \cup {<<"DISABLED">>, <<"RAMPING", "FINALIZING">>}
SA_deep == {<<"RAMPING">>, <<"NOPE">>}
KA_deep == {<<"X", 777>>, <<"IDLE", 5>>}
KA_thorough == KA_quick \cup {<<"PERSIST", 101>>, <<"IDLE", 100>>, <<"RAMPING", 390>>}

Std == ("DISABLED" :> 0) @@ ("IDLE" :> 100) @@ ("WARN" :> 200) @@ ("BUSY" :> 300) @@ ("RAMPING" :> 370)
       @@ ("FINALIZING" :> 390) @@ ("ERROR" :> 400)
Readable == [base |-> 0, map |-> ("IDLE" :> 100) @@ ("WARN" :> 200) @@ ("ERROR" :> 400)]
Drivable == [base |-> 1, map |-> ("BUSY" :> 300) @@ Readable.map]
(* all status codes the harness tries to emit on an instance *)
Universe == {0, 5, 100, 101, 200, 300, 370, 390, 400, 777}

IntPiece(n, v) == [k |-> n, val |-> V("int", v, "")]
Kinds == {"none", "std", "kw", "enum", "tuple", "lost"} \cup ExtraKinds
(* the enum a class gets: [err |-> exception class or "", map] *)
Declared(base, kind, arg) ==
  LET bm == classes[base].map
      ext(ps) == Fold({}, St("", NoMap), AsPieces(bm) \o ps) IN
  CASE kind = "none" -> St("", bm)
    [] kind = "lost" -> St(ext(<<IntPiece(arg[1], arg[2])>>).err, bm)     \* (the Enum(...) statement itself may be refused)
    [] kind = "fresh" -> St("", ("IDLE" :> 100) @@ ("BUSY" :> 300))
    [] kind = "std" -> IF \E j \in DOMAIN arg : arg[j] \notin DOMAIN Std THEN St("ProgrammingError", bm)
                       ELSE ext([j \in DOMAIN arg |-> IntPiece(arg[j], Std[arg[j]])])
    [] OTHER -> ext(<<IntPiece(arg[1], arg[2])>>)
Args(kind) == CASE kind \in {"none", "fresh"} -> {<<>>} [] kind = "std" -> StdArgs [] OTHER -> KwArgs

SInit == /\ cur = Null /\ pieces = <<>> /\ act = [a |-> "init"]
         /\ classes = <<Readable, Drivable>> /\ hist = <<>>
Derive(base, kind, arg) ==
  /\ Len(hist) < MaxClasses
  /\ LET d == Declared(base, kind, arg) IN
     /\ classes' = IF d.err = "" THEN Append(classes, [base |-> base, map |-> d.map]) ELSE classes
     /\ hist' = Append(hist, [base |-> base, kind |-> kind, arg |-> arg, err |-> d.err,
                             exp |-> IF d.err = "" THEN Members(d.map) ELSE <<>>,
                             idx |-> IF d.err = "" THEN Len(classes) + 1 ELSE 0])
  /\ UNCHANGED vars
SNext == \E base \in DOMAIN classes, kind \in Kinds : \E arg \in Args(kind) : Derive(base, kind, arg)
SSpec == SInit /\ [][SNext]_<<vars, svars>>

Monotone == \A j \in DOMAIN classes : classes[j].base > 0 =>
               \A n \in DOMAIN classes[classes[j].base].map :
                  n \in DOMAIN classes[j].map /\ classes[j].map[n] = classes[classes[j].base].map[n]
AllBijections == \A j \in DOMAIN classes : Bijection([nm |-> "Status", map |-> classes[j].map])
FrozenClasses == [][\A j \in DOMAIN classes : classes'[j] = classes[j]]_svars
(* isBusy / isDriving of Drivable: BUSY <= code < ERROR / FINALIZING, decided by member comparison *)
IsBusy(code) == 300 <= code /\ code < 400
IsDriving(code) == 300 <= code /\ code < 390
=============================================================================
