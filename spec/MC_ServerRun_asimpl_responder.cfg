\* documents X06-responder-leak at design level: EXPECTED TO FAIL OneResponder
SPECIFICATION Spec
CONSTANTS
  NIf = 1
  Kinds = {"ok"}
  Req = {"res1", "res2"}
  Repaired = FALSE
  FixNoIf = FALSE
  Crashes = FALSE
INVARIANT OneResponder
CHECK_DEADLOCK FALSE
