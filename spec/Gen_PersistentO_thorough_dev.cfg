SPECIFICATION GSpec
CONSTANTS
  Params = {"P1", "P2"}
  Vals = {"v0", "v1"}
  NChunks = 2
  AutoChoices = {{"P1"}}
  HwChoices = {{"P2"}}
  NoDefChoices = {{"P1"}}
  CfgVals = {"v1"}
  Faults = {}
  Corruptions = {"wipe"}
  Dev = {"BelieveEarly"}
  Depth = 12
  MaxChanges = 1
  MaxSaves = 1
  MaxFaults = 0
  MaxStarts = 2
  MaxCorrupt = 1
  MaxOther = 2
  FirstCfgs = {0}
  StartCfgs = {0, 1}
  PostReload = TRUE
  CfgKinds = {"value", "default"}
  Vias = {"set", "write", "read"}
CONSTRAINT Bound
INVARIANT Emit1
CHECK_DEADLOCK FALSE
