SPECIFICATION GSpec
CONSTANTS
  Params = {"P1", "P2"}
  Vals = {"v0", "v1", "v2"}
  NChunks = 2
  AutoChoices = {{"P1"}, {"P1", "P2"}}
  HwChoices = {{"P2"}, {"P1", "P2"}}
  NoDefChoices = {{"P1"}, {"P2"}}
  CfgVals = {"v1"}
  Faults = {"crash"}
  Corruptions = {"wipe", "extra", "bad"}
  Dev = {"BelieveEarly"}
  Depth = 12
  MaxChanges = 2
  MaxSaves = 1
  MaxFaults = 1
  MaxStarts = 2
  MaxCorrupt = 1
  MaxOther = 2
  FirstCfgs = {0}
  StartCfgs = {0, 1}
  CfgKinds = {"value", "default"}
  Vias = {"set", "write", "read"}
CONSTRAINT Bound
INVARIANT Emit1
CHECK_DEADLOCK FALSE
