SPECIFICATION MCSpec
CONSTANTS
  Layouts <- CatCommon
  Impl <- BrokenPollAll
CONSTRAINT MCBound4
INVARIANT FlagsOK
CHECK_DEADLOCK FALSE
