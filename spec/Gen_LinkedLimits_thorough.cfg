SPECIFICATION GSpec
CONSTANTS
  Kinds = {"minmax", "min", "max", "limits"}
  Lo = 0
  Hi = 4
  PVals = {0, 1, 2, 3, 4, 5}
  LVals = {0, 1, 2, 3, 4}
  ForbSets = {{}}
  HookExcs = {"badvalue", "hardware", "other"}
  Inits = {13}
  PV = {2}
  MinV = {1, 3}
  MaxV = {1}
  Pairs = {13, 31}
  APairs = {}
  Depth = 7
CONSTRAINT Bound
INVARIANT Emit1
CHECK_DEADLOCK FALSE
