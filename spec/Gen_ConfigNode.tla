--------------------------- MODULE Gen_ConfigNode ---------------------------
(* node emission for C10: NMods modules, each with one of the catalogue            *)
(* configurations, in one file or split over two files (a module only in the       *)
(* second file; a module defined in both files - the first definition wins).       *)
EXTENDS ConfigRules, Json
CONSTANTS NMods, Choices, Splits,
          Scen      \* scenario names (ScenTable): mode "plain" | "share" (one Param object for several modules)
                    \* | "twice" (configuration processed twice) x kind vector 1 .. 3 (KindVecs)
VARIABLES assign, split, scen

E(par, prop, form, ty, n) == [par |-> par, prop |-> prop, form |-> form, v |-> [ty |-> ty, n |-> n, m |-> 0]]
Req2 == {E("r1", "value", "B", "int", 4), E("r2", "value", "B", "int", 6)}       \* required although defaults exist
Base == {E("mp", "value", "B", "int", 6), E("n", "value", "B", "int", 10)} \cup Req2
MP == E("mp", "value", "B", "int", 6)
NodeCfgs == <<
  Req2 \cup {MP, E("n", "value", "B", "float", 13), E("a", "value", "P", "int", 100),      \* + both of a common write
              E("g1", "value", "B", "int", 20), E("g2", "value", "P", "int", 40),           \*   group and both of
              E("h1", "value", "B", "int", 60), E("h2", "value", "B", "float", 81)},         \*   the h pair      \* 1 healthy, writes a and n; the driver
                                                                                  \*   refuses n = 6.5 (still exactly once)
  Req2 \cup {MP, E("n", "value", "B", "float", 15), E("export", "value", "B", "bool", 0),    \* 2 healthy, not exported, driver bug on n,
   E("g2", "value", "P", "int", 40), E("h2", "value", "B", "int", 80),             \*   one of each group only,
   E("omit_unchanged_within", "value", "B", "int", 0),                             \*   omit_unchanged_within = 0,
   E("a", "max", "P", "int", 120), E("b", "value", "B", "int", 10),                \*   limit overrides; the
             E("s", "value", "P", "str", 24), E("s", "max", "P", "int", 64)},       \*   string only fits the overridden maxchars
  Base \cup {E("a", "value", "B", "int", 300)},                                   \* 3 outside (loose)
  Base \cup {E("a", "value", "B", "str", 0)},                                     \* 4 wrong type
  Base \cup {E("zz", "value", "B", "int", 2), E("a", "foo", "P", "int", 2)},       \* 5 two errors
  Req2 \cup {E("n", "value", "B", "int", 10)},                                    \* 6 missing mandatory
  Base \cup {E("a", "min", "P", "int", 160), E("a", "max", "P", "int", 40)},       \* 7 inverted limits
  Base \cup {E("c", "foo", "P", "int", 2)},                                       \* 8 unknown command property
  Req2 \cup {E("mp", "value", "B", "int", 6)},                                    \* 9 missing needscfg value
  Base \cup {E("ou", "value", "B", "int", 6), E("oi", "value", "B", "int", 10)},   \* 10 entry for an optional accessible
                                                                                  \*    the class does not implement
  {MP, E("n", "value", "B", "int", 10), E("r2", "value", "B", "int", 6),           \* 11 required value missing, only
   E("r1", "default", "P", "int", 6)} >>                                          \*    a default given
Name(k) == "m" \o ToString(k)
(* how the modules are served: all polled / unpolled, unpolled on an io, polled / on io, polled by io, unpolled *)
KindVecs == << <<"polled", "polled", "polled">>, <<"unpolled", "onio", "polled">>, <<"onio", "pio", "unpolled">>,
              <<"polled", "noclass", "unpolled">> >>
ScenTable == [plain1 |-> <<"plain", 1>>, share1 |-> <<"share", 1>>, twice1 |-> <<"twice", 1>>,
              plain2 |-> <<"plain", 2>>, share2 |-> <<"share", 2>>, twice2 |-> <<"twice", 2>>,
              plain3 |-> <<"plain", 3>>, share3 |-> <<"share", 3>>, twice3 |-> <<"twice", 3>>,
              plain4 |-> <<"plain", 4>>]
mode == ScenTable[scen][1]
kvec == ScenTable[scen][2]
KindOfMod(k) == KindVecs[kvec][k]
Mod(k) == [m |-> Name(k), cfg |-> NodeCfgs[assign[k]], kind |-> KindOfMod(k)]

GInit == assign = <<>> /\ split \in Splits /\ scen \in Scen
GNext == /\ Len(assign) < NMods
         /\ \E c \in Choices : assign' = Append(assign, c)
         /\ UNCHANGED <<split, scen>>
GSpec == GInit /\ [][GNext]_<<assign, split, scen>>

(* split 0: one file; 1: the last module lives in a second file; 2: the second file redefines *)
(* module m1 with configuration 4 (wrong type) - it must be ignored - and holds the last one  *)
Files == IF split = 0 THEN << [k \in 1 .. NMods |-> Mod(k)] >>
         ELSE IF split = 1 THEN << [k \in 1 .. NMods - 1 |-> Mod(k)], << Mod(NMods) >> >>
         ELSE << [k \in 1 .. NMods - 1 |-> Mod(k)], << [m |-> Name(1), cfg |-> NodeCfgs[4], kind |-> "polled"], Mod(NMods) >> >>
Merged == Merge(Files)
Emit1 == Len(assign) = NMods =>
   PrintT(<<"BEH", ToJson([files |-> Files, mode |-> mode, iopolled |-> (kvec # 3),
                           allowed |-> [m \in DOMAIN Merged |-> Allowed(Merged[m])],   \* (of the configuration alone)
                           origin |-> [m \in DOMAIN Merged |-> FirstFile(Files, m)],
                           writes |-> [m \in DOMAIN Merged |-> WriteSet(Merged[m])]])>>)
=============================================================================
