SPECIFICATION TSpec
CONSTANTS
  Kinds = {"minmax", "min", "max", "limits"}
  Lo = 0
  Hi = 8
  PVals = {0, 1, 2, 3, 4, 5, 6, 7, 8, 9}
  LVals = {0, 1, 2, 3, 4, 5, 6, 7, 8}
  ForbSets = {{}}
  HookExcs = {"badvalue", "hardware", "other"}
  Inits = {8}
CONSTRAINT Track
POSTCONDITION Verdicts
CHECK_DEADLOCK FALSE
