------------------------------ MODULE Persistent ------------------------------
(* C17.  Persistent parameters (frappy/persistent.py PersistentMixin).            *)
(*                                                                                *)
(* What the property demands, over an abstract disk:                              *)
(*   Atomic     the target file is never partial / empty; across any crash or I/O *)
(*              error it is the previous or the new complete snapshot             *)
(*   Retry      a save that failed is not considered done: whenever the module    *)
(*              believes "already on disk", the disk really holds that snapshot   *)
(*   RoundTrip  restart after a completed save restores equal values              *)
(*   Precedence configured value > stored value > default                         *)
(*   Tolerant   missing / truncated / non-JSON / wrong-kind / outdated file:      *)
(*              start-up succeeds, usable entries used, others ignored one by one *)
(* The judging predicates (Expected, AtomicOK, SkipOK, MustBeSaved) are shared    *)
(* with Trace_Persistent; the save procedure below (open tmp, write*, close,      *)
(* rename, remove) is the reference design that is model-checked against them and *)
(* from which Gen_Persistent derives expected states.                             *)
EXTENDS Naturals, Sequences, FiniteSets, TLC

CONSTANTS Params,        \* persistent parameter names (strings)
          Vals,          \* abstract value ids (strings); "v0" is every parameter's default
          NChunks,       \* number of write operations per save in the reference design
          AutoChoices,   \* set of sets: which parameters save automatically on change
          HwChoices,     \* set of sets: which parameters have a write_ method (writeDict)
          NoDefChoices,  \* set of sets: which parameters are declared without a default value
          CfgVals,       \* values a configuration may give (as value or as default)
          Faults,        \* subset of {"crash", "ioerror"}
          Corruptions,   \* subset of {"missing","notjson","notdict","extra","bad","drop","wipe"}
          Dev            \* deviations of the implementation to include ({} = the property)

Default == "v0"
NoVal == "-"                      \* "no value": not configured / not in the file / not pending
Bad == "bad"                      \* a stored entry that is not a valid value of the datatype
Entries == Vals \cup {NoVal, Bad}
Snapshot == [Params -> Vals]
NoSnap == [p \in Params |-> NoVal]
CfgSet == [Params -> CfgVals \cup {NoVal}]      \* configured values (or configured defaults) per parameter

(* ---- file contents ---- *)
(* extra: the file holds an entry under a key that is no persistent parameter of the module (an unknown name, *)
(* a parameter that is not persistent or has persistent = off); its value (NoVal = no such entry) would be   *)
(* a valid value of that foreign parameter                                                                    *)
Absent       == [k |-> "absent",  ent |-> NoSnap, extra |-> NoVal, n |-> 0]
Json(E, x)   == [k |-> "json",    ent |-> E,      extra |-> x,     n |-> 0]   \* a JSON object
Complete(S)  == Json(S, NoVal)
Partial(S,i) == [k |-> "partial", ent |-> S,      extra |-> NoVal, n |-> i]   \* i < NChunks chunks written
NotJson      == [k |-> "notjson", ent |-> NoSnap, extra |-> NoVal, n |-> 0]
NotDict      == [k |-> "notdict", ent |-> NoSnap, extra |-> NoVal, n |-> 0]
IsComplete(c) == c.k = "json" /\ c.ent \in Snapshot /\ c.extra = NoVal
Contents == {Absent, NotJson, NotDict} \cup {Json(E, x) : E \in [Params -> Entries], x \in Vals \cup {NoVal}}
            \cup {Partial(S, i) : S \in Snapshot, i \in 0 .. NChunks - 1}

(* ---- the judging predicates (shared with the trace specification) ---- *)
(* Precedence + Tolerant, per parameter: configured > usable stored entry > default *)
Expected(cfg, file, def) == IF cfg # NoVal THEN cfg
                            ELSE IF file \notin {NoVal, Bad} THEN file ELSE def
(* Atomic, per step: the target is what it was or the complete new snapshot *)
AtomicOK(before, after, new) == after = before \/ after = new
(* Retry: "next save would be skipped" is only sound when the disk holds the current snapshot *)
SkipOK(skip, target, cur) == skip => target = cur

VARIABLES disk,      \* [target, tmp] -> content
          alive,     \* a process exists
          kind,      \* [auto, hw, nodef]: shape of the module class (fixed per behaviour)
          val,       \* current parameter values
          believed,  \* persistentData: snapshot believed to be on disk (NoSnap = unknown)
          wd,        \* writeDict: values registered for writing to the hardware
          pc,        \* 0 = idle, j = about to perform Ops[j] of a save
          sv,        \* the snapshot being saved
          init,      \* initData: the "factory" values (configuration / default, before the file was applied)
          fval,      \* value of the foreign (not persistent) parameter
          err,       \* parameters still flagged "not initialized" (no value from cfg, file or declaration)
          tampered   \* the environment removed the directory under the running process

vars == <<disk, alive, kind, val, believed, wd, pc, sv, init, fval, err, tampered>>

(* ---- the reference save procedure ---- *)
Ops == <<[o |-> "pre", i |-> 0], [o |-> "open", i |-> 0]>>
       \o [i \in 1 .. NChunks |-> [o |-> "write", i |-> i]]
       \o <<[o |-> "close", i |-> 0], [o |-> "rename", i |-> 0], [o |-> "remove", i |-> 0]>>
NOps == Len(Ops)
RenameIdx == NChunks + 4

Apply(d, op, S) ==
    CASE op.o = "pre"    -> d
      [] op.o = "open"   -> [d EXCEPT !.tmp = Partial(S, 0)]
      [] op.o = "write"  -> [d EXCEPT !.tmp = IF op.i = NChunks THEN Complete(S) ELSE Partial(S, op.i)]
      [] op.o = "close"  -> d
      [] op.o = "rename" -> [d EXCEPT !.target = d.tmp, !.tmp = Absent]
      [] op.o = "remove" -> [d EXCEPT !.tmp = Absent]

RECURSIVE ApplyUpTo(_, _, _)
ApplyUpTo(d, S, n) == IF n = 0 THEN d ELSE Apply(ApplyUpTo(d, S, n - 1), Ops[n], S)

Early == "BelieveEarly" \in Dev     \* deviation: persistentData updated before the file is written

(* ---- loading ---- *)
FileEnt(c) == IF c.k = "json" THEN c.ent ELSE NoSnap
(* cfg: configured values, cdef: configured defaults (a default given in the configuration is a default) *)
DefOf(cdef, p) == IF cdef[p] # NoVal THEN cdef[p] ELSE Default
Loaded(cfg, cdef, c) == [p \in Params |-> Expected(cfg[p], FileEnt(c)[p], DefOf(cdef, p))]
Factory(cfg, cdef) == [p \in Params |-> Expected(cfg[p], NoVal, DefOf(cdef, p))]
(* only a parameter that got its value from nowhere (datatype default) may stay flagged "not initialized" *)
Uninit(cfg, cdef, c, k) == {p \in k.nodef : cfg[p] = NoVal /\ cdef[p] = NoVal /\ FileEnt(c)[p] \notin Vals}
CfgPairs == {cc \in CfgSet \X CfgSet : \A p \in Params : cc[1][p] = NoVal \/ cc[2][p] = NoVal}
BelievedAfterLoad(c) == IF IsComplete(c) THEN c.ent ELSE NoSnap
Pending(nv, k) == [p \in Params |-> IF p \in k.hw THEN nv[p] ELSE NoVal]

Init == /\ disk = [target |-> Absent, tmp |-> Absent]
        /\ alive = FALSE
        /\ kind \in [auto : AutoChoices, hw : HwChoices, nodef : NoDefChoices]
        /\ val = NoSnap /\ believed = NoSnap /\ wd = NoSnap
        /\ pc = 0 /\ sv = NoSnap
        /\ init = NoSnap /\ fval = NoVal /\ err = {} /\ tampered = FALSE

(* (re)start = load; the start-up save follows as ordinary save steps *)
Start(cfg, cdef) ==
    /\ pc = 0
    /\ LET nv == Loaded(cfg, cdef, disk.target)
           bel == BelievedAfterLoad(disk.target)
       IN /\ alive' = TRUE
          /\ val' = nv
          /\ wd' = Pending(nv, kind)
          /\ init' = Factory(cfg, cdef)
          /\ err' = Uninit(cfg, cdef, disk.target, kind)
          /\ fval' = Default            \* never taken from the file
          /\ tampered' = FALSE
          /\ IF bel = nv
             THEN pc' = 0 /\ sv' = NoSnap /\ believed' = bel
             ELSE pc' = 1 /\ sv' = nv /\ believed' = IF Early THEN nv ELSE bel
    /\ UNCHANGED <<disk, kind>>

(* writing a value to the hardware initialises the parameter *)
WriteInit == /\ alive /\ pc = 0 /\ wd # NoSnap
             /\ wd' = NoSnap
             /\ err' = err \ kind.hw
             /\ UNCHANGED <<disk, alive, kind, val, believed, pc, sv, init, fval, tampered>>

(* a change: by a client (write), by the driver, or read back from the hardware *)
Change(p, v) == /\ alive /\ pc = 0 /\ wd = NoSnap /\ (v # val[p] \/ p \in err)
                /\ val' = [val EXCEPT ![p] = v]
                /\ err' = err \ {p}
                /\ UNCHANGED <<disk, alive, kind, believed, wd, pc, sv, init, fval, tampered>>

ChangeForeign(v) == /\ alive /\ pc = 0 /\ v # fval
                    /\ fval' = v
                    /\ UNCHANGED <<disk, alive, kind, val, believed, wd, pc, sv, init, err, tampered>>

(* loadParameters(): usable stored entries replace the values (and are written to the hardware), *)
(* everything else stays; foreign entries are ignored                                            *)
Reloaded(c, v) == [p \in Params |-> IF FileEnt(c)[p] \in Vals THEN FileEnt(c)[p] ELSE v[p]]
(* It may be called at any time, also right after start-up while configured values are still waiting to be   *)
(* written (wd): everything pending is written as well.  This is why the start-up save matters: a file left   *)
(* over from the previous run would otherwise be reloaded over the configured values (ReloadHarmless)          *)
ReloadHarmless(E, v) == \A p \in DOMAIN v : E[p] \in {NoVal, Bad} \/ E[p] = v[p]
Reload == /\ alive /\ pc = 0
          /\ val' = Reloaded(disk.target, val)
          /\ err' = (err \ {p \in Params : FileEnt(disk.target)[p] \in Vals}) \ {p \in kind.hw : wd[p] # NoVal}
          /\ wd' = NoSnap
          /\ believed' = BelievedAfterLoad(disk.target)
          /\ tampered' = FALSE
          /\ UNCHANGED <<disk, alive, kind, pc, sv, init, fval>>

(* factory_reset: back to the values of configuration / declaration *)
FactoryReset == /\ alive /\ pc = 0 /\ wd = NoSnap
                /\ val' = init
                /\ err' = {}
                /\ UNCHANGED <<disk, alive, kind, believed, wd, pc, sv, init, fval, tampered>>

SaveBegin == /\ alive /\ pc = 0 /\ wd = NoSnap /\ believed # val
             /\ pc' = 1 /\ sv' = val
             /\ believed' = IF Early THEN val ELSE believed
             /\ UNCHANGED <<disk, alive, kind, val, wd, init, fval, err, tampered>>

FsStep == /\ alive /\ pc > 0
          /\ disk' = Apply(disk, Ops[pc], sv)
          /\ believed' = IF pc = RenameIdx THEN sv ELSE believed
          /\ tampered' = IF pc = RenameIdx THEN FALSE ELSE tampered
          /\ IF pc = NOps THEN pc' = 0 /\ sv' = NoSnap ELSE pc' = pc + 1 /\ sv' = sv
          /\ UNCHANGED <<alive, kind, val, wd, init, fval, err>>

(* the operation at pc raises; the save unwinds through its finally (remove tmp, which may fail too) *)
IOErr == /\ alive /\ pc > 0 /\ "ioerror" \in Faults
         /\ disk' \in {disk, [disk EXCEPT !.tmp = Absent]}
         /\ pc' = 0 /\ sv' = NoSnap
         /\ UNCHANGED <<alive, kind, val, believed, wd, init, fval, err, tampered>>

(* the process dies at any moment; the disk stays as it is *)
Crash == /\ alive /\ "crash" \in Faults
         /\ alive' = FALSE /\ pc' = 0 /\ sv' = NoSnap
         /\ val' = NoSnap /\ believed' = NoSnap /\ wd' = NoSnap
         /\ init' = NoSnap /\ fval' = NoVal /\ err' = {} /\ tampered' = FALSE
         /\ UNCHANGED <<disk, kind>>

(* between two runs the environment damages the stored file *)
Damage(c, p, t) ==
    CASE c = "missing" -> Absent
      [] c = "notjson" -> NotJson
      [] c = "notdict" -> NotDict
      [] c = "extra"   -> IF t.k = "json" THEN [t EXCEPT !.extra = "v1"] ELSE t
      [] c = "bad"     -> IF t.k = "json" THEN [t EXCEPT !.ent[p] = Bad] ELSE t
      [] c = "drop"    -> IF t.k = "json" THEN [t EXCEPT !.ent[p] = NoVal] ELSE t
Corrupt(c, p) == /\ ~alive /\ c \in Corruptions \ {"wipe"}
                 /\ Damage(c, p, disk.target) # disk.target
                 /\ disk' = [disk EXCEPT !.target = Damage(c, p, disk.target)]
                 /\ UNCHANGED <<alive, kind, val, believed, wd, pc, sv, init, fval, err, tampered>>
(* the persistent directory is removed while the process runs (clean-up of the log directory): the module *)
(* cannot know; the next save that has something to write re-creates directory and file                   *)
Wipe == /\ alive /\ pc = 0 /\ "wipe" \in Corruptions
        /\ disk' = [target |-> Absent, tmp |-> Absent]
        /\ tampered' = TRUE
        /\ UNCHANGED <<alive, kind, val, believed, wd, pc, sv, init, fval, err>>
Corrupting == Wipe \/ \E c \in Corruptions, p \in Params : Corrupt(c, p)

Next == \/ \E cc \in CfgPairs : Start(cc[1], cc[2])
        \/ WriteInit
        \/ \E p \in Params, v \in Vals : Change(p, v)
        \/ \E v \in Vals : ChangeForeign(v)
        \/ Reload \/ FactoryReset
        \/ SaveBegin \/ FsStep \/ IOErr \/ Crash
        \/ Corrupting

Spec == Init /\ [][Next]_vars

(* ---- properties ---- *)
TypeOK == /\ disk \in [target : Contents, tmp : Contents]
          /\ alive \in BOOLEAN
          /\ val \in Snapshot \cup {NoSnap} /\ believed \in Snapshot \cup {NoSnap}
          /\ wd \in [Params -> Vals \cup {NoVal}]
          /\ pc \in 0 .. NOps /\ sv \in Snapshot \cup {NoSnap}
          /\ alive => val \in Snapshot /\ init \in Snapshot /\ fval \in Vals
          /\ err \subseteq kind.nodef /\ tampered \in BOOLEAN

(* the target is never a partially written or empty file *)
Atomic == disk.target.k # "partial"
(* whatever happens (step, error, crash): previous or new complete snapshot *)
AtomicStep == [][Corrupting \/ AtomicOK(disk.target, disk'.target, Complete(val))]_vars
(* a failed save is not considered done *)
Retry == (alive /\ pc = 0 /\ ~tampered) => SkipOK(believed = val, disk.target, Complete(val))
BelievedSound == (alive /\ believed # NoSnap /\ ~tampered) => disk.target = Complete(believed)
(* a save that ran to its end put the current values on disk *)
SaveCompletes == [][(FsStep /\ pc = NOps) => disk'.target = Complete(val)]_vars
RoundTrip == [][\A cc \in CfgPairs : (Start(cc[1], cc[2]) /\ IsComplete(disk.target)) =>
                   \A p \in Params : cc[1][p] = NoVal => (val'[p] = disk.target.ent[p] /\ p \notin err')]_vars
Precedence == [][\A cc \in CfgPairs : Start(cc[1], cc[2]) =>
                   \A p \in Params : cc[1][p] # NoVal => val'[p] = cc[1][p]]_vars
Tolerant == [][\A cc \in CfgPairs : Start(cc[1], cc[2]) =>
                  /\ alive'
                  /\ \A p \in Params : cc[1][p] = NoVal =>
                        val'[p] = IF FileEnt(disk.target)[p] \in Vals THEN FileEnt(disk.target)[p]
                                  ELSE DefOf(cc[2], p)]_vars
(* entries of the file that do not belong to a persistent parameter never reach the module *)
ForeignUntouched == [][(\E cc \in CfgPairs : Start(cc[1], cc[2])) => fval' = Default]_vars
                    /\ [][Reload => fval' = fval]_vars
(* once the start-up save is through, the stored file agrees with the values just established: reloading it *)
(* (before anything changed) cannot bring back stale values of the previous run over configured ones        *)
StartupFileAgrees == [][(FsStep /\ pc = NOps) => ReloadHarmless(FileEnt(disk'.target), val')]_vars
(* reload keeps what the file cannot give; factory reset forgets the file *)
ReloadKeeps == [][Reload => \A p \in Params : FileEnt(disk.target)[p] \notin Vals => val'[p] = val[p]]_vars
=============================================================================
