SPECIFICATION GSpec
CONSTANTS
  States = {"A", "K1"}
  StartStates = {"A"}
  CleanupTargets = {"K1"}
  Keys = {"x", "y"}
  Vals = {"1", "2", "3", "4", "5", "6", "7", "8"}
  MaxLoops = 2
  Construct = TRUE
  Concurrent = FALSE
  Depth = 5
  MaxCalls = 3
  MaxLevel = 400
CONSTRAINT Bound
INVARIANT Emit1
INVARIANT H_CycleBounded
INVARIANT H_InitFlag
INVARIANT H_CleanupOnce
CHECK_DEADLOCK FALSE
