SPECIFICATION GSpecBoot
CONSTANTS
  Conns = {"c1", "c2"}
  Mods = {"m1", "m2"}
  Used = {"comlog", "off"}
  ComMods = {"m1"}
  Configs <- CfgMixed
  MaxDay = 2
  Acts = {"logging", "emit", "mainemit", "comlog", "nextday", "reinit", "ident", "disconnect"}
  InitLevels = {99}
  Depth = 3
CONSTRAINT Bound
INVARIANT Emit1
CHECK_DEADLOCK FALSE
