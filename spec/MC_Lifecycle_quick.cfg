SPECIFICATION MCSpec
CONSTANTS
  Names = {"a", "b"}
  Missing = "zz"
  MaxMods = 2
  MaxEdges = 9
INVARIANT ReadyMeansStarted
INVARIANT RefusedClean
INVARIANT ShutdownOrder
INVARIANT NotStuck
CHECK_DEADLOCK FALSE
