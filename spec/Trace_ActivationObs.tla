------------------------- MODULE Trace_ActivationObs -------------------------
EXTENDS ActivationObs, Json, IOUtils, TLCExt, SequencesExt
Traces == JsonDeserialize(IOEnv.TRACE_FILE)
NT == Len(Traces)
VARIABLES t, l
ASSUME \A i \in 1 .. NT : TLCSet(i, 1)
Ev == Traces[t][l]
TInit == AInit /\ t \in 1 .. NT /\ l = 1
TStep ==
  /\ l <= Len(Traces[t])
  /\ l' = l + 1 /\ t' = t
  /\ \/ Ev.ev = "seed" /\ Seed(Ev.p, Ev.v)
     \/ Ev.ev = "store" /\ Store(Ev.p, Ev.pm, Ev.v)
     \/ Ev.ev = "req" /\ ReqBegin(Ev.c, Ev.kind, Ev.scope, Ev.sm)
     \/ Ev.ev = "deliver" /\ Deliver(Ev.c, Ev.p, Ev.pm, Ev.v)
     \/ Ev.ev = "deliver" /\ Dev_StaleSnapshot(Ev.c, Ev.p, Ev.pm, Ev.v, Ev.by)
     \/ Ev.ev = "deliver" /\ Dev_LateUpdate(Ev.c, Ev.p, Ev.pm, Ev.v, Ev.by)
     \/ Ev.ev = "reply" /\ Ev.ok /\ Ev.valid /\ Reply(Ev.c, Ev.kind, Ev.scope, Ev.sm, ToSet(Ev.params))
     \/ Ev.ev = "reply" /\ ~Ev.ok /\ ~Ev.valid /\ Ev.kind = "activate" /\ Refused(Ev.c, Ev.scope)
     \/ Ev.ev = "quiet" /\ Quiet(ToSet(Ev.params))
TSpec == TInit /\ [][TStep]_<<avars, t, l>>
Track == TLCSet(t, IF l > TLCGet(t) THEN l ELSE TLCGet(t))
Done == (l = Len(Traces[t]) + 1) => PrintT(<<"DEVS", t, ToJson(devs)>>)
Verdicts == \A i \in 1 .. NT :
   IF TLCGet(i) = Len(Traces[i]) + 1 THEN PrintT(<<"ACCEPT", i>>)
   ELSE PrintT(<<"REJECT", i, TLCGet(i), "event not allowed by ActivationObs">>)
=============================================================================
