------------------------------ MODULE Discovery ------------------------------
(* C19.  UDP discovery responder (frappy/protocol/discovery.py UDPListener).        *)
(*                                                                                  *)
(* Part B (construction): a description is a sequence of GLYPH CLASSES, each with   *)
(* a raw UTF-8 width and a width inside the JSON message:                           *)
(*    1 plain ASCII (1,1)   2 escaped ASCII quote backslash \n \r \t \b \f (1,2)    *)
(*    3 other control character \u00XX (1,6)   4/5/6 two/three/four byte code point *)
(*    (n,n) - json.dumps(ensure_ascii=False); with ensure_ascii=True they would be  *)
(*    (2,6) (3,6) (4,12), selected by the environment variable DISCOVERY_ASCII=1    *)
(*    which the harness sets after calibrating on the implementation.               *)
(* o = identity overhead (length of the message with empty description and a five   *)
(* digit port), m = MAX.  Demanded: the message fits, the transmitted description   *)
(* is a glyph prefix of the original, unchanged when the whole message fits, and    *)
(* the responder is enabled whenever the identity alone fits.                       *)
(* Part L (receive loop): two-state machine alive / dead over datagram classes.     *)
(* Survival and "one answer per request" do not depend on the size or content of    *)
(* earlier datagrams.  A datagram larger than the receive buffer is seen by the     *)
(* responder as its first bufsize bytes (oversized.. classes); "deep" / "oversized_ *)
(* deep" are datagrams of hundreds to thousands of nested JSON arrays / objects,    *)
(* which a recursive decoder refuses with an error that is not a syntax error.      *)
EXTENDS Integers, Sequences, FiniteSets, FiniteSetsExt, SequencesExt, TLC, IOUtils

CONSTANTS O,            \* identity overhead used by the state machine
          BLow, BHigh,  \* budgets MAX - O explored: -BLow .. BHigh
          MaxLen,       \* maximal number of glyphs in a description
          NPorts,       \* set of numbers of TCP interfaces the node listens on
          Classes,      \* datagram classes
          Loose,        \* classes about which the property is silent (answer or not)
          Contained,    \* DESIGN parameter: classes whose processing cannot end the loop
          DisableRule,  \* DESIGN parameter: "identity" (proposed) | "raw" (as implemented)
          AnnounceRule  \* DESIGN parameter: "enabled" (proposed) | "always" (as implemented)

Glyphs == 1 .. 6
AsciiEnv == ("DISCOVERY_ASCII" \in DOMAIN IOEnv) /\ IOEnv.DISCOVERY_ASCII = "1"
ASSUME TLCSet(99999, AsciiEnv)      \* IOEnv is expensive: looked up once, kept in a TLC register
Ascii == TLCGet(99999)
RawW == <<1, 1, 1, 2, 3, 4>>
JsonW == IF Ascii THEN <<1, 2, 6, 6, 6, 12>> ELSE <<1, 2, 6, 2, 3, 4>>

SumW(W, s) == FoldLeft(LAMBDA acc, x : acc + W[x], 0, s)
J(s) == SumW(JsonW, s)                     \* bytes of s inside the JSON message
R(s) == SumW(RawW, s)                      \* bytes of s in plain UTF-8
Prefix(s, k) == SubSeq(s, 1, k)
Fits(s, o, m) == o + J(s) <= m
MsgLen(s, o, pw) == o - (5 - pw) + J(s)     \* pw = number of digits of the port

(* ---------------- what the property demands of the construction --------------- *)
(* sl = 5 - digits of the widest port the node listens on (0..4): the messages really  *)
(* sent are that much shorter than the worst case.  The responder must be enabled and  *)
(* the description unchanged when that holds even for a five digit port; what is sent  *)
(* must fit for the ports in use; in the gap either way is allowed.                    *)
BuildOK(d, o, m, sl, en, r) ==
    /\ Fits(<<>>, o, m) => en                          \* identity fits: must answer
    /\ en => /\ IsPrefix(r, d)                         \* cut on a character boundary
             /\ Fits(r, o - sl, m)                     \* bounded message
             /\ (Fits(d, o, m) => r = d)               \* nothing cut without need
AllowedK(d, o, m, sl) == {k \in 0 .. Len(d) : BuildOK(d, o, m, sl, TRUE, Prefix(d, k))}
MayDisable(o, m) == ~ Fits(<<>>, o, m)
(* the same set computed from the cumulative widths (cheap form used for behaviour      *)
(* emission; equality with AllowedK is an invariant of the MC configurations)           *)
JCum(d) == [k \in 0 .. Len(d) |-> J(Prefix(d, k))]
AllowedKFast(jc, n, o, m, sl) == IF o + jc[n] <= m THEN {n} ELSE {k \in 0 .. n : o - sl + jc[k] <= m}

(* ---------------- the construction as designed (model of the algorithm) ------- *)
CutRaw(d, n) ==   \* utf8(d)[:n] decoded ignoring a trailing partial glyph
    LET ks == {k \in 0 .. Len(d) : R(Prefix(d, k)) <= n}
    IN IF ks = {} THEN <<>> ELSE Prefix(d, Max(ks))
Algo(d, o, m) ==
    LET avail == m - (o + J(d)) IN
    IF avail >= 0 THEN [en |-> TRUE, res |-> d]
    ELSE IF (DisableRule = "raw" /\ avail + R(d) < 0) \/ (DisableRule = "identity" /\ o > m)
         THEN [en |-> FALSE, res |-> d]
         ELSE [en |-> TRUE, res |-> CutRaw(d, R(d) + avail)]

VARIABLES desc, max, phase, enabled, res,   \* construction
          nports, alive, last               \* receive loop
vars == <<desc, max, phase, enabled, res, nports, alive, last>>
None == [kind |-> "none"]
MaxSet == (O - BLow) .. (O + BHigh)

Extend(g) == /\ phase = "input" /\ Len(desc) < MaxLen
             /\ desc' = Append(desc, g)
             /\ UNCHANGED <<max, phase, enabled, res, nports, alive, last>>

Build == /\ phase = "input"
         /\ LET a == Algo(desc, O, max) IN enabled' = a.en /\ res' = a.res
         /\ phase' = "built"
         /\ UNCHANGED <<desc, max, nports, alive, last>>

(* start of run(): announcement broadcast, then the loop if enabled *)
Start == /\ phase = "built"
         /\ phase' = IF enabled THEN "running" ELSE "off"
         /\ alive' = enabled
         /\ last' = [kind |-> "start", len |-> MsgLen(res, O, 5),      \* widest port
                     announced |-> IF enabled \/ AnnounceRule = "always" THEN 1 .. nports ELSE {}]
         /\ UNCHANGED <<desc, max, enabled, res, nports>>

(* a discovery request is a JSON object whose member "SECoP" is "discover" - bare ("discover") or with any   *)
(* other members next to it ("discover_extra"): both must be answered                                        *)
Requests == {"discover", "discover_extra"}
Answers(c) == IF c \in Requests THEN 1 .. nports ELSE {}
Recv(c) == /\ phase = "running" /\ alive
           /\ alive' = (c \in Contained)
           /\ \E a \in (IF c \in Loose THEN {{}, 1 .. nports} ELSE {Answers(c)}) :
                 last' = [kind |-> "dgram", cls |-> c, answers |-> a]
           /\ UNCHANGED <<desc, max, phase, enabled, res, nports>>

(* ---- part B alone ---- *)
BInit == /\ desc = <<>> /\ max \in MaxSet /\ phase = "input" /\ enabled = TRUE /\ res = <<>>
         /\ nports = 0 /\ alive = FALSE /\ last = None
BNext == (\E g \in Glyphs : Extend(g)) \/ Build
BSpec == BInit /\ [][BNext]_vars
(* ---- part L alone ---- *)
LInit == /\ desc = <<>> /\ max = O /\ phase = "built" /\ enabled \in BOOLEAN /\ res = <<>>
         /\ nports \in NPorts /\ alive = FALSE /\ last = None
LNext == Start \/ \E c \in Classes : Recv(c)
LSpec == LInit /\ [][LNext]_vars
(* ---- both ---- *)
Init == /\ desc = <<>> /\ max \in MaxSet /\ phase = "input" /\ enabled = TRUE /\ res = <<>>
        /\ nports \in NPorts /\ alive = FALSE /\ last = None
Next == BNext \/ LNext
Spec == Init /\ [][Next]_vars

(* ---------------- properties ---------------- *)
TypeOK == /\ desc \in Seq(Glyphs) /\ res \in Seq(Glyphs) /\ max \in Int
          /\ phase \in {"input", "built", "running", "off"}
          /\ enabled \in BOOLEAN /\ alive \in BOOLEAN /\ nports \in Nat

Slacks == 0 .. 4
BuildSound == phase # "input" => \A sl \in Slacks : BuildOK(desc, O, max, sl, enabled, res)
MsgBound == (phase # "input" /\ enabled) => \A pw \in 1 .. 5 : MsgLen(res, O, pw) <= max
(* the allowed results form an interval of prefix lengths (used by the replay driver) *)
AllowedInterval == phase = "input" => \A sl \in {0, 4} :
    LET ks == AllowedK(desc, O, max, sl) IN ks # {} => ks = Min(ks) .. Max(ks)
FastIsAllowed == phase = "input" => \A sl \in {0, 4} :
    AllowedKFast(JCum(desc), Len(desc), O, max, sl) = AllowedK(desc, O, max, sl)
(* the start-up announcement obeys the bound as well (a disabled responder keeps quiet) *)
AnnounceBounded == (last.kind = "start" /\ last.announced # {}) => last.len <= max
Alive == phase = "running" => alive
AnswerIffDiscover == last.kind = "dgram" =>
    /\ last.cls \notin Loose => (last.answers # {} <=> (last.cls \in Requests /\ nports > 0))
    /\ last.answers \in {{}, 1 .. nports}
=============================================================================
