--------------------------- MODULE Trace_RWHandler ---------------------------
(* code -> spec: recorded executions of real module classes built from a layout (catalogue or random) must be    *)
(* behaviours of RWHandler.  Every event carries its input and the projected state observed afterwards (cache,   *)
(* hardware, writeDict, hardware calls with arguments, announced updates per key, reply).  The intended design   *)
(* (no deviation) is tried first; an event that only a deviation explains records the smallest such set in       *)
(* `devs`.  MaskErr, ReadKeyNoParam, WriteNone: the code before b52e15f / 7127502 / 0678858 (findings fixed: a    *)
(* trace that needs one is a VIOLATION); RegistryLeak: still true of the code (open finding):                     *)
(*   Dev MaskErr        CommonReadHandler answers a refused hardware value with the stale value, readerror wiped  *)
(*   Dev ReadKeyNoParam ReadHandler / CommonReadHandler keys that are no parameter are accepted                   *)
(*   Dev WriteNone      WriteHandler: fn returning None announces a WrongType error before the value              *)
(*   Dev RegistryLeak   a refused class definition leaves names in Handler.method_names: the corrected class is   *)
(*                      refused as 'duplicate method'                                                             *)
EXTENDS RWHandler, Json, IOUtils, TLCExt
Traces == JsonDeserialize(IOEnv.TRACE_FILE)
NT == Len(Traces)
VARIABLES t, l, devs
tvars == <<t, l, devs>>
ASSUME \A j \in 1 .. NT : TLCSet(j, 1)
Ev == Traces[t][l]
NoLayouts == {}
NoImpl == {}

RECURSIVE CollapseSeq(_)
CollapseSeq(s) == IF Len(s) <= 1 THEN s
                  ELSE IF s[1] = s[2] THEN CollapseSeq(Tail(s)) ELSE <<s[1]>> \o CollapseSeq(Tail(s))
UpdOf(S) == [k \in ParamSet |-> CollapseSeq(SelectSeq(S.upd, LAMBDA u : u.k = k))]

(* the projected state of one module as recorded equals the model's *)
Match(S, o) ==
    /\ \A k \in ParamSet : /\ o.cache[k].v = S.cache[k].v /\ o.cache[k].err = S.cache[k].err
                           /\ o.hw[k] = S.hw[k]
                           /\ o.upd[k] = UpdOf(S)[k]
    /\ Range(o.wd) = S.wd
    /\ o.calls = S.calls
SameRes(a, b) == a.ok = b.ok /\ a.v = b.v /\ a.e = b.e

DefMatch(e, D) ==
    LET cr == Create(e.lay, pending, D) IN
    /\ e.obs.verdict = cr.v
    /\ cr.v = "ok" => /\ \A m \in Mods : \A k \in ParamSet : e.obs.polls[m][k] = PollFlag(e.lay, ClassOf(m), k, {})
                      /\ \A fn \in DOMAIN HandlerKeys(e.lay) : Range(e.obs.hkeys[fn]) = HandlerKeys(e.lay)[fn]
StartMatch(e, D) == \A m \in Mods : Match(StartOne(lay, m, D), e.obs.mods[m])
StepMatch(e, D) ==
    LET q == Outcome(e.mod, e, D) IN
    /\ Match(q.s, e.obs.mods[e.mod])
    /\ SameRes(q.r, e.obs.res)
    \* every other module that is listed (the recorder lists a module whenever its projection moved) is unchanged
    /\ \A x \in (DOMAIN e.obs.mods) \ {e.mod} : Match(Clear(st[x]), e.obs.mods[x])

Minimal(D, P(_)) == P(D) /\ \A D2 \in (SUBSET D) \ {D} : ~P(D2)
DevsFor(act) == CASE act \in {"read", "poll"} -> {"MaskErr"}
                  [] act = "change" -> {"WriteNone"}
                  [] OTHER -> {}

TInit == Init /\ t \in 1 .. NT /\ l = 1 /\ devs = {}
TStep ==
    /\ l <= Len(Traces[t])
    /\ l' = l + 1 /\ t' = t
    /\ \/ /\ Ev.act = "define"
          /\ \E D \in SUBSET {"ReadKeyNoParam", "RegistryLeak"} :
                /\ Minimal(D, LAMBDA d : DefMatch(Ev, d))
                /\ Define(Ev.lay, D) /\ devs' = devs \cup D
       \/ /\ Ev.act = "start"
          /\ \E D \in SUBSET {"MaskErr", "WriteNone"} :
                /\ Minimal(D, LAMBDA d : StartMatch(Ev, d))
                /\ Start(D) /\ devs' = devs \cup D
       \/ /\ Ev.act \in {"read", "change", "poll", "assign", "callcommon", "hwset", "setmode"}
          /\ Ev.mod \in Mods /\ Guard(Ev.mod, Ev)
          /\ \E D \in SUBSET DevsFor(Ev.act) :
                /\ Minimal(D, LAMBDA d : StepMatch(Ev, d))
                /\ Act(Ev.mod, Ev, D) /\ devs' = devs \cup D
TSpec == TInit /\ [][TStep]_<<vars, tvars>>

Track == TLCSet(t, IF l > TLCGet(t) THEN l ELSE TLCGet(t))
Done == (l = Len(Traces[t]) + 1) => PrintT(<<"DEVS", t, ToJson(devs)>>)
Verdicts == \A j \in 1 .. NT :
   IF TLCGet(j) = Len(Traces[j]) + 1 THEN PrintT(<<"ACCEPT", j>>)
   ELSE PrintT(<<"REJECT", j, TLCGet(j), "event not explained by RWHandler">>)
=============================================================================
