---------------------------- MODULE Gen_Datatypes ----------------------------
(* spec -> code: for every datatype of the shard, every case (candidate, previous, *)
(* path) is printed together with the set of outcomes the property allows.        *)
(* The type set is sharded over several TLC processes through the environment.    *)
EXTENDS Datatypes, Json, IOUtils, SequencesExt
GShard == atoi(IOEnv.DT_SHARD)
GNShards == atoi(IOEnv.DT_NSHARDS)
GTier == IOEnv.DT_TIER
(* one evaluation of the oracle per case: the laws are checked on, and the cases printed *)
(* from, the same set of evaluated cases                                                *)
Emit == LET R == CaseRecs(dt) IN
        /\ Assert(AllLaws(dt, R), <<"the oracle breaks its own laws on", dt>>)
        /\ PrintT(<<"DT", ToJson([dt |-> dt, cases |-> SetToSeq(R)])>>)

(* C02: the value set of every datatype with the JSON value each member must be exported as *)
EmitVS == /\ Assert(RoundTripLaw(dt), <<"the round trip law fails in the model for", dt>>)
          /\ PrintT(<<"VS", ToJson([dt |-> dt, vals |-> SetToSeq({[v |-> v, j |-> Export(dt, v)] : v \in VS(dt)})])>>)

(* C02: for every command of the catalogue the calls (argument value, result value) to perform *)
EmitCalls == /\ Assert(CmdRoundTripLaw(dt), <<"the round trip law fails in the model for the command", dt>>)
             /\ PrintT(<<"CALLS", ToJson([dt |-> dt, calls |-> SetToSeq(CmdCalls(dt))])>>)

(* C03: for the type dt = a, the allowed verdicts of a.compatible(b) for every b of the catalogue *)
EmitPairs == LET all == TypeSeq(Tier) IN
    /\ Assert(\A i \in 1 .. Len(all) : (~HasLimit(dt) /\ ~HasLimit(all[i]) /\ Supported(dt, all[i])) => Subset(dt, all[i]),
              <<"a supported pairing whose value sets are not nested, a =", dt>>)
    /\ PrintT(<<"PAIRS", ToJson([a |-> dt, ai |-> CHOOSE i \in 1 .. Len(all) : all[i] = dt,
                              pairs |-> [i \in 1 .. Len(all) |-> [allowed |-> AllowedPass(dt, all[i]), b |-> all[i]]]])>>)
(* C03: the decorated types whose description / rebuild / copy is examined, with their probe candidates *)
EmitEq == /\ Assert(DescribeLaw(dt), <<"Rebuild(Describe(d)) # d in the model for", dt>>)
          /\ PrintT(<<"EQ", ToJson([dt |-> dt, probes |-> SetToSeq(IF dt.k = "command" THEN {} ELSE {c \in Cands(dt) : ~HasInternal(c)})])>>)
=============================================================================
