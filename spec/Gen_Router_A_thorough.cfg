SPECIFICATION GSpec
CONSTANTS
  Nodes = {"A"}
  Order <- OrderA
  ModsOf <- ModsA
  Params = {"value", "mode"}
  Values = {1, 2}
  UpErrs = {"hw"}
  Conns = {"c1", "c2"}
  StartDown = {}
  ReqArgs <- OneArg
  ReqConns <- OneConn
  WaitSteps = {2, 12}
  ReadErrChoice = {TRUE, FALSE}
  GiveUpErrChoice = {TRUE, FALSE}
  Depth = 4
  Thin = 1
CONSTRAINT Bound
ACTION_CONSTRAINT EmitStep
VIEW AbstractView
CHECK_DEADLOCK FALSE
