--------------------------- MODULE Gen_LinkedLimits ---------------------------
(* spec -> code: operation sequences of LinkedLimits for every kind of limits *)
EXTENDS LinkedLimits, Json, Sequences
CONSTANTS Depth,
          PV,         \* values written to p
          MinV, MaxV, \* values written to p_min / p_max
          LA, LB      \* p_limits is written with every pair in LA \X LB
VARIABLE hist

Obs == [lo |-> lo', hi |-> hi', val |-> val', last |-> last']
Rec(a) == hist' = Append(hist, a @@ [exp |-> Obs])

GInit == /\ LInit
         /\ hist = <<[act |-> "init", kind |-> kind, dlo |-> Lo, dhi |-> Hi, forbidden |-> forb,
                      exp |-> [lo |-> lo, hi |-> hi, val |-> val, last |-> last]]>>
GNext == \/ \E v \in PV : WriteP(v) /\ Rec([act |-> "p", v |-> v])
         \/ \E v \in MinV : SetMin(v) /\ Rec([act |-> "min", v |-> v])
         \/ \E v \in MaxV : SetMax(v) /\ Rec([act |-> "max", v |-> v])
         \/ \E a \in LA, b \in LB : SetLimits(a, b) /\ Rec([act |-> "limits", a |-> a, b |-> b])
GSpec == GInit /\ [][GNext]_<<lvars, hist>>

Bound == TLCGet("level") <= Depth
Emit1 == (TLCGet("level") = Depth + 1) => PrintT(<<"BEH", ToJson(hist)>>)
=============================================================================
