--------------------------- MODULE Gen_LinkedLimits ---------------------------
(* spec -> code: operation sequences of LinkedLimits for every kind of limits *)
EXTENDS LinkedLimits, Json, Sequences
CONSTANTS Depth,
          PV,         \* values written to p
          MinV, MaxV, \* values written to p_min / p_max
          Pairs,      \* p_limits is written with the pairs <<a, b>> given as two-digit codes 10*a + b
          APairs      \* pairs the driver assigns to p_limits (self.p_limits = ...)
VARIABLE hist

Obs == [lo |-> lo', hi |-> hi', val |-> val', last |-> last']
Rec(a) == hist' = Append(hist, a @@ [exp |-> Obs])

GInit == /\ LInit
         /\ hist = <<[act |-> "init", kind |-> kind, dlo |-> Lo, dhi |-> Hi, forbidden |-> forb, hexc |-> hexc,
                      exp |-> [lo |-> lo, hi |-> hi, val |-> val, last |-> last]]>>
GNext == \/ \E v \in PV : WriteP(v) /\ Rec([act |-> "p", v |-> v])
         \/ \E v \in MinV : SetMin(v) /\ Rec([act |-> "min", v |-> v])
         \/ \E v \in MaxV : SetMax(v) /\ Rec([act |-> "max", v |-> v])
         \/ \E c \in Pairs : SetLimits(c \div 10, c % 10, TRUE)
                             /\ Rec([act |-> "limits", a |-> c \div 10, b |-> c % 10, how |-> "write"])
         \/ \E c \in APairs : SetLimits(c \div 10, c % 10, FALSE)
                             /\ Rec([act |-> "limits", a |-> c \div 10, b |-> c % 10, how |-> "assign"])
GSpec == GInit /\ [][GNext]_<<lvars, hist>>

Bound == TLCGet("level") <= Depth
Emit1 == (TLCGet("level") = Depth + 1) => PrintT(<<"BEH", ToJson(hist)>>)
=============================================================================
