SPECIFICATION GSpec
CONSTANTS
  Kinds = {"d", "ad", "r", "adc"}
  MaxLen = 2
  FaultModes = {"ew"}
  Depth = 10
  MaxStarts = 2
  MaxStops = 1
CONSTRAINT Bound
INVARIANT Emit1
CHECK_DEADLOCK FALSE
