----------------------------- MODULE Gen_Config -----------------------------
(* configuration emission for C10 (module level): every set of at most MaxExtra    *)
(* catalogue entries with pairwise different keys on top of the base entries        *)
(* (mandatory property, needscfg value), and the base entries missing.  For each    *)
(* configuration TLC prints the allowed outcomes and the state an accepted module   *)
(* must show (ConfigRules: Allowed, Exp).                                           *)
EXTENDS ConfigRules, Json
CONSTANTS MaxExtra, MaxExtraWhenMissing
VARIABLES sel, miss, last

E(par, prop, form, ty, n) == [par |-> par, prop |-> prop, form |-> form, v |-> [ty |-> ty, n |-> n, m |-> 0]]
Pair(par, lo, hi) == [par |-> par, prop |-> "value", form |-> "B", v |-> [ty |-> "pair", n |-> lo, m |-> hi]]
Cat == <<
  E("a", "value", "P", "int", 100),   E("a", "value", "B", "int", 100),   E("a", "value", "B", "int", 200),
  E("a", "value", "P", "int", 300),   E("a", "value", "P", "str", 0),     E("a", "value", "B", "float", 101),
  E("a", "max", "P", "int", 120),     E("a", "max", "P", "int", 40),      E("a", "min", "P", "int", 20),
  E("a", "min", "P", "int", 160),     E("a", "max", "P", "str", 0),       E("a", "unit", "P", "str", 1),
  E("a", "unit", "P", "int", 10),     E("a", "visibility", "P", "str", 3), E("a", "visibility", "P", "str", 9),
  E("a", "readonly", "P", "bool", 1), E("a", "export", "P", "bool", 0),   E("a", "foo", "P", "int", 2),
  E("b", "value", "B", "int", 10),    E("b", "value", "B", "float", 10),  E("b", "value", "B", "float", 11),
  E("b", "value", "B", "int", 22),    E("b", "max", "P", "float", 15),    E("b", "max", "P", "int", 12),
  E("b", "unit", "P", "str", 1),      E("n", "value", "B", "int", 400),   E("n", "value", "P", "int", 60),
  E("mp", "value", "B", "str", 0),    E("mp", "value", "B", "int", 18),   E("mp", "value", "P", "int", 8),
  E("op", "value", "B", "int", 10),   E("op", "value", "B", "int", 100),  E("zz", "value", "B", "int", 2),
  E("c", "visibility", "P", "int", 4), E("c", "foo", "P", "int", 2),
  Pair("a_limits", 20, 40),           Pair("a_limits", 160, 40),
  E("b", "min", "P", "int", 4),       E("n", "max", "P", "int", 100),
  \* lengths (half units): value valid under exactly one of class limits / overridden limits, both directions
  E("s", "value", "P", "str", 10),    E("s", "value", "P", "str", 24),    E("s", "max", "P", "int", 64),
  E("s", "max", "P", "int", 8),       E("s", "min", "P", "int", 12),      E("s", "value", "B", "int", 4),
  E("l", "value", "B", "list", 4),    E("l", "value", "P", "list", 10),   E("l", "max", "P", "int", 12),
  E("l", "max", "P", "int", 2),
  E("k", "value", "P", "bytes", 4),   E("k", "value", "P", "bytes", 12),  E("k", "max", "P", "int", 16),
  E("k", "max", "P", "int", 2),       E("k", "value", "B", "str", 6),
  \* default / constant / group (also through Group(...)) / module not exported / main unit / failing driver write
  E("a", "default", "P", "int", 14),  E("a", "default", "P", "str", 0),   E("a", "default", "P", "int", 300),
  E("b", "default", "P", "float", 8), E("a", "constant", "P", "int", 14), E("a", "constant", "P", "str", 0),
  E("s", "default", "P", "str", 24),
  E("a", "group", "P", "str", 1),     E("b", "group", "G", "str", 2),     E("a", "group", "G", "str", 2),
  E("export", "value", "B", "bool", 0), E("value", "unit", "P", "str", 1), E("value", "unit", "P", "int", 4),
  E("n", "unit", "P", "str", 1),      E("n", "value", "B", "float", 13),  E("n", "value", "B", "float", 15),
  \* accessibles declared optional in the base class: not implemented (ou, od) / implemented (oi, oc)
  E("ou", "value", "B", "int", 6),    E("ou", "max", "P", "int", 20),     E("od", "visibility", "P", "int", 4),
  E("oi", "value", "B", "int", 10),   E("oi", "max", "P", "int", 120),    E("oc", "visibility", "P", "int", 4),
  \* required values: only a default given / a constant given / limits only
  E("r1", "default", "P", "int", 6),  E("r2", "default", "P", "int", 8),  E("n", "default", "P", "int", 8),
  E("r1", "constant", "P", "int", 6), E("r2", "max", "P", "int", 120),
  \* parameters written by a common hardware function / a write method that takes a sibling along
  E("g1", "value", "B", "int", 20),   E("g2", "value", "P", "int", 40),   E("h1", "value", "B", "int", 60),
  E("h2", "value", "B", "float", 81),
  \* a module property whose legal value is falsy (0) / a non-zero one
  E("omit_unchanged_within", "value", "B", "int", 0), E("omit_unchanged_within", "value", "B", "float", 1) >>
BaseEntries == {E("mp", "value", "B", "int", 6), E("n", "value", "B", "int", 10),
                E("r1", "value", "B", "int", 4), E("r2", "value", "P", "int", 6)}
Required == {"mp", "n", "r1", "r2"}

Chosen == {Cat[j] : j \in sel}
Cfg == Chosen \cup {b \in BaseEntries : b.par \notin miss /\ ~Has(Chosen, b.par, b.prop)}

GInit == sel = {} /\ miss \in {S \in SUBSET Required : Cardinality(S) <= 1} \cup {{"mp", "n"}, {"r1", "r2"}} /\ last = 0
GNext == \E j \in last + 1 .. Len(Cat) :
           /\ Cardinality(sel) < (IF miss = {} THEN MaxExtra ELSE MaxExtraWhenMissing)
           /\ ~Has(Chosen, Cat[j].par, Cat[j].prop)
           /\ (Cat[j].par \in miss => Cat[j].prop # "value")      \* (e.g. only a default given for a required value)
           /\ sel' = sel \cup {j} /\ last' = j /\ UNCHANGED miss
GSpec == GInit /\ [][GNext]_<<sel, miss, last>>

Classes == {[par |-> e.par, prop |-> e.prop, class |-> EntryClass(Cfg, e)] : e \in Cfg}
Emit1 == PrintT(<<"BEH", ToJson([cfg |-> Cfg, allowed |-> Allowed(Cfg), classes |-> Classes,
                                 missing |-> Missing(Cfg), why |-> WhyRejected(Cfg), exp |-> Exp(Cfg)])>>)
=============================================================================
