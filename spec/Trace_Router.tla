---------------------------- MODULE Trace_Router ----------------------------
(* code -> spec: histories recorded from the real Router + SecopClient objects must be      *)
(* behaviours of Router.  One JVM validates a batch; the clause that fails is named.        *)
(* An event carries the input of the step and the observation after it (node states, the    *)
(* router's cache, activated connections, what every connection was sent per parameter,     *)
(* reply, which upstream received what, restart requests).                                  *)
(* An event "group" lists steps that ran concurrently (subs) and the observation when all   *)
(* were done: there must be an order of the steps for which the observed streams are the    *)
(* concatenation of the expected ones (per connection and parameter; repetitions of the     *)
(* same entry are ignored there) and the final state is the observed one.                   *)
EXTENDS Router, Json, IOUtils, TLCExt, SequencesExt
Traces == JsonDeserialize(IOEnv.TRACE_FILE)
NT == Len(Traces)
VARIABLES t, l, carry, done
ASSUME \A i \in 1 .. NT : TLCSet(i, 1) /\ TLCSet(NT + i, 0)

ClauseName == <<"event outside the alphabet", "thread died with an exception", "request reached another node",
                "reply", "forwarded request", "description", "restart request", "node states",
                "activated connections", "cache", "update streams", "duration of the request">>
(* evaluates to b; remembers position and clause number when b is false *)
Clause(n, b) == IF b THEN TRUE ELSE ~TLCSet(NT + t, 100 * l + n)

Ev == Traces[t][l]
TInit == Init /\ t \in 1 .. NT /\ l = 1 /\ carry = NoOut /\ done = {}

Key(e) == <<e.n, e.m, e.p>>
ObsCache(c) == [k \in Keys |-> IF \E i \in 1 .. Len(c) : Key(c[i]) = k
                               THEN c[CHOOSE i \in 1 .. Len(c) : Key(c[i]) = k].en ELSE U]
ObsOut(o) == [c \in Conns |-> [k \in Keys |->
                IF \E i \in 1 .. Len(o) : o[i].c = c /\ Key(o[i]) = k
                THEN o[CHOOSE i \in 1 .. Len(o) : o[i].c = c /\ Key(o[i]) = k].seq ELSE <<>>]]
InAlphabet(o) == \A i \in 1 .. Len(o) : o[i].c \in Conns /\ Key(o[i]) \in Keys
Squeeze(s) == LET F[i \in 0 .. Len(s)] == IF i = 0 THEN <<>>
                                          ELSE IF i > 1 /\ s[i] = s[i - 1] THEN F[i - 1] ELSE Append(F[i - 1], s[i])
              IN F[Len(s)]
ObsRouted(r) == {[n |-> r[i].n, k |-> r[i].k, m |-> r[i].m, p |-> r[i].p, arg |-> r[i].arg] : i \in 1 .. Len(r)}

StreamsOK(e) ==
    LET oo == ObsOut(e.out) IN
    \A c \in Conns, k \in Keys :
        LET want == carry[c][k] \o last'.out[c][k] IN
        IF e.ev = "group"
        THEN Squeeze(oo[c][k]) = Squeeze(want)
        ELSE \/ oo[c][k] = want
             \/ k \in last'.opt[c] /\ oo[c][k] = <<>>

DescOK(e) == \E d \in Descriptions :
                /\ e.desc.eq = d.eq /\ e.desc.parts = d.parts
                /\ {<<e.desc.mods[i][1], e.desc.mods[i][2]>> : i \in 1 .. Len(e.desc.mods)} = d.mods

Matches(e) ==
    /\ Clause(2, Len(e.excs) = 0)
    /\ IF restart' THEN Clause(7, e.restarts >= 1)
       ELSE /\ e.ev # "group" =>
                  /\ Clause(3, \A i \in 1 .. Len(e.routed) : \E r \in last'.routed : r.n = e.routed[i].n)
                  /\ Clause(4, e.rep = last'.rep)
                  /\ Clause(5, ObsRouted(e.routed) = last'.routed)
                  /\ Clause(6, e.ev = "desc" => DescOK(e))
            /\ Clause(7, e.restarts = 0)
            /\ Clause(8, \A n \in Nodes : e.st[n] = st'[n])
            /\ Clause(9, ToSet(e.active) = active')
            /\ Clause(10, ObsCache(e.cache) = cache')
            /\ Clause(11, InAlphabet(e.out) /\ StreamsOK(e))
            /\ Clause(12, e.ev = "req" => e.dt <= 100)

Do(e) ==
    \/ /\ e.ev = "upd" /\ Clause(1, Key(e) \in Keys /\ e.en \in UpEntries)
       /\ UpUpdate(Key(e), e.en)
    \/ e.ev = "lose" /\ Close(e.n)
    \/ e.ev = "back" /\ Back(e.n, e.ver)
    \/ e.ev = "wait" /\ \E gone \in SUBSET Nodes, errs \in BOOLEAN : Wait(e.d, gone, errs)
    \/ /\ e.ev = "req"
       /\ Clause(1, e.c \in Conns /\ e.k \in Kinds /\ e.arg \in Nat /\ (e.ok => e.x \in Values) /\ (~e.ok => e.ec \in UpErrs))
       /\ \E cached \in BOOLEAN : Request(e.c, e.k, e.m, e.p, e.arg, e.ok, e.x, e.ec, cached)
    \/ e.ev = "act" /\ Activate(e.c)
    \/ e.ev = "deact" /\ Deactivate(e.c)
    \/ e.ev = "desc" /\ Describe(e.c)

OneStep ==
    /\ Ev.ev # "group"
    /\ Do(Ev)
    /\ Matches(Ev)
    /\ l' = l + 1 /\ UNCHANGED <<carry, done>>

Group ==
    /\ Ev.ev = "group"
    /\ \E i \in (1 .. Len(Ev.subs)) \ done :
         /\ Do(Ev.subs[i])
         /\ Clause(4, Ev.subs[i].rep = last'.rep)
         /\ IF done \cup {i} = 1 .. Len(Ev.subs)
            THEN Matches(Ev) /\ l' = l + 1 /\ done' = {} /\ carry' = NoOut
            ELSE /\ l' = l /\ done' = done \cup {i}
                 /\ carry' = [c \in Conns |-> [k \in Keys |-> carry[c][k] \o last'.out[c][k]]]

TStep ==
    /\ l <= Len(Traces[t])
    /\ t' = t
    /\ OneStep \/ Group

TSpec == TInit /\ [][TStep]_<<vars, t, l, carry, done>>

Track == TLCSet(t, IF l > TLCGet(t) THEN l ELSE TLCGet(t))
Verdicts == \A i \in 1 .. NT :
   IF TLCGet(i) = Len(Traces[i]) + 1 THEN PrintT(<<"ACCEPT", i>>)
   ELSE PrintT(<<"REJECT", i, TLCGet(i),
                 IF TLCGet(NT + i) \div 100 = TLCGet(i) THEN ClauseName[TLCGet(NT + i) % 100]
                 ELSE "step not enabled in Router">>)
=============================================================================
