SPECIFICATION TSpec
CONSTRAINT Track
INVARIANT TInv
POSTCONDITION Verdicts
CHECK_DEADLOCK FALSE
