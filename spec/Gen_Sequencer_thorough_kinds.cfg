SPECIFICATION GSpec
CONSTANTS
  Kinds = {"d2", "aad", "ar", "dc", "adx"}
  MaxLen = 2
  Hooks = {"none"}
  FaultModes = {"ew"}
  Depth = 14
  MaxStarts = 2
  MaxRefused = 0
  MaxStops = 1
CONSTRAINT Bound
INVARIANT Emit1
CHECK_DEADLOCK FALSE
