SPECIFICATION GSpec
CONSTANTS
  Mods = {"m1", "m2"}
  PNames = {"value", "target", "x", "y"}
  ExtraM = {"zz"}
  ExtraP = {"cmd"}
  CmdP = {"cmd"}
  DescCmds = {"cmd", "stop", "_stop"}
  Wires = {"w1", "wbad"}
  ValidW = {"w1"}
  ValidWB = {}
  Variants = {"a"}
  OtherDescs = {}
  ENames = {"HardwareError", "Bogus"}
  KnownE = {"HardwareError"}
  Texts = {"t1"}
  PrefTexts = {}
  PrefClass = "RangeError"
  PrefRest = "t1"
  Stamps = {0, 5, 999}
  MaxNow = 2
  Shapes = {"ok", "okq", "short", "nodata"}
  LevelKinds = {"node", "module", "param"}
  Kinds = {"updateEvent", "updateItem"}
  Behs = {"ok", "oneshot", "raise"}
  ErrBehs = {"ok", "raise"}
  InitDescs <- GenInit
  Descs <- GenDescs
  GIdents <- GIdentsM
  GActions = {"update", "reply", "changed", "error_update", "error_read", "error_change"}
  GLevels <- GLevelsT
  EmitOneIn = 2
  MaxCbs = 2
  MaxWait = 1
  Depth = 2
CONSTRAINT GBound
INVARIANT Emit1
CHECK_DEADLOCK FALSE
