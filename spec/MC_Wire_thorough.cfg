SPECIFICATION FSpec
CONSTANTS
  MaxLen = 7
  ReadSize = 7
  Classes = {"idn"}
  MaxPend = 1
  Threads = {"req"}
  UseLock = TRUE
  CheckRunning = TRUE
INVARIANT FTypeOK
INVARIANT FramingOK
INVARIANT FramingEnd
PROPERTY LinesGrow
CHECK_DEADLOCK FALSE
