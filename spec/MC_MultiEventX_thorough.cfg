SPECIFICATION MSpec
CONSTANTS
  Threads = {"a", "b", "w"}
  Inf = 99
  Slack = 0
  Ids = {"e1", "e2"}
  ActIds = {"a1", "a2"}
  RaisingActs = {"a1"}
  NewTimeouts = {0, 2}
  WaitTimeouts = {99, 1}
  Dto = 99
  MaxCalls = 3
  MaxTime = 1
INVARIANT ActionsOnce
INVARIANT QueuedOnlyWhilePending
INVARIANT FlusherHasWork
INVARIANT PendingCreated
INVARIANT NoContractDeadlock
INVARIANT WaitLimitSane
PROPERTY ActionsOnlyWhenSet
CHECK_DEADLOCK FALSE
