----------------------------- MODULE Gen_Dispatch -----------------------------
(* behaviour emission for spec -> code replay.  The history is hidden from the state     *)
(* identity (VIEW), so TLC visits every reachable (shape, cache) once (breadth first,    *)
(* level <= Depth) and the ACTION_CONSTRAINT prints, for EVERY request in EVERY such      *)
(* state, the shortest request sequence leading there, the request and the expected       *)
(* outcome: exhaustive over transitions instead of over paths.                            *)
EXTENDS Dispatch, Json
CONSTANT Depth
VARIABLE hist

Exp == [reply |-> last'.reply, calls |-> last'.calls, hookarg |-> last'.hookarg, upd |-> last'.upd, hassnap |-> last'.hassnap, snap |-> last'.snap,
        cache |-> cache', rerr |-> rerr', err |-> last'.err]
GInit == \E id \in ShapeIds(Families) :
            InitWith(ShapeOf(id)) /\ hist = [sid |-> id, path |-> <<>>]
GNext == \E req \in ReqsOf(shape) :
            Step(req) /\ hist' = [hist EXCEPT !.path = Append(@, [req |-> req, cache |-> cache', rerr |-> rerr'])]
GSpec == GInit /\ [][GNext]_<<vars, hist>>

View == <<shape, cache, rerr>>
Bound == TLCGet("level") <= Depth
EmitShape == (TLCGet("level") = 1) => PrintT(<<"SHAPE", ToJson([sid |-> hist.sid, shape |-> shape, cache |-> cache])>>)
EmitStep == PrintT(<<"BEH", ToJson([sid |-> hist.sid, path |-> hist.path, req |-> last'.req, exp |-> Exp])>>)
=============================================================================
