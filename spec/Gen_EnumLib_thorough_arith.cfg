SPECIFICATION GSpec
VIEW GView
CONSTANTS
  Names = {"a", "b"}
  IntVals <- IV_thorough
  Specials = {"none"}
  DispNames = {"x"}
  MaxPieces = 2
  MaxExt = 1
  MaxDepth = 1
  AsImpl = {}
  Families = {"arith"}
CHECK_DEADLOCK FALSE
