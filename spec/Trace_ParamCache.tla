-------------------------- MODULE Trace_ParamCache --------------------------
(* code -> spec: executions recorded from real modules / dispatcher (sequential  *)
(* random histories and controlled multi-thread runs, one event per critical    *)
(* section of updateLock in linearisation order) must be behaviours of          *)
(* ParamCache.  Event: [op, now, c (cache by fields), w (cache as make_update   *)
(* renders it), o (messages delivered per connection/parameter), s (client-side *)
(* replay of everything received), unl (#updates sent outside updateLock), lk,  *)
(* x (#messages for something that is no exported parameter)].                 *)
(* First record of a trace: [omit, sub, nodefault, hidden, c, now].             *)
(* An internal parameter callback is recorded as the connection "cb".           *)
EXTENDS ParamCache, Json, IOUtils, TLCExt, SequencesExt
Traces == JsonDeserialize(IOEnv.TRACE_FILE)
NT == Len(Traces)
VARIABLES t, l, bad
ASSUME \A i \in 1 .. NT : TLCSet(i, 2) /\ TLCSet(NT + i, <<0, "">>)

Ev == Traces[t][l]
I0 == Traces[t][1]

TInit == /\ t \in 1 .. NT /\ l = 2 /\ bad = ""
         /\ omit = [p \in Params |-> I0.omit[p]]
         /\ hidden = ToSet(I0.hidden)
         /\ cache = [p \in Params |-> [val |-> IF I0.c[p][1] = "-" THEN CHOOSE v \in Vals : TRUE ELSE I0.c[p][1],
                                       err |-> I0.c[p][2], ts |-> I0.c[p][3]]]
         /\ now = I0.now
         /\ sub = [c \in Conns |-> ToSet(I0.sub[c])]
         /\ seen = [c \in Conns |-> [p \in Params |-> IF Listens(sub[c], p) THEN View(cache[p]) ELSE Nothing]]
         /\ out = NoOut

(* the clauses an observed event must satisfy, in the order they are reported *)
FirstBad ==
    LET cl == << <<"cache", \A p \in Params : CV(cache'[p]) = Ev.c[p]>>,
                 <<"out", Ev.x = 0 /\ \A c \in Conns, p \in Params : out'[c][p] = Ev.o[c][p]>>,
                 <<"wire", \A p \in Params \ hidden : View(cache'[p]) = Ev.w[p]>>,
                 <<"seen", \A c \in Conns, p \in Params : Listens(sub'[c], p) => seen'[c][p] = Ev.s[c][p]>>,
                 <<"lock", Ev.unl = 0 /\ Ev.lk>> >>
        f == SelectSeq(cl, LAMBDA x : ~x[2])
    IN IF f = <<>> THEN "" ELSE f[1][1]

TStep == /\ bad = ""
         /\ l <= Len(Traces[t])
         /\ t' = t /\ l' = l + 1
         /\ Ev.now >= now /\ now' = Ev.now
         /\ Do(Ev.op, Ev.now)
         /\ bad' = FirstBad

TSpec == TInit /\ [][TStep]_<<vars, t, l, bad>>

(* register t: highest position reached with every clause satisfied; register NT+t: a failing clause there *)
Track == IF bad # ""
         THEN /\ (IF l - 1 >= TLCGet(t) THEN TLCSet(NT + t, <<l - 1, bad>>) ELSE TRUE)
              /\ FALSE
         ELSE TLCSet(t, IF l > TLCGet(t) THEN l ELSE TLCGet(t))
Verdicts == \A i \in 1 .. NT :
   IF TLCGet(i) = Len(Traces[i]) + 1 THEN PrintT(<<"ACCEPT", i>>)
   ELSE PrintT(<<"REJECT", i, TLCGet(i),
                 IF TLCGet(NT + i)[1] = TLCGet(i) THEN TLCGet(NT + i)[2] ELSE "operation not enabled">>)
=============================================================================
